"""Object factory for properties that range over whole objects (C10; reusable for C08 / C19).

    recipe = make(kind, rng, mode=None)      # draws every random choice ONCE, keeps plain data only
    obj    = recipe.build()                  # builds a completely fresh object graph (Parents, Sequences, children)
    twin   = recipe.build()                  # ... as often as needed: equal content, no shared interval objects

`kind`  one of KINDS:  single compound parent sequence cds transcript feature gene featcoll annot
`mode`  one of MODES:  none   no parent at all
                       noseq  chromosome Parent without sequence
                       chrom  chromosome Parent carrying the genome sequence
                       chunk  sequence-chunk Parent (idiom of io.parser.seq_chunk_to_parent)
        (location / sequence / parent kinds interpret the mode as "which hierarchy the object hangs on").

A recipe is deterministic from (kind, mode, the rng state): `make(kind, random.Random(seed), mode)` is how an operation
line `hist <kind>.<mode> <seed> …` is replayed.  `recipe.data` is a JSON-able dict (useful for shrinking / reports).
"""
import copy
import random

from harness import shims

shims.install()

import inscripta.biocantor  # noqa: E402,F401
from inscripta.biocantor.gene.biotype import Biotype  # noqa: E402
from inscripta.biocantor.gene.cds import CDSInterval  # noqa: E402
from inscripta.biocantor.gene.cds_frame import CDSFrame  # noqa: E402
from inscripta.biocantor.gene.collections import AnnotationCollection  # noqa: E402
from inscripta.biocantor.gene.feature import FeatureInterval, FeatureIntervalCollection  # noqa: E402
from inscripta.biocantor.gene.gene import GeneInterval  # noqa: E402
from inscripta.biocantor.gene.transcript import TranscriptInterval  # noqa: E402
from inscripta.biocantor.location.location_impl import SingleInterval, CompoundInterval  # noqa: E402
from inscripta.biocantor.location.strand import Strand  # noqa: E402
from inscripta.biocantor.parent import Parent, SequenceType  # noqa: E402
from inscripta.biocantor.sequence import Sequence  # noqa: E402
from inscripta.biocantor.sequence.alphabet import Alphabet  # noqa: E402

KINDS = ["single", "compound", "parent", "sequence", "cds", "transcript", "feature", "gene", "featcoll", "annot"]
MODES = ["none", "noseq", "chrom", "chunk"]
# kinds added for the argument / operand legs of C10 (not part of KINDS: the history legs iterate KINDS):
#   empty    the EmptyLocation singleton (the mode only decides which hierarchy the OTHER operands hang on)
#   variant  VariantInterval          varcoll  VariantIntervalCollection (1-3 variants, caller's list NOT sorted)
VARIANT_KINDS = ["variant", "varcoll"]
EXTRA_KINDS = ["empty"] + VARIANT_KINDS
ALL_KINDS = KINDS + EXTRA_KINDS
# where a variant handed to `incorporate_variants` lies relative to the members (transcripts / features / the interval
# itself) of the recipe's object, and what it is
VARIANT_PLACEMENTS = ("before", "inside", "aftermin", "after")
VARIANT_TYPES = ("snv", "ins", "del")
STRANDS = {"+": Strand.PLUS, "-": Strand.MINUS, ".": Strand.UNSTRANDED}
# Qualifier keys are disjoint between the levels of a hierarchy unless the recipe is a `share` recipe: then parent and
# children carry a common key and/or a key that collides with one of the keys the exporters add themselves
# (gene_id, transcript_id, ...).  Key collisions are what the shallow-copy defect F-C10b needs.
LEVEL_KEYS = {"gene": ["gnote", "gxref"], "tx": ["tnote", "txref"], "feat": ["fnote", "fxref"],
              "fc": ["cnote", "cxref"], "annot": ["anote"], "cds": ["pnote"]}
SHARED_KEYS = ["note", "db_xref", "k1"]
BUILTIN_KEYS = {"gene": ["gene_id", "locus_tag", "gene_name"], "tx": ["transcript_id", "protein_id", "transcript_name"],
                "feat": ["feature_id", "feature_name"], "fc": ["feature_collection_id", "locus_tag"],
                "cds": ["protein_id", "product"], "annot": []}
QUAL_VALS = ["a", "b", "c", "1", "x y", "G1", "T1"]
BIOTYPES = ["protein_coding", "lncRNA", "tRNA", None]


# ----------------------------------------------------------------------------------------------
# plain-data generators

def _genome(rng, n):
    return "".join(rng.choice("ACGT") for _ in range(n))


def _blocks(rng, lo, hi, k, allow_adjacent=True):
    """k sorted non-overlapping blocks inside [lo, hi); gaps >= 1 (sometimes 0 when allowed)."""
    k = max(1, min(k, (hi - lo) // 3))
    pts = sorted(rng.sample(range(lo, hi + 1), 2 * k))
    bl = [(pts[2 * i], pts[2 * i + 1]) for i in range(k)]
    if allow_adjacent and k > 1 and rng.random() < 0.15:
        i = rng.randrange(k - 1)
        bl[i] = (bl[i][0], bl[i + 1][0])      # make two blocks adjacent (retained as separate exons)
    return bl


def _quals(rng, level, shared_key=None, p_any=0.7):
    """`shared_key`: None, or a key every level of a `share` recipe carries; a share recipe also gets (50%) a key
    that collides with an exporter's own key at this level."""
    d = {}
    if rng.random() < p_any:
        keys = LEVEL_KEYS[level]
        for key in rng.sample(keys, rng.randint(1, len(keys))):
            d[key] = rng.sample(QUAL_VALS, rng.randint(1, 2))
    if shared_key:
        d[shared_key] = rng.sample(QUAL_VALS, rng.randint(1, 2))
        if BUILTIN_KEYS[level] and rng.random() < 0.5:
            d[rng.choice(BUILTIN_KEYS[level])] = rng.sample(QUAL_VALS, 1)
    return d or None


class Recipe:
    def __init__(self, kind, mode, data):
        self.kind, self.mode, self.data = kind, mode, data

    # ---- near-identical recipes ------------------------------------------------------------
    def siblings(self):
        """Recipes that differ from this one in ONE respect (every strand flipped / one base of the genome changed /
        chunk window moved by one / a qualifier value changed).  Building them next to the object is the adversarial
        interleaving for cache keys: anything keyed on too little hands the sibling's Parent to the object."""
        out = []

        def walk(x, fn):
            if isinstance(x, dict):
                for k in list(x):
                    x[k] = fn(k, x[k])
                    walk(x[k], fn)
            elif isinstance(x, list):
                for v in x:
                    walk(v, fn)

        flip = {"+": "-", "-": "+", ".": "+"}
        d = copy.deepcopy(self.data)
        walk(d, lambda k, v: flip[v] if k in ("strand", "seq_strand") and v in flip else v)
        out.append(Recipe(self.kind, self.mode, d))
        d = copy.deepcopy(self.data)
        g = d["genome"]
        i = len(g) // 2
        d["genome"] = g[:i] + ("A" if g[i] != "A" else "C") + g[i + 1:]
        out.append(Recipe(self.kind, self.mode, d))
        d = copy.deepcopy(self.data)
        cs, ce = d["chunk"]
        d["chunk"] = [cs + 1, ce] if ce - cs > 2 else [cs, ce + 1]
        if ce - cs > 2 and self.kind not in ("single", "compound", "parent"):
            out.append(Recipe(self.kind, self.mode, d))
        d = copy.deepcopy(self.data)
        walk(d, lambda k, v: {kk: vv + ["sib"] for kk, vv in v.items()} if k == "qualifiers" and isinstance(v, dict) else v)
        out.append(Recipe(self.kind, self.mode, d))
        # the same levels in a hierarchy of another depth (with / without an assembly above the chromosome record)
        d = copy.deepcopy(self.data)
        d["assembly"] = not d.get("assembly")
        out.append(Recipe(self.kind, self.mode, d))
        return out

    # ---- parents -------------------------------------------------------------------------
    def _t(self, name):
        """sequence type in the spelling this recipe uses (enum member or plain string)"""
        return getattr(SequenceType, name) if self.data["enum_types"] else getattr(SequenceType, name).value

    def _assembly(self):
        """the level above the chromosome record, for the recipes that have one (`data["assembly"]`): hierarchies of two
        depths with identical lower levels are what a cache keyed without the ancestors cannot tell apart"""
        return Parent(id="asm1", sequence_type="assembly") if self.data.get("assembly") else None

    def chromosome_parent(self, with_sequence=True):
        d = self.data
        if with_sequence:
            return Parent(id=d["chrom"], sequence_type=self._t("CHROMOSOME"),
                          sequence=Sequence(d["genome"], Alphabet.NT_EXTENDED_GAPPED, id=d["chrom"],
                                            type=self._t("CHROMOSOME")), parent=self._assembly())
        return Parent(id=d["chrom"], sequence_type=self._t("CHROMOSOME"), parent=self._assembly())

    def chunk_parent(self, window=None):
        d = self.data
        cs, ce = window or d["chunk"]
        chunk_id = f"{d['chrom']}:{cs}-{ce}"
        return Parent(
            id=chunk_id,
            sequence=Sequence(
                d["genome"][cs:ce], Alphabet.NT_EXTENDED_GAPPED, id=chunk_id, type=self._t("SEQUENCE_CHUNK"),
                parent=Parent(location=SingleInterval(
                    cs, ce, Strand.PLUS, parent=Parent(id=d["chrom"], sequence_type=self._t("CHROMOSOME"))),
                    parent=self._assembly()),
            ),
        )

    def parent(self):
        m = self.mode
        if m == "none":
            return None
        if m == "noseq":
            return self.chromosome_parent(False)
        if m == "chrom":
            return self.chromosome_parent(True)
        return self.chunk_parent()

    # ---- objects -------------------------------------------------------------------------
    def build(self):
        return getattr(self, "_build_" + self.kind)()

    def _loc(self, spec, parent):
        st = STRANDS[spec["strand"]]
        bl = spec["blocks"]
        if spec.get("single"):
            return SingleInterval(bl[0][0], bl[0][1], st, parent=parent)
        return CompoundInterval([b[0] for b in bl], [b[1] for b in bl], st, parent=parent)

    def _loc_parent(self):
        """locations live in the coordinate system of their direct parent: chunk coordinates in chunk mode"""
        return self.parent()

    def _build_single(self):
        return self._loc(self.data["loc"], self._loc_parent())

    def _build_compound(self):
        return self._loc(self.data["loc"], self._loc_parent())

    def other_locations(self):
        """fresh operands for binary location operations (same parent as the object)"""
        return [self._loc(s, self._loc_parent()) for s in self.data.get("others", [])]

    def _build_parent(self):
        d = self.data
        p = self.parent()
        if p is None:
            p = Parent(id=d["chrom"])
        if d.get("parent_with_location"):
            loc = self._loc(d["loc"], None)
            return Parent(id=p.id, sequence_type=p.sequence_type, sequence=p.sequence, location=loc, parent=p.parent,
                          strand=loc.strand if d.get("parent_strand_arg") else None)
        return p

    def _build_sequence(self):
        d = self.data
        a, b = d["seq_window"]
        if self.mode == "none":
            return Sequence(d["genome"][a:b], Alphabet.NT_EXTENDED_GAPPED, id=d.get("seq_id"), type=d.get("seq_type"))
        chrom = self.chromosome_parent(self.mode != "noseq")
        return Sequence(d["genome"][a:b], Alphabet.NT_EXTENDED_GAPPED, id=d.get("seq_id"), type=self._t("SEQUENCE_CHUNK"),
                        parent=Parent(location=SingleInterval(a, b, STRANDS[d["seq_strand"]], parent=chrom)))

    def _cds(self, spec, parent):
        return CDSInterval([b[0] for b in spec["blocks"]], [b[1] for b in spec["blocks"]], STRANDS[spec["strand"]],
                           [CDSFrame(f) for f in spec["frames"]], sequence_name=self._seqname(),
                           protein_id=spec.get("protein_id"), product=spec.get("product"),
                           qualifiers=spec.get("qualifiers"), parent_or_seq_chunk_parent=parent)

    def _seqname(self):
        return self.data["chrom"] if self.data.get("named", True) else None

    def _build_cds(self):
        return self._cds(self.data["cds"], self.parent())

    def _tx(self, spec, parent):
        kw = {}
        if spec.get("cds"):
            c = spec["cds"]
            kw = dict(cds_starts=[b[0] for b in c["blocks"]], cds_ends=[b[1] for b in c["blocks"]],
                      cds_frames=[CDSFrame(f) for f in c["frames"]])
        return TranscriptInterval(
            [b[0] for b in spec["blocks"]], [b[1] for b in spec["blocks"]], STRANDS[spec["strand"]],
            qualifiers=spec.get("qualifiers"), is_primary_tx=spec.get("primary"),
            transcript_id=spec.get("id"), transcript_symbol=spec.get("symbol"),
            transcript_type=Biotype[spec["biotype"]] if spec.get("biotype") else None,
            sequence_name=self._seqname(), protein_id=spec.get("protein_id"), product=spec.get("product"),
            parent_or_seq_chunk_parent=parent, **kw)

    def _build_transcript(self):
        return self._tx(self.data["tx"], self.parent())

    def _feat(self, spec, parent):
        return FeatureInterval(
            [b[0] for b in spec["blocks"]], [b[1] for b in spec["blocks"]], STRANDS[spec["strand"]],
            qualifiers=spec.get("qualifiers"), sequence_name=self._seqname(), feature_types=spec.get("types"),
            feature_name=spec.get("name"), feature_id=spec.get("id"), is_primary_feature=spec.get("primary"),
            parent_or_seq_chunk_parent=parent)

    def _build_feature(self):
        return self._feat(self.data["feat"], self.parent())

    def _gene(self, spec, parent):
        return GeneInterval(
            [self._tx(t, parent) for t in spec["txs"]], gene_id=spec.get("id"), gene_symbol=spec.get("symbol"),
            gene_type=Biotype[spec["biotype"]] if spec.get("biotype") else None, locus_tag=spec.get("locus_tag"),
            qualifiers=spec.get("qualifiers"), sequence_name=self._seqname(), parent_or_seq_chunk_parent=parent)

    def _build_gene(self):
        return self._gene(self.data["gene"], self.parent())

    def _fc(self, spec, parent):
        return FeatureIntervalCollection(
            [self._feat(f, parent) for f in spec["feats"]], feature_collection_name=spec.get("name"),
            feature_collection_id=spec.get("id"), feature_collection_type=spec.get("type"),
            locus_tag=spec.get("locus_tag"), sequence_name=self._seqname(), qualifiers=spec.get("qualifiers"),
            parent_or_seq_chunk_parent=parent)

    def _build_featcoll(self):
        return self._fc(self.data["fc"], self.parent())

    def _build_annot(self):
        d = self.data["annot"]
        p = self.parent()
        return AnnotationCollection(
            feature_collections=[self._fc(f, p) for f in d["fcs"]] or None,
            genes=[self._gene(g, p) for g in d["genes"]] or None,
            name=d.get("name"), id=d.get("id"), sequence_name=self._seqname(), qualifiers=d.get("qualifiers"),
            parent_or_seq_chunk_parent=p)

    # ---- kinds added for C10's argument legs: empty location, variants -------------------
    def _build_empty(self):
        from inscripta.biocantor.location.location_impl import EmptyLocation
        return EmptyLocation()

    def _variant(self, spec, parent):
        from inscripta.biocantor.gene.variants import VariantInterval
        return VariantInterval(spec["start"], spec["end"], spec["sequence"], spec["variant_type"],
                               phase_block=spec.get("phase_block"), variant_name=spec.get("name"),
                               variant_id=spec.get("id"), qualifiers=spec.get("qualifiers"),
                               parent_or_seq_chunk_parent=parent)

    def _varcoll(self, spec, parent):
        from inscripta.biocantor.gene.variants import VariantIntervalCollection
        return VariantIntervalCollection(
            [self._variant(v, parent) for v in spec["vars"]], variant_collection_name=spec.get("name"),
            variant_collection_id=spec.get("id"), sequence_name=self._seqname(), qualifiers=spec.get("qualifiers"),
            parent_or_seq_chunk_parent=parent)

    def _build_variant(self):
        return self._variant(self.data["var"], self.parent())

    def _build_varcoll(self):
        return self._varcoll(self.data["vc"], self.parent())

    def members(self):
        """block lists (chromosome coordinates) of the members of the main object: the transcripts of a gene, the
        features of a collection, all of them for an annotation collection, the interval itself otherwise"""
        d = self.data
        for k in ("cds", "tx", "feat"):
            if k in d:
                return [d[k]["blocks"]]
        if "gene" in d:
            return [t["blocks"] for t in d["gene"]["txs"]]
        if "fc" in d:
            return [f["blocks"] for f in d["fc"]["feats"]]
        if "annot" in d:
            return [t["blocks"] for g in d["annot"]["genes"] for t in g["txs"]] + \
                   [f["blocks"] for c in d["annot"]["fcs"] for f in c["feats"]]
        if "var" in d:
            return [[(d["var"]["start"], d["var"]["end"])]]
        if "vc" in d:
            return [[(v["start"], v["end"])] for v in d["vc"]["vars"]]
        return []

    def variant_spec(self, placement, vtype):
        """plain data of ONE variant placed relative to the members (deterministic from the recipe):
             before    ends before every member starts
             inside    in the middle of the longest block of the first member
             aftermin  first base after the member that ends FIRST (the other members overlap it or lie downstream)
             after     starts where the last member ends
           snv: one base replaced; ins: one base -> that base + GG (left padded); del: two bases -> the first (left padded).
           In chunk mode the position is moved into the chunk window."""
        d = self.data
        L, g = d["L"], d["genome"]
        ms = self.members() or [[(L // 3, 2 * L // 3)]]
        s_min = min(b[0][0] for b in ms)
        e_max = max(b[-1][1] for b in ms)
        e_min = min(b[-1][1] for b in ms)
        if placement == "before":
            p = s_min - 2
        elif placement == "inside":
            a, b = max(ms[0], key=lambda bl: bl[1] - bl[0])
            p = a + (b - a) // 2
        elif placement == "aftermin":
            p = e_min
        else:
            p = e_max
        n = 2 if vtype == "del" else 1
        lo, hi = (d["chunk"] if self.mode == "chunk" else (0, L))
        p = max(lo, min(p, hi - n))
        ref = g[p]
        if vtype == "snv":
            alt = "A" if ref != "A" else "C"
        elif vtype == "ins":
            alt = ref + "GG"
        else:
            alt = ref
        return {"start": p, "end": p + n, "sequence": alt, "variant_type": {"snv": "SNV", "ins": "insertion",
                                                                            "del": "deletion"}[vtype],
                "name": f"v_{placement}", "id": None, "phase_block": None, "qualifiers": {"vnote": ["q1"]}}

    def build_variants(self, placement, vtype, as_collection):
        """a fresh VariantInterval / VariantIntervalCollection (the placed variant + an SNV after the last member) on a
        fresh parent equal to the object's"""
        parent = self.parent()
        spec = self.variant_spec(placement, vtype)
        if not as_collection:
            return self._variant(spec, parent)
        specs = [spec]
        extra = self.variant_spec("after", "snv")
        if extra["start"] >= spec["end"] + 1:
            specs.append(dict(extra, name="v_extra"))
        # the caller's list is NOT in coordinate order
        return self._varcoll({"vars": specs[::-1], "name": "vc", "id": None, "qualifiers": None}, parent)


# ----------------------------------------------------------------------------------------------
# recipes

def _frames_for(rng, blocks, strand):
    """frames in the order of `blocks` (ascending coordinates): cumulative length in transcription order."""
    order = blocks if strand != "-" else blocks[::-1]
    f = rng.choice([0, 0, 0, 1, 2])
    out = []
    for s, e in order:
        out.append(f)
        n = e - s
        # CDSFrame.shift(n): frame of the first base of the next exon
        f = (f + n) % 3
    return out if strand != "-" else out[::-1]


def _clip(exons, a, b):
    return [(max(s, a), min(e, b)) for s, e in exons if min(e, b) > max(s, a)]


def _cds_spec(rng, exons, strand):
    lo, hi = exons[0][0], exons[-1][1]
    blocks = None
    for _ in range(30):
        a = rng.randint(lo, hi - 1)
        b = rng.randint(a + 1, hi)
        bl = _clip(exons, a, b)
        if sum(e - s for s, e in bl) >= 3:
            blocks = bl
            break
    if blocks is None:
        blocks = list(exons)
        if sum(e - s for s, e in blocks) < 3:
            return None
    return {"blocks": blocks, "strand": strand, "frames": _frames_for(rng, blocks, strand)}


def _tx_spec(rng, L, strand=None, coding=None, shared_key=None, i=0):
    strand = strand or rng.choice("+-")
    exons = _blocks(rng, 2, L - 2, rng.randint(1, 4))
    spec = {"blocks": exons, "strand": strand, "id": rng.choice([f"T{i}", None]), "symbol": rng.choice([f"tx{i}", None]),
            "biotype": rng.choice(BIOTYPES), "primary": None, "protein_id": rng.choice([None, f"P{i}"]),
            "product": rng.choice([None, "prod"]),
            "qualifiers": _quals(rng, "tx", shared_key)}
    if coding is None:
        coding = rng.random() < 0.7
    if coding:
        c = _cds_spec(rng, exons, strand)
        if c:
            spec["cds"] = c
    return spec


def _feat_spec(rng, L, strand=None, shared_key=None, i=0):
    strand = strand or rng.choice("+-")
    return {"blocks": _blocks(rng, 2, L - 2, rng.randint(1, 3)), "strand": strand,
            "types": rng.choice([None, ["promoter"], ["a", "b"]]), "name": rng.choice([None, f"feat{i}"]),
            "id": rng.choice([None, f"F{i}"]), "primary": None,
            "qualifiers": _quals(rng, "feat", shared_key)}


def _gene_spec(rng, L, share, i=0):
    strand = rng.choice("+-")
    key = rng.choice(SHARED_KEYS) if share else None
    n = rng.randint(1, 3)
    txs, seen = [], set()
    for j in range(n):
        t = _tx_spec(rng, L, strand=strand, shared_key=key, i=10 * i + j)
        sig = repr(t)
        if sig not in seen:
            seen.add(sig)
            txs.append(t)
    return {"txs": txs, "id": rng.choice([None, f"G{i}"]), "symbol": rng.choice([None, f"gene{i}"]),
            "biotype": rng.choice(BIOTYPES[:3]), "locus_tag": rng.choice([None, f"LT{i}"]),
            "qualifiers": _quals(rng, "gene", key)}


def _fc_spec(rng, L, share, i=0):
    key = rng.choice(SHARED_KEYS) if share else None
    feats, seen = [], set()
    for j in range(rng.randint(1, 3)):
        f = _feat_spec(rng, L, shared_key=key, i=10 * i + j)
        if repr(f) not in seen:
            seen.add(repr(f))
            feats.append(f)
    return {"feats": feats, "name": rng.choice([None, f"fc{i}"]), "id": rng.choice([None, f"FC{i}"]),
            "type": rng.choice([None, "regulatory"]), "locus_tag": rng.choice([None, f"LT{i}"]),
            "qualifiers": _quals(rng, "fc", key)}


def _span(spec):
    """chromosome span of whatever the recipe's main object is"""
    for k in ("cds", "tx", "feat"):
        if k in spec:
            b = spec[k]["blocks"]
            return b[0][0], b[-1][1]
    if "gene" in spec:
        bs = [b for t in spec["gene"]["txs"] for b in t["blocks"]]
    elif "fc" in spec:
        bs = [b for f in spec["fc"]["feats"] for b in f["blocks"]]
    elif "annot" in spec:
        bs = [b for g in spec["annot"]["genes"] for t in g["txs"] for b in t["blocks"]] + \
             [b for c in spec["annot"]["fcs"] for f in c["feats"] for b in f["blocks"]]
    else:
        return None
    return min(b[0] for b in bs), max(b[1] for b in bs)


def _chunk_window(rng, L, span):
    """chunk placed relative to the object: mostly covering, sometimes cutting either end, rarely disjoint"""
    s, e = span
    r = rng.random()
    if r < 0.55:
        cs, ce = rng.randint(0, s), rng.randint(e, L)
    elif r < 0.7:
        cs, ce = rng.randint(s + 1, max(s + 1, e - 1)), rng.randint(e, L)
    elif r < 0.85:
        cs, ce = rng.randint(0, s), rng.randint(s + 1, max(s + 1, e - 1))
    elif r < 0.95:
        cs = rng.randint(s, max(s, e - 2))
        ce = rng.randint(cs + 1, e)
    else:
        if s >= 4:
            cs = rng.randint(0, s - 3)
            ce = rng.randint(cs + 1, s - 1)
        else:
            cs, ce = rng.randint(0, s), rng.randint(e, L)
    if ce <= cs:
        ce = cs + 1
    return [cs, min(ce, L)]


CUT_KINDS = ("cds", "transcript", "gene", "annot")
CUTS = ("lo", "hi", "both")


def _long_cds_tx(r, L, strand=None, i=0):
    """a coding transcript spec whose CDS has >= 18 bases (several codons to lose and to keep)"""
    for _ in range(200):
        t = _tx_spec(r, L, strand=strand, coding=True, i=i)
        c = t.get("cds")
        if c and sum(e - s for s, e in c["blocks"]) >= 18:
            return t
    raise RuntimeError("no long CDS drawn")


def _cut_window(r, L, cds_blocks, cut):
    """chunk window that CUTS the CDS: at least one whole codon's worth of CDS bases is outside on the low-coordinate
    side (`lo`), the high-coordinate side (`hi`) or on both sides, and at least 6 CDS bases stay inside"""
    flat = [p for s, e in cds_blocks for p in range(s, e)]
    n = len(flat)
    a = r.randint(3, max(3, n // 3)) if cut in ("lo", "both") else 0          # CDS bases lost below
    b = r.randint(3, max(3, n // 3)) if cut in ("hi", "both") else 0          # CDS bases lost above
    cs = flat[a] if a else r.randint(0, flat[0])
    ce = flat[n - 1 - b] + 1 if b else r.randint(flat[-1] + 1, L)
    return [cs, ce]


def _force_cut(kind, d, r, cut, L):
    """rewrite the recipe so that its (primary) CDS is long and the sequence chunk cuts it"""
    if kind == "cds":
        t = _long_cds_tx(r, L)
        keep = {k: d["cds"].get(k) for k in ("protein_id", "product", "qualifiers")}
        d["cds"] = dict(t["cds"], **keep)
        blocks = d["cds"]["blocks"]
    elif kind == "transcript":
        old = d["tx"]
        d["tx"] = _long_cds_tx(r, L)
        d["tx"]["qualifiers"] = old.get("qualifiers")
        blocks = d["tx"]["cds"]["blocks"]
    else:
        if kind == "annot":
            if not d["annot"]["genes"]:
                d["annot"]["genes"] = [_gene_spec(r, L, False, 0)]
            g = d["annot"]["genes"][0]
        else:
            g = d["gene"]
        t = _long_cds_tx(r, L, strand=g["txs"][0]["strand"], i=99)
        t["primary"] = True                      # get_primary_cds() is this transcript's CDS
        for other in g["txs"]:
            other["primary"] = None
        g["txs"][0] = t
        blocks = t["cds"]["blocks"]
    d["chunk"] = _cut_window(r, L, blocks, cut)
    d["cut"] = cut


def builtin_qualifier_keys():
    """the keys the exporters add themselves (values of `BioCantorQualifiers`, by introspection)"""
    from inscripta.biocantor.io.gff3.constants import BioCantorQualifiers
    return sorted({q.value for q in BioCantorQualifiers})


TX_ADDED = ("transcript_id", "transcript_name", "transcript_biotype", "protein_id")     # TranscriptInterval.export_qualifiers
CDS_ADDED = ("protein_id", "product")                                                   # CDSInterval.export_qualifiers
FEAT_ADDED = ("feature_id", "feature_name", "feature_type")                             # FeatureInterval.export_qualifiers


def _inherited_quals(r, names, must, old):
    """parent-level qualifiers that ALREADY use keys under which the children add their own identifiers"""
    q = dict(old or {})
    keys = set(r.sample(names, r.randint(2, min(6, len(names)))))
    keys |= {k for k in must if k in names}
    for k in sorted(keys):
        q[k] = [f"parent-level {k}"] + (["x y"] if r.random() < 0.3 else [])
    return q


def _strip(quals, names):
    q = {k: v for k, v in (quals or {}).items() if k not in names}
    return q or None


def _inherit_gene(g, r, L, names, base):
    """>= 2 coding transcripts with distinct identifiers / protein ids / products, none of the exporter keys in the
    transcripts' own qualifiers, several of them in the gene's qualifiers"""
    strand = g["txs"][0]["strand"]
    txs = [t for t in g["txs"] if t.get("cds")][:2]
    seen = {repr(t["blocks"]) + repr(t["cds"]["blocks"]) for t in txs}
    for _ in range(200):
        if len(txs) >= 2:
            break
        t = _tx_spec(r, L, strand=strand, coding=True, i=base + len(txs))
        if t.get("cds") and repr(t["blocks"]) + repr(t["cds"]["blocks"]) not in seen:
            seen.add(repr(t["blocks"]) + repr(t["cds"]["blocks"]))
            txs.append(t)
    for j, t in enumerate(txs):
        t.update(id=f"T{base + j}", symbol=f"tx{base + j}", protein_id=f"P{base + j}", product=f"prod{base + j}")
        t["qualifiers"] = _strip(t.get("qualifiers"), names)
    g["txs"] = txs + [dict(t, qualifiers=_strip(t.get("qualifiers"), names)) for t in g["txs"] if not t.get("cds")][:1]
    g["qualifiers"] = _inherited_quals(r, names, [r.choice(TX_ADDED), "product"], g.get("qualifiers"))


def _inherit_fc(c, r, names, base):
    for j, f in enumerate(c["feats"]):
        f.update(id=f"F{base + j}", name=f"feat{base + j}", types=f.get("types") or ["promoter"])
        f["qualifiers"] = _strip(f.get("qualifiers"), names)
    c["qualifiers"] = _inherited_quals(r, names, [r.choice(FEAT_ADDED[:2])], c.get("qualifiers"))


def _force_inherit(kind, d, r, L):
    """rewrite the recipe so that the PARENT level of every hierarchy carries qualifiers under keys the children add
    their identifiers to, with those keys absent from the children's own qualifiers (what an export that adopts the
    parent's value sets instead of copying them needs in order to show)"""
    names = builtin_qualifier_keys()
    if kind == "gene":
        _inherit_gene(d["gene"], r, L, names, 0)
    elif kind == "featcoll":
        _inherit_fc(d["fc"], r, names, 0)
    elif kind == "annot":
        if not d["annot"]["genes"]:
            d["annot"]["genes"] = [_gene_spec(r, L, False, 0)]
        for i, g in enumerate(d["annot"]["genes"]):
            _inherit_gene(g, r, L, names, 10 * i)
        for i, c in enumerate(d["annot"]["fcs"]):
            _inherit_fc(c, r, names, 50 + 10 * i)
    elif kind == "transcript":
        t = d["tx"]
        t.update(id="T0", symbol="tx0", protein_id="P0", product="prod0")
        t["qualifiers"] = _inherited_quals(r, names, ["product", "protein_id"], _strip(t.get("qualifiers"), names))
    elif kind == "cds":
        c = d["cds"]
        c.update(protein_id="P0", product="prod0")
        c["qualifiers"] = _inherited_quals(r, names, ["product"], _strip(c.get("qualifiers"), names))
    elif kind == "feature":
        f = d["feat"]
        f.update(id="F0", name="feat0", types=f.get("types") or ["promoter"])
        f["qualifiers"] = _inherited_quals(r, names, ["feature_id"], _strip(f.get("qualifiers"), names))
    d["inherit"] = True
    d["named"] = True           # GFF3 export needs a sequence name


INHERIT_KINDS = ("cds", "transcript", "feature", "gene", "featcoll", "annot")


def _variant_spec(rng, g, lo, hi, i=0):
    """one random variant inside [lo, hi): SNV / insertion / deletion (left padded or not)"""
    vt = rng.choice(VARIANT_TYPES)
    n = 1 if vt != "del" else rng.randint(2, 3)
    p = rng.randint(lo, max(lo, hi - n))
    ref = g[p]
    if vt == "snv":
        alt = "A" if ref != "A" else "C"
    elif vt == "ins":
        alt = ref + "".join(rng.choice("ACGT") for _ in range(rng.randint(1, 3)))
    else:
        alt = ref if rng.random() < 0.7 else ""
    return {"start": p, "end": p + n, "sequence": alt,
            "variant_type": {"snv": "SNV", "ins": "insertion", "del": "deletion"}[vt],
            "name": rng.choice([None, f"var{i}"]), "id": rng.choice([None, f"V{i}"]),
            "phase_block": rng.choice([None, 1]),
            "qualifiers": rng.choice([None, {"vnote": rng.sample(QUAL_VALS, rng.randint(1, 2))}])}


def _variant_recipe(kind, d, rng, L, mode):
    """variant kinds: the chunk window covers every variant (a variant outside its chunk cannot be constructed)"""
    g = d["genome"]
    if kind == "variant":
        d["var"] = _variant_spec(rng, g, 2, L - 2)
        vs = [d["var"]]
    else:
        n = rng.randint(1, 3)
        # disjoint thirds of the chromosome, non adjacent; the list is shuffled (not in coordinate order)
        w = (L - 4) // 3
        vs = [_variant_spec(rng, g, 2 + j * w + 1, 2 + (j + 1) * w - 1, j) for j in range(n)]
        rng.shuffle(vs)
        d["vc"] = {"vars": vs, "name": rng.choice([None, "vc0"]), "id": rng.choice([None, "VC0"]),
                   "qualifiers": rng.choice([None, {"cvnote": ["x"]}])}
    s, e = min(v["start"] for v in vs), max(v["end"] for v in vs)
    d["chunk"] = [rng.randint(0, s), rng.randint(e, L)]


def make(kind, rng, mode=None, spelling=None, cut=None, inherit=False):
    """Draw a recipe. All randomness is consumed here; `recipe.build()` is deterministic.
    `inherit` (kinds INHERIT_KINDS): the parent level (gene / feature collection; for the single-interval kinds the
    interval itself) carries qualifiers under keys of `BioCantorQualifiers` (the keys the children's exporters add their
    identifiers under) and the children do NOT have those keys; genes get >= 2 coding transcripts with distinct ids,
    protein ids and products.  Drawn from a separate stream, so recipes without the flag are unchanged for a given seed.
    `spelling`: "e" = sequence types are given as SequenceType members, "s" = as plain strings ('chromosome'), None = draw.
    `cut` (chunk mode, kinds cds/transcript/gene/annot): "lo" | "hi" | "both" — the chunk window is guaranteed to cut the
    (primary) CDS on the low-coordinate side / high-coordinate side / both, so that the chunk-relative view has fewer
    codons than the chromosome view (5' or 3' by strand; CDS with >= 18 bases, 1-4 exons)."""
    if kind not in ALL_KINDS:
        raise KeyError(kind)
    mode = mode or rng.choice(MODES)
    L = rng.randint(60, 160)
    d = {"chrom": rng.choice(["chr1", "chrX", "seq_7"]), "genome": _genome(rng, L), "L": L,
         "enum_types": rng.random() < 0.7, "named": rng.random() < 0.9}
    if spelling is not None:
        d["enum_types"] = spelling == "e"
    d["assembly"] = L % 3 == 0          # (no draw from rng: the other choices stay what they were)
    share = rng.random() < 0.25
    d["share"] = share
    if kind in ("single", "compound", "parent", "empty"):
        # coordinate system of the direct parent: the chunk in chunk mode
        if mode == "chunk":
            cs = rng.randint(0, L // 3)
            ce = rng.randint(cs + 30, L)
            d["chunk"] = [cs, ce]
            top = ce - cs
        else:
            top = L
        strand = rng.choice("+-+-.")
        if kind == "single" or (kind == "parent" and rng.random() < 0.5):
            a = rng.randint(0, top - 2)
            b = rng.randint(a, top) if rng.random() < 0.9 else a
            d["loc"] = {"single": True, "strand": strand, "blocks": [(a, b)]}
        else:
            bl = _blocks(rng, 0, top, rng.randint(2, 5))
            if rng.random() < 0.2 and len(bl) > 1:       # overlapping blocks
                i = rng.randrange(len(bl) - 1)
                bl[i] = (bl[i][0], min(top, bl[i + 1][0] + 1 + rng.randint(0, 2)))
            d["loc"] = {"strand": strand, "blocks": bl}
        others = []
        for _ in range(3):
            st2 = strand if rng.random() < 0.7 else rng.choice("+-.")
            if rng.random() < 0.5:
                a = rng.randint(0, top - 1)
                others.append({"single": True, "strand": st2, "blocks": [(a, rng.randint(a, top))]})
            else:
                others.append({"strand": st2, "blocks": _blocks(rng, 0, top, rng.randint(2, 3))})
        d["others"] = others
        d["parent_with_location"] = rng.random() < 0.6
        d["parent_strand_arg"] = rng.random() < 0.5
    elif kind == "sequence":
        a = rng.randint(0, L - 10)
        d["seq_window"] = [a, rng.randint(a + 5, L)]
        d["seq_strand"] = rng.choice("+-")
        d["seq_id"] = rng.choice([None, "s1"])
        d["seq_type"] = rng.choice([None, "other"])
    elif kind == "cds":
        strand = rng.choice("+-")
        exons = _blocks(rng, 2, L - 2, rng.randint(1, 4))
        c = _cds_spec(rng, exons, strand) or {"blocks": [(2, 11)], "strand": strand, "frames": [0]}
        c["protein_id"] = rng.choice([None, "P1"])
        c["product"] = rng.choice([None, "prod"])
        c["qualifiers"] = _quals(rng, "cds", "note" if share else None)
        if share:
            c["protein_id"], c["product"] = "P1", "prod"
        d["cds"] = c
    elif kind == "transcript":
        d["tx"] = _tx_spec(rng, L, shared_key="note" if share else None)
        if share:
            d["tx"].update(id="T0", symbol="tx0", protein_id="P0")
    elif kind == "feature":
        d["feat"] = _feat_spec(rng, L, shared_key="note" if share else None)
        if share:
            d["feat"].update(id="F0", name="feat0")
    elif kind == "gene":
        d["gene"] = _gene_spec(rng, L, share)
    elif kind == "featcoll":
        d["fc"] = _fc_spec(rng, L, share)
    elif kind == "annot":
        ng = rng.randint(0, 2)
        nf = rng.randint(0 if ng else 1, 2)
        d["annot"] = {"genes": [_gene_spec(rng, L, share, i) for i in range(ng)],
                      "fcs": [_fc_spec(rng, L, share, 5 + i) for i in range(nf)],
                      "name": rng.choice([None, "ac"]), "id": rng.choice([None, "AC1"]),
                      "qualifiers": _quals(rng, "annot", None, 0.4)}
    elif kind in VARIANT_KINDS:
        _variant_recipe(kind, d, rng, L, mode)
    if "chunk" not in d:
        span = _span(d) or (L // 3, 2 * L // 3)
        d["chunk"] = _chunk_window(rng, L, span)
    # positions / windows used by calls with arguments (chromosome coordinates)
    d["pos"] = [rng.randint(0, L - 1) for _ in range(4)]
    a = rng.randint(0, L - 2)
    d["window"] = [a, rng.randint(a + 1, L)]
    cs = rng.randint(0, L // 2)
    d["chunk2"] = [cs, rng.randint(cs + 10, L)]
    if cut and mode == "chunk" and kind in CUT_KINDS:
        # a separate stream, so that recipes without `cut` are unchanged for a given seed
        _force_cut(kind, d, random.Random(rng.getrandbits(32)), cut, L)
    elif inherit and kind in INHERIT_KINDS:
        _force_inherit(kind, d, random.Random(rng.getrandbits(32)), L)
    elif cut and kind == "compound" and (cut == "deg" or cut[0] == "L"):
        _force_degenerate(d, random.Random(rng.getrandbits(32)), cut, (d["chunk"][1] - d["chunk"][0]) if mode == "chunk" else L)
    return Recipe(kind, mode, d)


def degenerate_blocks(r, top, near=None):
    """2-5 blocks that are deliberately NOT a clean exon list: zero-length blocks (inside / at the start / at the end of
    another block, or apart), duplicates, nested, adjacent and overlapping blocks; half of the time not in coordinate
    order.  Every block has start <= end and lies in [0, top]."""
    w0 = r.randint(0, max(0, top - 16)) if near is None else max(0, min(near - 2, top - 4))
    a = w0 + r.randint(0, 3)
    bl = [(a, a + r.randint(1, 6))]
    for _ in range(r.randint(1, 4)):
        s, e = bl[-1] if r.random() < 0.6 else r.choice(bl)
        how = r.choice(["zero-in", "zero-in", "zero-start", "zero-end", "dup", "nested", "adjacent", "overlap", "apart",
                        "zero-apart"])
        if how == "zero-in":
            p = r.randint(s, e)
            nb = (p, p)
        elif how == "zero-start":
            nb = (s, s)
        elif how == "zero-end":
            nb = (e, e)
        elif how == "dup":
            nb = (s, e)
        elif how == "nested":
            x = r.randint(s, e)
            nb = (x, r.randint(x, e))
        elif how == "adjacent":
            nb = (e, e + r.randint(1, 3))
        elif how == "overlap":
            x = r.randint(s, e)
            nb = (x, e + r.randint(0, 3))
        elif how == "apart":
            nb = (e + 2, e + 2 + r.randint(1, 3))
        else:
            nb = (e + 1, e + 1)
        bl.append((max(0, min(nb[0], top)), max(0, min(nb[1], top))))
    if r.random() < 0.5:
        r.shuffle(bl)
    return bl


def _force_degenerate(d, r, cut, top):
    """compound recipes whose block list is degenerate (`deg`: drawn by `degenerate_blocks`; `Lp0-5_3-3_6-8`: the literal
    blocks 0-5, 3-3, 6-8 on the plus strand — p / m / u); the other operands of the binary operations lie over the same
    coordinates, one of them is degenerate too"""
    strand = d["loc"]["strand"]
    if cut == "deg":
        bl = degenerate_blocks(r, top)
    else:
        strand = {"p": "+", "m": "-", "u": "."}[cut[1]]
        bl = [tuple(int(x) for x in b.split("-")) for b in cut[2:].split("_")]
    d["loc"] = {"strand": strand, "blocks": bl}
    lo, hi = min(b[0] for b in bl), max(b[1] for b in bl)
    hi = max(hi, lo + 2)
    a = r.randint(lo, hi - 1)
    d["others"] = [{"single": True, "strand": strand, "blocks": [(a, r.randint(a, min(top, hi + 1)))]},
                   {"strand": strand if r.random() < 0.7 else r.choice("+-."), "blocks": degenerate_blocks(r, top, lo)},
                   {"strand": strand, "blocks": [(lo, lo + 1), (min(top, lo + 2), min(top, hi + 2))]}]
    d["degenerate"] = True
