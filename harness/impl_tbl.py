"""Implementation side of C17: op line -> real BioCantor objects -> real tbl_writer code -> canonical answer.

Ops
  locstr <key> <strand> <si> <ei> <k> s e ...                 TblFeature._location_to_str of the real feature class
  quals <key> <pseudo> <n> {k nv v..}                         TblFeature._qualifiers_to_str
  cdsfeat <table> <strand> <genome> <k> {s e frame}           the real CDSTblFeature of a one-transcript gene
  tblgene <table> <genome> <gene>                             the real TblGene: skeleton of every feature it yields
  seed <seed|~>                                               is `random.seed(random_seed)` applied? (two exports equal)
  locustags <prefix> <step> <m> n1 .. nm                      collection_to_tbl over m collections: the gene locus tags
  headers <list|tuple|iter|gen> <m> {name n}                  collection_to_tbl over m collections (names may repeat): headers + gene counts
  coll <flavor> <table> <prefix> <step> <seed> <lab> <seqname> <genome> <genes>
                                                              collection_to_tbl text (twice with the same seed)
"""
from harness import shims

shims.install()

import io  # noqa: E402
import random  # noqa: E402
import warnings  # noqa: E402

from harness.common import guarded  # noqa: E402
from harness import gen_c17 as G  # noqa: E402
from inscripta.biocantor.gene.biotype import Biotype  # noqa: E402
from inscripta.biocantor.gene.cds_frame import CDSFrame  # noqa: E402
from inscripta.biocantor.gene.codon import TranslationTable  # noqa: E402
from inscripta.biocantor.gene.collections import AnnotationCollection  # noqa: E402
from inscripta.biocantor.gene.gene import GeneInterval  # noqa: E402
from inscripta.biocantor.gene.transcript import TranscriptInterval  # noqa: E402
from inscripta.biocantor.io.genbank.constants import GenbankFlavor  # noqa: E402
from inscripta.biocantor.io.ncbi import tbl_writer as W  # noqa: E402
from inscripta.biocantor.io.parser import seq_to_parent  # noqa: E402
from inscripta.biocantor.location.location_impl import SingleInterval, CompoundInterval  # noqa: E402
from inscripta.biocantor.location.strand import Strand  # noqa: E402

warnings.filterwarnings("ignore")

SYM = {"+": Strand.PLUS, "-": Strand.MINUS, ".": Strand.UNSTRANDED}
RSYM = {v: k for k, v in SYM.items()}
CLASSES = {"gene": W.GeneTblFeature, "mRNA": W.MRNATblFeature, "CDS": W.CDSTblFeature, "ncRNA": W.NcRNATblFeature,
           "misc_RNA": W.MiscRNATblFeature, "tRNA": W.TRNATblFeature, "rRNA": W.RRNATblFeature}
FLAVOR = {"E": GenbankFlavor.EUKARYOTIC, "P": GenbankFlavor.PROKARYOTIC}


def biotype(name):
    return None if name is None else Biotype[name]


def build_tx(t, parent, tid=None):
    kw = {}
    if t["cds"]:
        fr = t.get("frames") or G.frames_for(t["cds"], t["strand"], t["frame"], t["shift"])
        kw = dict(cds_starts=[s for s, _ in t["cds"]], cds_ends=[e for _, e in t["cds"]],
                  cds_frames=[CDSFrame[f] for f in fr])
    return TranscriptInterval([s for s, _ in t["exons"]], [e for _, e in t["exons"]], SYM[t["strand"]],
                              transcript_id=tid, transcript_type=biotype(t["ttype"]),
                              parent_or_seq_chunk_parent=parent, **kw)


def build_gene(g, parent, idx=0):
    txs = [build_tx(t, parent, f"tx{idx}.{j}") for j, t in enumerate(g["txs"])]
    return GeneInterval(txs, gene_symbol=g["symbol"], gene_type=biotype(g["gtype"]),
                        parent_or_seq_chunk_parent=parent)


def build_collection(coll):
    parent = seq_to_parent(coll["genome"], seq_id=coll["seqname"] or "unnamed")
    genes = [build_gene(g, parent, i) for i, g in enumerate(coll["genes"])]
    return AnnotationCollection(genes=genes, sequence_name=coll["seqname"], parent_or_seq_chunk_parent=parent)


def skeleton(feat):
    loc = feat.location
    bl = loc.blocks
    cs = feat.qualifiers.get("codon_start")
    lt = feat.qualifiers.get("locus_tag")
    return (f"{feat.FEATURE_TYPE.value} {RSYM[loc.strand]} {int(bool(feat.start_is_incomplete))} "
            f"{int(bool(feat.end_is_complete))} {int(bool(feat.is_pseudo))} "
            f"{cs[0] if cs else '~'} {G.enc(lt[0]) if lt else '~'} {len(bl)}"
            + "".join(f" {b.start} {b.end}" for b in bl))


def impl_tbl_op(line):
    tk = G.Toks(line.split(" "))
    op = tk.next()

    def go():
        if op == "locstr":
            cls = CLASSES[tk.next()]
            st = SYM[tk.next()]
            si, ei = tk.next() == "1", tk.next() == "1"
            bl = G.dec_blocks(tk)
            loc = (SingleInterval(bl[0][0], bl[0][1], st) if len(bl) == 1
                   else CompoundInterval([s for s, _ in bl], [e for _, e in bl], st))
            f = cls.__new__(cls)
            W.TblFeature.__init__(f, loc, si, ei, False, {})
            return "ok " + G.enc(f._location_to_str())
        if op == "quals":
            cls = CLASSES[tk.next()]
            pseudo = tk.next() == "1"
            n = tk.int()
            q = {}
            for _ in range(n):
                k = G.dec(tk.next())
                nv = tk.int()
                q[k] = [G.dec(tk.next()) for _ in range(nv)]
            f = cls.__new__(cls)
            W.TblFeature.__init__(f, SingleInterval(0, 1, Strand.PLUS), False, False, pseudo, q)
            return "ok " + G.enc(f._qualifiers_to_str())
        if op == "cdsfeat":
            table = TranslationTable(tk.int())
            strand = tk.next()
            genome = tk.next()
            k = tk.int()
            cds, frames = [], []
            for _ in range(k):
                cds.append((tk.int(), tk.int()))
                frames.append(G.FRAME_NAMES[tk.int()])
            parent = seq_to_parent(genome, seq_id="chr1")
            t = dict(ttype=G.CODING, strand=strand, exons=cds, cds=cds, frames=frames)
            tx = build_tx(t, parent, "tx")
            gene = GeneInterval([tx], gene_symbol="g", gene_type=Biotype.protein_coding,
                                parent_or_seq_chunk_parent=parent)
            gf = W.GeneTblFeature(gene, "LT_1")
            cf = W.CDSTblFeature(tx, gf, "lab", table)
            return (f"ok {cf.qualifiers['codon_start'][0]} {int(bool(cf.start_is_incomplete))} "
                    f"{int(bool(cf.end_is_complete))} {int(bool(gf.is_pseudo))} " + G.enc(cf._location_to_str()))
        if op == "tblgene":
            table = TranslationTable(tk.int())
            genome = tk.next()
            g = G.dec_gene(tk)
            parent = seq_to_parent(genome, seq_id="chr1")
            gene = build_gene(g, parent)
            tg = W.TblGene(gene, "lab", "LT_5", table)
            feats = list(tg)
            return f"ok {len(feats)} " + " ".join(skeleton(f) for f in feats)
        if op == "seed":
            tok = tk.next()
            seed = None if tok == "~" else int(tok)
            coll = build_collection(dict(seqname="chr1", genome="ACGT" * 8, genes=[dict(
                gtype=G.CODING, symbol="g", txs=[dict(ttype=G.CODING, strand="+", exons=[(2, 11)], cds=[(2, 11)],
                                                      frame=0, shift=0)])]))
            texts = []
            for salt in "ab":
                random.seed(f"{salt}{line}")          # unrelated generator state before each export
                fh = io.StringIO()
                W.collection_to_tbl([coll], fh, locus_tag_prefix="LT", submitter_lab_name="lab", random_seed=seed)
                texts.append(fh.getvalue())
            return "ok applied" if texts[0] == texts[1] else "ok ignored"
        if op == "locustags":
            prefix = G.dec(tk.next())
            step = tk.int()
            m = tk.int()
            ns = [tk.int() for _ in range(m)]
            colls = []
            for ci, n in enumerate(ns):
                genes = [dict(gtype="lncRNA", symbol=f"g{ci}.{i}",
                              txs=[dict(ttype="lncRNA", strand="+", exons=[(3 * i, 3 * i + 2)], cds=[])])
                         for i in range(n)]
                colls.append(build_collection(dict(seqname=f"s{ci}", genome="ACGT" * (n + 2), genes=genes))
                             if n else AnnotationCollection(sequence_name=f"s{ci}"))
            fh = io.StringIO()
            W.collection_to_tbl(colls, fh, locus_tag_prefix=prefix, locus_tag_jump_size=step,
                                submitter_lab_name="lab", random_seed=1)
            tags = []
            lines = fh.getvalue().split("\n")
            for i, ln in enumerate(lines):
                c = ln.split("\t")
                if len(c) == 5 and c[2] == "gene":
                    j = i + 1
                    while j < len(lines) and lines[j].startswith("\t\t\t"):
                        q = lines[j].split("\t")
                        if q[3] == "locus_tag":
                            tags.append(q[4])
                        j += 1
            return "ok " + " ".join(G.enc(t) for t in tags)
        if op == "headers":
            how = tk.next()
            m = tk.int()
            spec = [(tk.next(), tk.int()) for _ in range(m)]
            colls = []
            for ci, (nm, n) in enumerate(spec):
                genes = [dict(gtype="lncRNA", symbol=f"g{ci}.{i}",
                              txs=[dict(ttype="lncRNA", strand="+", exons=[(3 * i, 3 * i + 2)], cds=[])])
                         for i in range(n)]
                colls.append(build_collection(dict(seqname=nm, genome="ACGT" * (n + 2), genes=genes))
                             if n else AnnotationCollection(sequence_name=nm))
            arg = {"list": colls, "tuple": tuple(colls), "iter": iter(colls), "gen": (c for c in colls)}[how]
            fh = io.StringIO()
            W.collection_to_tbl(arg, fh, locus_tag_prefix="LT", submitter_lab_name="lab", random_seed=1)
            out = []
            for ln in fh.getvalue().split("\n"):
                if ln.startswith(">"):
                    out.append([ln.split(" ", 1)[1] if " " in ln else "", 0])
                else:
                    c = ln.split("\t")
                    if len(c) == 5 and c[2] == "gene":
                        if not out:
                            raise AssertionError("gene before any header")
                        out[-1][1] += 1
            return "ok " + " ".join(f"{a}:{b}" for a, b in out)
        if op == "coll":
            flavor = FLAVOR[tk.next()]
            table = TranslationTable(tk.int())
            prefix = G.dec(tk.next())
            step = tk.int()
            seed_tok = tk.next()
            seed = None if seed_tok == "~" else int(seed_tok)
            lab = G.dec(tk.next())
            seqname = G.dec(tk.next())
            genome = tk.next()
            genes = G.dec_genes(tk)
            coll = build_collection(dict(seqname=seqname, genome=genome, genes=genes))

            def once():
                fh = io.StringIO()
                W.collection_to_tbl([coll], fh, translation_table=table, locus_tag_prefix=prefix,
                                    genbank_flavor=flavor, locus_tag_jump_size=step, submitter_lab_name=lab,
                                    random_seed=seed)
                return fh.getvalue()
            # the process-wide generator is moved to an unrelated state before each export: only the `random_seed`
            # argument may make the two texts equal
            random.seed(f"a{line}")
            t1 = once()
            if seed is None:
                return "ok R~ " + G.enc(t1)
            random.seed(f"b{line}")
            t2 = once()
            return f"ok R{int(t1 == t2)} " + G.enc(t1)
        raise KeyError(op)

    return guarded(go)
