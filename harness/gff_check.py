"""C11 legs (b) (c) (d) on one generated collection: the INDEPENDENT GFF3 checker / reference decoder in Python
(a mirror of lean/BioCantor/Spec/Gff.lean, sharing no code with the library's writer or parser), the comparison
of the library's own parser with the source, and the re-export fixed point.

    run_coll(["<seed>", "<profile>", "<fasta 0|1>", "<chrom|chunk>", "<W|K|N>"])  ->  "ok clean" | "ok viol <clause>..."

Clause names (stable; findings/C11.json matches on them)
  export.<...>    the property's first sentence, checked on the text written by `collection_to_gff3`
  parse.<...>     the gene models returned by parse_standard_gff3 / parse_gff3_embedded_fasta vs the source
  reexport.<...>  export(parse(export(c))) vs export(c) (first round modulo GUID renaming, then byte-identical)
"""
import os
import random
import re
import tempfile
import warnings

from harness import gen_collections as G
from harness.common import SCRATCH

STRUCTURAL = "\t\n\r;="
HEX = "0123456789abcdefABCDEF"
UNSPECIFIED = "unspecified"
GFF3_RESERVED_KEEP_CASE = ["Alias", "Target", "Dbxref", "Gap", "Derives_from", "Note", "Ontology_term"]
RESERVED = ["ID", "Parent", "Name"]
UUID_RE = re.compile(r"[0-9a-f]{8}-[0-9a-f]{4}-[0-9a-f]{4}-[0-9a-f]{4}-[0-9a-f]{12}")

# ------------------------------------------------------------------------------------------------------
# profiles (generator parameters) — the op line names one of these

PROFILES = {
    # everything the parse leg can carry: plain identifiers, plain qualifiers
    "base": dict(qualifiers="plain", identifiers="full", biotypes="same", key_pool=["shared_key", "remark"]),
    # adversarial VALUES over the full alphabet (comma, quotes included): export clauses only
    "adv": dict(qualifiers="adv", identifiers="adv", biotypes="same"),
    # adversarial values without comma / double quote: export + parse + re-export
    "advsafe": dict(qualifiers="adv", identifiers="adv", biotypes="same", exclude_values=',"'),
    # adversarial KEYS: escaped keys must come back unescaped and re-export must be a fixed point (was F-C11d)
    "advkey": dict(qualifiers="advkey", identifiers="full", biotypes="same", exclude_values=',"'),
    # transcript biotype differing from the gene's must survive (was F-C11a)
    "biotype": dict(qualifiers="plain", identifiers="full", biotypes="differ"),
    # keys that merely START with a reserved BioCantor key must survive (was F-C11b)
    "biomix": dict(qualifiers="plain", identifiers="full", biotypes="mix"),
    "prefixkey": dict(qualifiers="plain", identifiers="full", biotypes="same",
                      key_pool=["identity", "product_source", "named_by", "idx", "parental", "gene_identity"]),
    # missing identifiers / biotypes: the parser's documented fall-backs; gene_type None must survive (was F-C11f)
    "sparse": dict(qualifiers="plain", identifiers="sparse", biotypes="same"),
    "notype": dict(qualifiers="plain", identifiers="full", biotypes="none"),
    # feature collections next to genes: export clauses only (their re-parse is not claimed)
    "fc": dict(qualifiers="adv", identifiers="full", biotypes="same", n_feature_collections=2),
    # identical transcripts under two genes (F-C11c)
    "dup": dict(qualifiers="plain", identifiers="full", biotypes="same"),
}
#: profiles on which the re-parse / re-export legs are claimed
PARSE_PROFILES = {"base", "advsafe", "advkey", "biotype", "biomix", "prefixkey", "sparse", "notype", "dup"}


def make_collection(seed, profile):
    coll = G.collection_from_seed(seed, PROFILES[profile])
    if profile == "dup":
        rng = random.Random(seed + 7)
        g0 = coll["genes"][0]
        import copy
        g1 = copy.deepcopy(g0)
        g1.update(gene_id="dupgene", gene_symbol="DUP", locus_tag="LT_dup")
        g1["transcripts"] = [copy.deepcopy(rng.choice(g0["transcripts"]))]
        coll["genes"].append(g1)
    return coll


def chunk_window(seed, coll):
    rng = random.Random(seed * 31 + 5)
    lo, hi = G.span(coll)
    return rng.randint(max(0, lo - 7), lo), rng.randint(hi, min(coll["genome_len"], hi + 7))


# ------------------------------------------------------------------------------------------------------
# independent GFF3 reading

def percent_decode(s):
    out = []
    i = 0
    while i < len(s):
        if s[i] == "%" and i + 2 < len(s) and s[i + 1] in HEX and s[i + 2] in HEX:
            out.append(chr(int(s[i + 1:i + 3], 16)))
            i += 3
        else:
            out.append(s[i])
            i += 1
    return "".join(out)


def percents_ok(s):
    i = 0
    while i < len(s):
        if s[i] == "%":
            if i + 2 >= len(s) or s[i + 1] not in HEX or s[i + 2] not in HEX:
                return False
            i += 3
        else:
            i += 1
    return True


def well_escaped(s, reserved):
    return all(c not in reserved for c in s) and percents_ok(s)


def parse_line(line):
    """-> dict or a string naming the syntax problem"""
    cols = line.split("\t")
    if len(cols) != 9:
        return f"columns={len(cols)}"
    seqid, source, typ, s, e, score, strand, phase, attrs = cols
    if not (s.isascii() and s.isdigit() and e.isascii() and e.isdigit()):
        return "start/end-not-int"
    s, e = int(s), int(e)
    if not (1 <= s <= e):
        return "start>end"
    if strand not in "+-." or len(strand) != 1:
        return "strand-symbol"
    if phase not in (".", "0", "1", "2"):
        return "phase-symbol"
    if not (seqid and source and typ and score):
        return "empty-column"
    out = []
    for piece in attrs.split(";"):
        kv = piece.split("=")
        if len(kv) != 2:
            return "attribute-not-tag=value"
        k, v = kv
        if not k or not v:
            return "attribute-empty-tag-or-value"
        vals = v.split(",")
        if not well_escaped(k, STRUCTURAL) or not all(well_escaped(x, STRUCTURAL + ",") for x in vals):
            return "attribute-escaping"
        out.append((percent_decode(k), [percent_decode(x) for x in vals]))
    return dict(seqid=seqid, source=source, type=typ, start=s, end=e, strand=strand,
                phase=None if phase == "." else int(phase), attrs=out, raw=line)


def attr_vals(row, key):
    return [v for k, vs in row["attrs"] if k == key for v in vs]


def attr1(row, key):
    v = attr_vals(row, key)
    return v[0] if len(v) == 1 else None


def canon_attrs(pairs):
    d = {}
    for k, vs in pairs:
        d.setdefault(k, []).extend(vs)
    return {k: sorted(set(v)) for k, v in d.items()}


def info(row):
    return dict(name=attr1(row, "Name"), attrs=canon_attrs([(k, v) for k, v in row["attrs"] if k not in RESERVED]))


PHASE_OF_FRAME = {"ZERO": 0, "ONE": 2, "TWO": 1}
FRAME_OF_PHASE = {0: "ZERO", 1: "TWO", 2: "ONE"}


def decode(rows, off):
    """reference decoder: rows -> genes (file order) -> transcripts (file order) -> exons / CDS (by coordinate)"""
    def blk(r):
        return (r["start"] - 1 + off, r["end"] + off)

    def kids(typ, pid):
        return [r for r in rows if r["type"] == typ and attr1(r, "Parent") == pid and pid is not None]
    genes = []
    for g in rows:
        if g["type"] != "gene" or attr_vals(g, "Parent"):
            continue
        txs = []
        for t in kids("transcript", attr1(g, "ID")):
            ex = sorted(kids("exon", attr1(t, "ID")), key=blk)
            cd = sorted(kids("CDS", attr1(t, "ID")), key=blk)
            txs.append(dict(info=info(t), strand=t["strand"], span=blk(t),
                            exons=[(blk(r), r["strand"], info(r)) for r in ex],
                            cds=[(blk(r), r["strand"], FRAME_OF_PHASE.get(r["phase"]), info(r)) for r in cd]))
        genes.append(dict(info=info(g), strand=g["strand"], span=blk(g), txs=txs))
    fcs = []
    for c in rows:
        if c["type"] != "biological_region" or attr_vals(c, "Parent"):
            continue
        feats = []
        for f in kids("feature_interval", attr1(c, "ID")):
            sub = sorted(kids("subregion", attr1(f, "ID")), key=blk)
            feats.append(dict(info=info(f), strand=f["strand"], span=blk(f), regions=[(blk(r), r["strand"], info(r)) for r in sub]))
        fcs.append(dict(info=info(c), strand=c["strand"], span=blk(c), feats=feats))
    return dict(genes=genes, fcs=fcs)


# ------------------------------------------------------------------------------------------------------
# what the source says the file must decode to

def fold_key(k):
    return k if k in GFF3_RESERVED_KEEP_CASE else k.lower()


def reads_as(v):
    return ["nan"] if v == "" else v.split(",")


def expect_attrs(pairs):
    return canon_attrs([(fold_key(k), [x for v in vs for x in reads_as(v)]) for k, vs in pairs
                        if k not in RESERVED and vs])


def opt(k, v):
    return [(k, [v])] if v else []


def qitems(q):
    return list((q or {}).items())


def gene_quals(g):
    return (qitems(g["qualifiers"]) + opt("gene_id", g["gene_id"]) + opt("gene_name", g["gene_symbol"])
            + [("gene_biotype", [g["gene_type"] or UNSPECIFIED])] + opt("locus_tag", g["locus_tag"]))


def tx_quals(g, t):
    return (qitems(t["qualifiers"]) + gene_quals(g) + opt("transcript_id", t["transcript_id"])
            + opt("transcript_name", t["transcript_symbol"])
            + [("transcript_biotype", [t["transcript_type"] or UNSPECIFIED])] + opt("protein_id", t["protein_id"]))


def cds_quals(g, t):
    return tx_quals(g, t) + opt("protein_id", t["protein_id"]) + opt("product", t["product"])


def name_reads(v):
    return None if v is None else ("nan" if v == "" else v)


def in_frame(starts, ends, strand, frames):
    bl = list(zip(starts, ends))
    return frames == G.frames_for(bl, strand, G.FRAME_NAMES.index(frames[0] if strand == "PLUS" else frames[-1]))


def expected(coll):
    genes = []
    for g in coll["genes"]:
        txs = []
        for t in sorted(g["transcripts"], key=lambda t: t["exon_starts"][0]):
            ex = list(zip(t["exon_starts"], t["exon_ends"]))
            tq = expect_attrs(tx_quals(g, t))
            ti = dict(name=name_reads(t["transcript_symbol"]), attrs=tq)
            cds = []
            if t["cds_starts"]:
                ci = dict(name=name_reads(t["protein_id"]), attrs=expect_attrs(cds_quals(g, t)))
                cds = [((s, e), G_SYM[t["strand"]], f, ci)
                       for s, e, f in zip(t["cds_starts"], t["cds_ends"], t["cds_frames"])]
            txs.append(dict(info=ti, strand=G_SYM[t["strand"]], span=(ex[0][0], ex[-1][1]),
                            exons=[(b, G_SYM[t["strand"]], ti) for b in ex], cds=cds))
        genes.append(dict(info=dict(name=name_reads(g["gene_symbol"]), attrs=expect_attrs(gene_quals(g))), strand="+",
                          span=(min(t["exon_starts"][0] for t in g["transcripts"]),
                                max(t["exon_ends"][-1] for t in g["transcripts"])), txs=txs))
    fcs = []
    for c in coll["feature_collections"]:
        types = sorted({x for f in c["feature_intervals"] for x in (f["feature_types"] or [])})
        cq = [(k, v) for k, v in qitems(c["qualifiers"]) if not (types and k == "feature_type")]
        cq += (opt("feature_collection_id", c["feature_collection_id"])
               + opt("feature_collection_name", c["feature_collection_name"]) + opt("locus_tag", c["locus_tag"])
               + opt("feature_collection_type", c["feature_collection_type"])
               + ([("feature_type", types)] if types else []))
        feats = []
        for f in sorted(c["feature_intervals"], key=lambda f: f["interval_starts"][0]):
            ft = f["feature_types"] or []
            fq = [(k, v) for k, v in qitems(f["qualifiers"]) + cq if not (ft and k == "feature_type")]
            fq += opt("feature_name", f["feature_name"]) + opt("feature_id", f["feature_id"]) + \
                ([("feature_type", ft)] if ft else [])
            fi = dict(name=name_reads(f["feature_name"]), attrs=expect_attrs(fq))
            bl = list(zip(f["interval_starts"], f["interval_ends"]))
            feats.append(dict(info=fi, strand=G_SYM[f["strand"]], span=(bl[0][0], bl[-1][1]),
                              regions=[(b, G_SYM[f["strand"]], fi) for b in bl]))
        fcs.append(dict(info=dict(name=name_reads(c["feature_collection_name"]), attrs=expect_attrs(cq)), strand="+",
                        span=(min(f["interval_starts"][0] for f in c["feature_intervals"]),
                              max(f["interval_ends"][-1] for f in c["feature_intervals"])), feats=feats))
    start = lambda x: x["span"][0]  # noqa: E731
    return dict(genes=sorted(genes, key=start), fcs=sorted(fcs, key=start))


G_SYM = {"PLUS": "+", "MINUS": "-", "UNSTRANDED": "."}


def first_diff(a, b, path=""):
    """a short description of where two nested structures differ"""
    if type(a) != type(b):
        return f"{path}:type"
    if isinstance(a, dict):
        for k in sorted(set(a) | set(b), key=str):
            if k not in a or k not in b:
                return f"{path}.{k}:missing"
            d = first_diff(a[k], b[k], f"{path}.{k}")
            if d:
                return d
        return None
    if isinstance(a, (list, tuple)):
        if len(a) != len(b):
            return f"{path}:len"
        for i, (x, y) in enumerate(zip(a, b)):
            d = first_diff(x, y, f"{path}[{i}]")
            if d:
                return d
        return None
    return None if a == b else f"{path}:value"


def clause(s):
    """clause names are single tokens"""
    return re.sub(r"[^A-Za-z0-9_.:\-\[\]<>=/]", "_", s)


# ------------------------------------------------------------------------------------------------------
# (b) the exported text

def split_text(text, fasta):
    """-> (headers, feature lines, fasta lines) or a clause string"""
    lines = text.split("\n")
    if lines[-1] != "":
        return "export.no-final-newline"
    lines = lines[:-1]
    if not lines or lines[0] != "##gff-version 3":
        return "export.header"
    i = 1
    headers = []
    while i < len(lines) and lines[i].startswith("##") and lines[i] != "##FASTA":
        headers.append(lines[i])
        i += 1
    feats = []
    while i < len(lines) and lines[i] != "##FASTA":
        feats.append(lines[i])
        i += 1
    fa = lines[i + 1:] if i < len(lines) else None
    if fasta and fa is None:
        return "export.fasta-section-missing"
    if not fasta and fa is not None:
        return "export.unexpected-fasta-section"
    return headers, feats, fa


def check_export(text, coll, off, fasta, seq, chunk_id=None):
    """violated clauses of the property's first sentence"""
    viol = []
    sp = split_text(text, fasta)
    if isinstance(sp, str):
        return [sp], None
    headers, feats, fa = sp
    name = coll["sequence_name"]
    if fasta:
        if headers != [f"##sequence-region {name} 1 {len(seq)}"]:
            viol.append("export.sequence-region-header")
        body = [x for x in fa if x != ""]
        if body and body[0] != ">" + name and chunk_id is not None and body[0] == ">" + chunk_id:
            viol.append("export.fasta-header:chunk-id-instead-of-seqid")      # diagnosis only (regression of 5f9d162)
        if not body or body[0] != ">" + name or "".join(body[1:]) != seq or any(x.startswith(">") for x in body[1:]):
            viol.append("export.fasta-section")
    elif headers:
        viol.append("export.unexpected-header")
    rows = []
    for ln in feats:
        r = parse_line(ln)
        if isinstance(r, str):
            viol.append(clause("export.line-syntax:" + r))
            return sorted(set(viol)), None
        rows.append(r)
    if any(r["seqid"] != name or r["source"] != "BioCantor" for r in rows):
        viol.append("export.seqid/source")
    if any((r["type"] == "CDS") != (r["phase"] is not None) for r in rows):
        viol.append("export.phase-only-on-CDS")
    for r in rows:
        keys = [k for k, _ in r["attrs"]]
        if keys.count("ID") != 1 or keys.count("Parent") > 1 or keys.count("Name") > 1 or keys[0] != "ID" \
                or any(len(v) != 1 for k, v in r["attrs"] if k in RESERVED):
            viol.append("export.reserved-attributes")
            break
    ids = [attr1(r, "ID") for r in rows]
    if len(set(ids)) != len(ids):
        viol.append("export.unique-ids")
    seen = set()
    for r in rows:
        if any(p not in seen for p in attr_vals(r, "Parent")):
            viol.append("export.parent-earlier")
            break
        seen.add(attr1(r, "ID"))
    if any(a["start"] > b["start"] for a, b in zip(rows, rows[1:])):
        viol.append("export.ordered-by-start")
    if "export.unique-ids" not in viol:
        d = first_diff(decode(rows, off), expected(coll))
        if d:
            viol.append(clause("export.decode=source:" + re.sub(r"\[\d+\]", "[]", d)))
    return sorted(set(viol)), rows


# ------------------------------------------------------------------------------------------------------
# (c) the library's parser on the exported text

def normalise_source(coll, off, parse_quals=True):
    """the gene models the parser must return: the documented fall-backs of `default_parse_func` applied to the
    source (missing transcript id / symbol -> locus tag; missing biotype -> the gene's; is_primary_tx False;
    children inherit the gene's qualifiers; qualifier keys lower-cased, values sorted; coordinates shifted by the
    chunk offset in chunk-relative exports)"""
    out = []
    for g in coll["genes"]:
        gq = expect_attrs(qitems(g["qualifiers"]))
        txs = []
        for t in sorted(g["transcripts"], key=lambda t: t["exon_starts"][0]):
            tq = dict(gq)
            for k, v in expect_attrs(qitems(t["qualifiers"])).items():
                tq[k] = sorted(set(tq.get(k, []) + v))
            txs.append(dict(
                exon_starts=[s - off for s in t["exon_starts"]], exon_ends=[e - off for e in t["exon_ends"]],
                strand=t["strand"],
                cds_starts=[s - off for s in t["cds_starts"]] if t["cds_starts"] else None,
                cds_ends=[e - off for e in t["cds_ends"]] if t["cds_starts"] else None,
                cds_frames=list(t["cds_frames"]) if t["cds_starts"] else None,
                transcript_id=t["transcript_id"] or g["locus_tag"],
                transcript_symbol=t["transcript_symbol"] or g["locus_tag"],
                transcript_type=t["transcript_type"] or g["gene_type"],
                protein_id=(t["protein_id"] or None) if t["cds_starts"] else None,
                product=(t["product"] or None) if t["cds_starts"] else None,
                qualifiers=tq or None, is_primary_tx=False))
        out.append(dict(gene_id=g["gene_id"] or "<ID>", gene_symbol=g["gene_symbol"] or None,
                        gene_type=g["gene_type"], locus_tag=g["locus_tag"] or None, qualifiers=gq or None,
                        transcripts=txs))
    return sorted(out, key=lambda g: min(t["exon_starts"][0] for t in g["transcripts"]))


TX_FIELDS = ["exon_starts", "exon_ends", "strand", "cds_starts", "cds_ends", "cds_frames", "transcript_id",
             "transcript_symbol", "transcript_type", "protein_id", "product", "qualifiers", "is_primary_tx"]
GENE_FIELDS = ["gene_id", "gene_symbol", "gene_type", "locus_tag", "qualifiers"]


def compare_parsed(parsed_dict, want, src_coll):
    """clauses `parse.<field>[:<diagnosis>]`"""
    def tkey(t):
        return (list(t["exon_starts"]), list(t["exon_ends"]), t["strand"], list(t["cds_starts"] or []),
                t.get("transcript_id") or "")

    def gkey(g):
        return sorted(tkey(t) for t in g["transcripts"])

    def gene_diff(gg, wg):
        viol = []
        for f in GENE_FIELDS:
            a, b = gg.get(f), wg[f]
            if f == "gene_id" and b == "<ID>":
                if not (isinstance(a, str) and UUID_RE.fullmatch(a)):
                    viol.append("parse.gene_id:fallback-not-ID")
                continue
            if f == "qualifiers":
                viol += diff_quals("gene", a, b)
            elif a != b:
                viol.append(f"parse.{f}")
        if len(gg["transcripts"]) != len(wg["transcripts"]):
            return viol + ["parse.transcript-count"]
        return viol + _best_pairing(sorted(gg["transcripts"], key=tkey), sorted(wg["transcripts"], key=tkey), tkey,
                                    lambda a, b: _tx_diff(a, b, wg["gene_type"]))
    got = sorted(parsed_dict["genes"], key=gkey)
    want = sorted(want, key=gkey)
    if len(got) != len(want):
        return [f"parse.gene-count:{len(got)}!={len(want)}"]
    return sorted(set(_best_pairing(got, want, gkey, gene_diff)))


def _tx_diff(a, b, gene_type):
    out = []
    for f in TX_FIELDS:
        x, y = a.get(f), b[f]
        if isinstance(x, tuple):
            x = list(x)
        if f == "qualifiers":
            out += diff_quals("transcript", x, y)
        elif x != y:
            if f == "transcript_type" and x == gene_type:
                out.append("parse.transcript_type:gene-biotype-returned")
            else:
                out.append(f"parse.{f}")
    return out


def _best_pairing(got, want, key, diff):
    """Items are paired by `key` (coordinates + id); items that agree on the whole key (possible when identifiers
    are missing) are paired the way that explains most: the parser does not promise an order among them."""
    import itertools
    out = []
    i = 0
    while i < len(want):
        j = i
        while j < len(want) and key(want[j]) == key(want[i]):
            j += 1
        gw, gg = want[i:j], got[i:j]
        if len(gw) == 1 or len(gw) > 5:
            cand = [sum((diff(a, b) for a, b in zip(gg, gw)), [])]
        else:
            cand = [sum((diff(a, b) for a, b in zip(perm, gw)), []) for perm in itertools.permutations(gg)]
        out += min(cand, key=lambda v: (len(set(v)), sorted(set(v))))
        i = j
    return out


BIOCANTOR_KEYS = ["transcript_id", "transcript_name", "transcript_biotype", "transcript_type", "protein_id",
                  "product", "gene_id", "gene_name", "gene_symbol", "gene_biotype", "gene_type", "feature_id",
                  "feature_name", "feature_symbol", "feature_collection_name", "feature_collection_id",
                  "feature_collection_type", "feature_colletion_type", "feature_type", "locus_tag", "name", "parent",
                  "id", "Name", "Parent", "ID"]


def escape_ref(s):
    """what a (folded) key looks like when its GFF3 escapes are NOT undone (diagnosis of F-C11d only)"""
    return "".join(("%%%02X" % ord(c)) if c in "\t;=\n\r> %" else c for c in s).lower()


def diff_quals(kind, got, want):
    got = {k: sorted(v) for k, v in (got or {}).items()}
    want = dict(want or {})
    # identifiers travel as their own fields, never as qualifiers
    want = {k: v for k, v in want.items() if k not in BIOCANTOR_KEYS}
    out = []
    for k in sorted(set(got) | set(want)):
        if k in got and k in want:
            if got[k] != want[k]:
                out.append(f"parse.{kind}.qualifier-values")
        elif k in want:
            if any(k.startswith(p) for p in BIOCANTOR_KEYS):
                out.append(f"parse.{kind}.qualifier-dropped:reserved-prefix")
            elif escape_ref(k) in got and got[escape_ref(k)] == want[k]:
                out.append(f"parse.{kind}.qualifier-key-still-escaped")
            else:
                out.append(f"parse.{kind}.qualifier-missing")
        else:
            if any(escape_ref(w) == k for w in want):
                continue   # reported from the `want` side
            out.append(f"parse.{kind}.qualifier-extra" + (":" + k if k.startswith("provided_") else ""))
    return out


def mask_guids(text):
    return UUID_RE.sub("<guid>", text)


def _sorted_attrs(line):
    """column 9 with the non-reserved attributes in sorted order: the writer sorts by the key BEFORE it lower-cases
    it, so the documented case folding may move an attribute within the column on the first round"""
    c = line.split("\t")
    if len(c) != 9:
        return line
    pieces = c[8].split(";")
    head = [x for x in pieces if x.split("=")[0] in RESERVED]
    c[8] = ";".join(head + sorted(x for x in pieces if x.split("=")[0] not in RESERVED))
    return "\t".join(c)


def canon_text(text, mask):
    """The file up to (a) the order of feature lines with EQUAL start — the writer orders by start only; the order
    of ties is the traversal order of the collection's children, which neither GFF3 nor the parser defines — and
    (b), when `mask`, the GUID-derived IDs.  With `mask` every line carries the masked line of its Parent row, so
    the Parent wiring is still compared."""
    lines = text.split("\n")
    feats = [(i, l) for i, l in enumerate(lines) if l.count("\t") == 8 and not l.startswith("#")]
    if not feats:
        return lines
    lo, hi = feats[0][0], feats[-1][0]
    by_id = {}
    for _, l in feats:
        m = re.match(r"ID=([^;]*)", l.split("\t")[8])
        if m:
            by_id[m.group(1)] = l
    keyed = []
    for _, l in feats:
        c = l.split("\t")
        if mask:
            m = re.search(r"(?:^|;)Parent=([^;]*)", c[8])
            par = _sorted_attrs(mask_guids(by_id.get(m.group(1), "?"))) if m else ""
            l = _sorted_attrs(mask_guids(l)) + " <- " + par
        keyed.append((int(c[3]) if c[3].isdigit() else -1, l))
    keyed.sort()
    return lines[:lo] + [l for _, l in keyed] + lines[hi + 1:]


def export(collections, fasta, chrom_rel):
    from harness.impl_gff import export_text
    return export_text(collections, fasta, chrom_rel)


def parse_text(text, fasta):
    """real parser on the text -> list of (annotation dict, AnnotationCollection)"""
    from inscripta.biocantor.io.gff3.parser import parse_standard_gff3, parse_gff3_embedded_fasta
    d = os.path.join(SCRATCH, "c11-tmp")
    os.makedirs(d, exist_ok=True)
    fd, path = tempfile.mkstemp(suffix=".gff3", dir=d)
    try:
        with os.fdopen(fd, "w", newline="") as fh:
            fh.write(text)
        with warnings.catch_warnings():
            warnings.simplefilter("ignore")
            recs = list(parse_gff3_embedded_fasta(path) if fasta else parse_standard_gff3(path))
            return [(r, r.to_annotation_collection()) for r in recs]
    finally:
        os.unlink(path)


def run_coll(args):
    seed, profile, fasta, mode, par = int(args[0]), args[1], args[2] == "1", args[3], args[4]
    coll = make_collection(seed, profile)
    chunk = chunk_window(seed, coll) if par == "K" else None
    kind = {"N": "none", "W": "chrom", "K": "chunk"}[par]
    parent = G.make_parent(kind, coll["sequence_name"], coll["genome_len"], chunk)
    ac = G.build(coll, parent)
    chrom_rel = mode == "chrom"
    before = repr(ac.to_dict())
    text = export([ac], fasta, chrom_rel)          # documented refusals propagate as `err <Class>`
    mutated = repr(ac.to_dict()) != before         # operands unchanged by the export (regression of F-C10b)
    off = chunk[0] if (chunk and not chrom_rel) else 0
    seq = None
    if fasta:
        seq = G.genome(max(coll["genome_len"], chunk[1] if chunk else 0))
        seq = seq[chunk[0]:chunk[1]] if chunk else seq[:coll["genome_len"]]
    if not chrom_rel and any(t["cds_starts"] and not in_frame(t["cds_starts"], t["cds_ends"], t["strand"], t["cds_frames"])
                             for g in coll["genes"] for t in g["transcripts"]):
        # chunk-relative export documents the loss of programmed frameshifts (cds.py:121-134): not claimed
        return "ok clean n/a-frameshift-in-chunk-mode"
    chunk_id = f"{coll['sequence_name']}:{chunk[0]}-{chunk[1]}" if chunk else None
    viol, rows = check_export(text, coll, off, fasta, seq, chunk_id)
    if mutated:
        viol.append("export.mutates-source-qualifiers")
    if profile in PARSE_PROFILES and rows is not None:
        viol += parse_legs(text, coll, off, fasta, seq, chrom_rel, [str(g.guid) for g in ac.genes])
    viol = sorted(set(viol))
    return "ok clean" if not viol else "ok viol " + " ".join(viol)


def parse_legs(text, coll, off, fasta, seq, chrom_rel, gene_ids):
    viol = []
    try:
        recs = parse_text(text, fasta)
    except Exception as e:  # noqa
        return [clause(f"parse.raised:{type(e).__name__}")]
    if len(recs) != 1:
        return [f"parse.record-count:{len(recs)}"]
    rec, ac2 = recs[0]
    if rec.annotation.sequence_name != coll["sequence_name"]:
        viol.append("parse.sequence_name")
    if fasta:
        if rec.seqrecord is None or str(rec.seqrecord.seq) != seq or ac2.sequence is None or str(ac2.sequence) != seq:
            viol.append("parse.sequence-not-attached")
    elif rec.seqrecord is not None:
        viol.append("parse.unexpected-sequence")
    viol += compare_parsed(ac2.to_dict(), normalise_source(coll, off), coll)
    if viol:
        # (d) presupposes (c): a re-export of wrongly parsed models differs as a CONSEQUENCE; it is not reported as a
        # second violation
        return viol
    # (d) re-export.  First round: equal to the export of the normalised source (= the file itself whenever every
    # identifier is present) up to the GUID-derived IDs; from then on byte-identical (up to the order of ties).
    try:
        text2 = export([ac2], fasta, True)
    except Exception as e:  # noqa
        return viol + [clause(f"reexport.raised:{type(e).__name__}")]
    ref = text
    if needs_normalisation(coll):
        nparent = None
        if fasta:
            from inscripta.biocantor.io.parser import seq_to_parent
            nparent = seq_to_parent(seq, seq_id=coll["sequence_name"])
        ref = export([G.build(normalised_collection(coll, off, gene_ids), nparent)], fasta, True)
    c1, c2 = canon_text(ref, True), canon_text(text2, True)
    if c1 != c2:
        viol.append(clause("reexport.round1:" + diff_texts(c1, c2)))
    try:
        recs3 = parse_text(text2, fasta)
        text3 = export([recs3[0][1]], fasta, True)
    except Exception as e:  # noqa
        return viol + [clause(f"reexport.round2-raised:{type(e).__name__}")]
    c2, c3 = canon_text(text2, False), canon_text(text3, False)
    if c2 != c3:
        viol.append(clause("reexport.round2:" + diff_texts(c2, c3)))
    return viol


def needs_normalisation(coll):
    return any(not g["gene_id"] or any(not t["transcript_id"] or not t["transcript_symbol"] or not t["transcript_type"]
                                       for t in g["transcripts"]) for g in coll["genes"])


def normalised_collection(coll, off, gene_ids):
    """the source with the parser's documented fall-backs applied, as a plain collection in the coordinates of the
    exported file (`gene_ids`: the ID column of each gene row of the first export, by gene index)"""
    import copy
    c = copy.deepcopy(coll)
    for i, g in enumerate(c["genes"]):
        g["gene_id"] = g["gene_id"] or gene_ids[i]
        for t in g["transcripts"]:
            t["transcript_id"] = t["transcript_id"] or g["locus_tag"]
            t["transcript_symbol"] = t["transcript_symbol"] or g["locus_tag"]
            t["transcript_type"] = t["transcript_type"] or g["gene_type"]
            for k in ("exon_starts", "exon_ends", "cds_starts", "cds_ends"):
                if t[k]:
                    t[k] = [x - off for x in t[k]]
    return c


def diff_texts(la, lb):
    """which kind of difference: line count, coordinates/columns, or the attribute keys that differ"""
    la = [x.split(" <- ")[0] for x in la]
    lb = [x.split(" <- ")[0] for x in lb]
    if len(la) != len(lb):
        return "line-count"
    keys = set()
    for x, y in zip(la, lb):
        if x == y:
            continue
        cx, cy = x.split("\t"), y.split("\t")
        if len(cx) != 9 or len(cy) != 9:
            return "non-feature-line"
        if x.split(" <- ")[0] == y.split(" <- ")[0]:
            return "parent-wiring"
        if cx[:8] != cy[:8]:
            return "columns"
        ax = dict(p.split("=", 1) for p in cx[8].split(";") if "=" in p)
        ay = dict(p.split("=", 1) for p in cy[8].split(";") if "=" in p)
        for k in set(ax) | set(ay):
            if ax.get(k) != ay.get(k):
                keys.add(k if UUID_RE.search(k) is None else "<key-with-guid>")
    return "attrs:" + ",".join(sorted(keys))
