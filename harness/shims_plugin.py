"""pytest plugin: install the third-party shims before collection, so the tests/minimal/gene and tests/io modules
(which fail to import in this sandbox) can be collected.  Used only to VALIDATE candidate `fix:` patches against the
upstream tests that the pinned baseline cannot run:  tools/run_shimmed_suite.py [repo]"""
from harness import shims
shims.install()
