"""C17 generator: annotation collections WITH sequence as plain data, the op-line codec, and a small Python
reference (used ONLY for counting the input distribution — verdicts come from the Lean spec driver).

(`harness/gen_collections.py` is not reused for the collections: C17 needs control over the chromosome letters
under every CDS — start codon class per table, stop / non-stop last codon, in-frame stops, end in/out of frame —
which that generator does not give; the block-layout idea and the frame convention are the same.)

Plain data
----------
collection = dict(seqname, genome (str, ACGT), genes=[gene])
gene       = dict(gtype (Biotype NAME or None), symbol (str or None), txs=[tx])
tx         = dict(ttype (Biotype NAME or None), strand "+"/"-", exons=[(s,e)], cds=[(s,e)] (may be empty = non
             coding), frame (start frame 0/1/2), shift (index >= 1, in 5'->3' order, of a CDS block whose frame is
             advanced by one = programmed frameshift in the frame vector; 0 = none))
Coordinates are 0-based half-open; block lists ascending, non-empty blocks, non-overlapping, 0-bp gaps on purpose.

Op-line text encoding (`enc` / `dec`): backslash escapes for backslash, tab, LF, CR, space; "\\e" = empty string;
"~" = None.
"""

FRAME_NAMES = ["ZERO", "ONE", "TWO"]
CODING = "protein_coding"
NONCODING = ["lncRNA", "ncRNA", "tRNA", "rRNA", "miRNA", "snoRNA", "misc_RNA", "pseudogene", "snRNA"]

STARTS = {0: ["ATG"], 1: ["ATG", "CTG", "TTG"], 11: ["ATG", "TTG", "CTG", "ATT", "ATC", "ATA", "GTG"]}
STOPS = ["TAA", "TAG", "TGA"]
COMP = {"A": "T", "C": "G", "G": "C", "T": "A", "a": "t", "c": "g", "g": "c", "t": "a"}


# ------------------------------------------------------------------------------------------------------
# text codec

def enc(s):
    if s is None:
        return "~"
    if s == "":
        return "\\e"
    return (s.replace("\\", "\\\\").replace("\t", "\\t").replace("\n", "\\n").replace("\r", "\\r")
            .replace(" ", "\\s").replace("~", "\\-"))


def dec(t):
    if t == "~":
        return None
    if t == "\\e":
        return ""
    out, i = [], 0
    while i < len(t):
        c = t[i]
        if c == "\\":
            n = t[i + 1]
            out.append({"\\": "\\", "t": "\t", "n": "\n", "r": "\r", "s": " ", "-": "~"}[n])
            i += 2
        else:
            out.append(c)
            i += 1
    return "".join(out)


# ------------------------------------------------------------------------------------------------------
# layouts

def gen_blocks(rng, lo, hi, max_blocks=4, p_adjacent=0.35):
    """ascending non-empty non-overlapping blocks inside [lo, hi); adjacent blocks (0-bp gap) with prob."""
    span = hi - lo
    k = max(1, min(rng.randint(1, max_blocks), span // 2))
    if span + 1 < 2 * k:
        pts = [lo, hi]
    elif rng.random() < 0.8 and span - 1 >= 2 * k - 2:
        pts = [lo] + sorted(rng.sample(range(lo + 1, hi), 2 * k - 2)) + [hi]     # the layout spans the whole range
    else:
        pts = sorted(rng.sample(range(lo, hi + 1), 2 * k))
    out = []
    for i in range(len(pts) // 2):
        s, e = pts[2 * i], pts[2 * i + 1]
        if out and rng.random() < p_adjacent:
            s = out[-1][1]
        if s < e:
            out.append((s, e))
    return out or [(lo, hi)]


def split_blocks(rng, blocks, n):
    """cut up to `n` blocks of length >= 2 at an interior point: the two halves are adjacent (0-bp gap)"""
    out = list(blocks)
    for _ in range(n):
        idx = [i for i, (s, e) in enumerate(out) if e - s >= 2]
        if not idx:
            break
        i = rng.choice(idx)
        s, e = out[i]
        m = rng.randint(s + 1, e - 1)
        out[i:i + 1] = [(s, m), (m, e)]
    return out


def clip(blocks, a, b):
    return [(max(s, a), min(e, b)) for s, e in blocks if max(s, a) < min(e, b)]


def frames_for(blocks, strand, start_frame=0, shift_at=0):
    """CDSFrame names per block in ascending block order (what the constructor takes) of ONE uninterrupted reading
    frame that starts `start_frame` bases into the CDS: the 5'-most block carries `start_frame`; a later block (going
    5'->3') that begins `n` CDS bases downstream carries (n - start_frame) mod 3 — or, while n < start_frame (5'
    blocks shorter than the offset), the part of the offset still to be skipped, start_frame - n.
    `shift_at` >= 1 advances the frame of that block (5'->3' index) by one: a frame vector with a programmed
    frameshift (the writer merges CDS blocks and regenerates the frames, so it must not matter)."""
    order = list(range(len(blocks)))
    if strand == "-":
        order.reverse()
    frames = [None] * len(blocks)
    n = 0
    for j, i in enumerate(order):
        if j == 0:
            v = start_frame
        else:
            v = (start_frame - n) if n < start_frame else (n - start_frame) % 3
            if shift_at and j == shift_at:
                v = (v + 1) % 3
        frames[i] = FRAME_NAMES[v]
        n += blocks[i][1] - blocks[i][0]
    return frames


def positions(blocks, strand):
    """chromosome positions 5'->3'"""
    ps = [p for s, e in blocks for p in range(s, e)]
    return ps[::-1] if strand == "-" else ps


# ------------------------------------------------------------------------------------------------------
# reference (distribution counting only)

def letters(genome, blocks, strand):
    ps = positions(blocks, strand)
    if strand == "-":
        return "".join(COMP[genome[p]] for p in ps).upper()
    return "".join(genome[p] for p in ps).upper()


def ref_cds(genome, tx, table):
    """(start_partial, end_partial, in_frame_stop, ncodons) of a coding tx, by the rule of the property"""
    s = letters(genome, tx["cds"], tx["strand"])
    f = tx["frame"]
    body = s[f:]
    cods = [body[i:i + 3] for i in range(0, len(body) - len(body) % 3, 3)]
    if not cods:
        return None
    sp = cods[0] not in STARTS[table]
    ep = not (len(s) >= f and (len(s) - f) % 3 == 0 and cods[-1] in STOPS)
    ifs = any(c in STOPS for c in cods[:-1])
    return sp, ep, ifs, len(cods)


def merged(blocks):
    out = []
    for s, e in blocks:
        if out and out[-1][1] == s:
            out[-1] = (out[-1][0], e)
        else:
            out.append((s, e))
    return out


# ------------------------------------------------------------------------------------------------------
# painting the chromosome under a CDS

NONSTOP_FILL = ["AAA", "GCT", "CCC", "GGA", "TTT", "CAT", "ACG", "TGG", "TAC", "ATG", "CTG"]
FIRST_CODONS = ["ATG", "ATG", "ATG", "CTG", "TTG", "GTG", "ATA", "ATC", "ATT", "AAA", "GCC", "TAA"]
LAST_CODONS = ["TAA", "TAG", "TGA", "TAA", "TGG", "AAA", "TAC"]


def paint(rng, genome, tx, want_ifs):
    """write a designed reading frame under the CDS of `tx` (list of chars, in place)"""
    ps = positions(tx["cds"], tx["strand"])
    body = ps[tx["frame"]:]
    n = len(body) // 3
    if n == 0:
        return
    cods = [rng.choice(NONSTOP_FILL) for _ in range(n)]
    cods[0] = rng.choice(FIRST_CODONS)
    if n > 1:
        cods[-1] = rng.choice(LAST_CODONS)
    if want_ifs and n > 2:
        cods[rng.randrange(1, n - 1)] = rng.choice(STOPS)
    s = "".join(cods)
    lower = rng.random() < 0.1           # the library upper-cases codons: lower-case chromosomes must not matter
    for p, c in zip(body, s):
        c = COMP[c] if tx["strand"] == "-" else c
        genome[p] = c.lower() if lower else c


# ------------------------------------------------------------------------------------------------------
# collections

def gen_tx(rng, lo, hi, strand, coding, p):
    exons = gen_blocks(rng, lo, hi, p.get("max_exons", 4), p.get("p_adjacent", 0.35))
    tx = dict(ttype=None, strand=strand, exons=exons, cds=[], frame=0, shift=0)
    if coding:
        lo5, hi3 = exons[0][0], exons[-1][1]
        frame = rng.choice([0, 0, 0, 1, 2])
        cds = []
        for _attempt in range(6):
            r = rng.random()
            if r < 0.35:
                a, b = lo5, hi3
            else:
                a = rng.randint(lo5, hi3 - 1)
                b = rng.randint(a + 1, hi3)
            cds = clip(exons, a, b)
            # mostly CDSs that hold at least two codons; a few (4%) are kept whatever their size
            if sum(e - s for s, e in cds) >= 6 + frame or rng.random() < 0.04:
                break
        if cds:
            # CDS block structure that DIFFERS from the exon structure: extra block boundaries inside an exon
            # (adjacent, 0-bp-gap CDS blocks = frameshift-style annotation); `split_cds` = probability per transcript
            if rng.random() < p.get("split_cds", 0.3):
                cds = split_blocks(rng, cds, rng.randint(1, 2))
            tx["cds"] = cds
            tx["frame"] = frame
            if len(cds) > 1 and rng.random() < p.get("p_frameshift", 0.12):
                tx["shift"] = rng.randrange(1, len(cds))
    return tx


def gen_gene(rng, idx, lo, hi, genome, p):
    kind = rng.random()
    coding = kind < p.get("p_coding", 0.65)
    mixed = p.get("allow_mixed", False) and rng.random() < 0.5
    strand = rng.choice("+-")
    ntx = rng.randint(1, p.get("max_tx", 3))
    txs = []
    seen = set()
    for j in range(ntx):
        third = (hi - lo) // 3
        a = rng.randint(lo, lo + third)
        b = rng.randint(hi - third, hi)
        st = strand
        if p.get("mixed_strands", 0.08) > rng.random():
            st = "+" if strand == "-" else "-"
        c = coding and not (mixed and j == ntx - 1 and ntx > 1)
        tx = gen_tx(rng, a, b, st, c, p)
        key = (tuple(tx["exons"]), tuple(tx["cds"]), tx["strand"], tx["frame"], tx["shift"])
        if key in seen:      # content-identical isoforms are refused by GeneInterval (DuplicateTranscriptError)
            continue
        seen.add(key)
        txs.append(tx)
    any_coding = any(t["cds"] for t in txs)
    gtype = CODING if any_coding else rng.choice(NONCODING)
    for t in txs:
        if t["cds"]:
            paint(rng, genome, t, rng.random() < p.get("p_ifs", 0.3))
        mode = p.get("ttypes", "same")
        if mode == "same":
            t["ttype"] = gtype
        elif mode == "own":
            t["ttype"] = CODING if t["cds"] else rng.choice(NONCODING)
        else:
            t["ttype"] = None
    sym = rng.choice([f"SYM{idx}", f"g{idx}", None]) if p.get("symbols", True) else f"SYM{idx}"
    return dict(gtype=gtype if not p.get("gtype_none") else None, symbol=sym, txs=txs)


def gen_collection(rng, p=None):
    """p: genome_len, n_genes, max_tx, max_exons, p_coding, p_adjacent, p_frameshift, p_ifs, mixed_strands,
    allow_mixed (mixed coding/non-coding genes), ttypes same|own|none, offset (coordinates start at >= offset)"""
    p = dict(p or {})
    L = p.get("genome_len", 120)
    off = p.get("offset", 0)
    genome = [rng.choice("ACGT") for _ in range(L)]
    ng = p.get("n_genes") or rng.randint(1, 3)
    genes = []
    for i in range(ng):
        span = p.get("gene_span", 70)
        least = min(L - off, max(24, span // 3))
        a = rng.randint(off, L - least)
        b = rng.randint(a + least, min(L, a + span))
        genes.append(gen_gene(rng, i, a, b, genome, p))
    return dict(seqname=p.get("seqname", "chr1"), genome="".join(genome), genes=genes)


# ------------------------------------------------------------------------------------------------------
# op-line codec for collections / genes

def enc_blocks(bl):
    return f"{len(bl)}" + "".join(f" {s} {e}" for s, e in bl)


def enc_tx(t):
    s = f"{enc(t['ttype'])} {t['strand']} {enc_blocks(t['exons'])} {enc_blocks(t['cds'])}"
    if t["cds"]:
        s += f" {t['frame']} {t['shift']}"
    return s


def enc_gene(g):
    return f"{enc(g['gtype'])} {enc(g['symbol'])} {len(g['txs'])} " + " ".join(enc_tx(t) for t in g["txs"])


def enc_genes(genes):
    return f"{len(genes)} " + " ".join(enc_gene(g) for g in genes) if genes else "0"


class Toks:
    def __init__(self, toks):
        self.t, self.i = toks, 0

    def next(self):
        v = self.t[self.i]
        self.i += 1
        return v

    def int(self):
        return int(self.next())

    def done(self):
        return self.i >= len(self.t)


def dec_blocks(tk):
    k = tk.int()
    return [(tk.int(), tk.int()) for _ in range(k)]


def dec_tx(tk):
    ttype = dec(tk.next())
    strand = tk.next()
    exons = dec_blocks(tk)
    cds = dec_blocks(tk)
    frame = shift = 0
    if cds:
        frame, shift = tk.int(), tk.int()
    return dict(ttype=ttype, strand=strand, exons=exons, cds=cds, frame=frame, shift=shift)


def dec_gene(tk):
    gtype = dec(tk.next())
    sym = dec(tk.next())
    n = tk.int()
    return dict(gtype=gtype, symbol=sym, txs=[dec_tx(tk) for _ in range(n)])


def dec_genes(tk):
    n = tk.int()
    return [dec_gene(tk) for _ in range(n)]


def coll_line(flavor, table, prefix, step, seed, lab, coll):
    return (f"coll {flavor} {table} {enc(prefix)} {step} {'~' if seed is None else seed} {enc(lab)} "
            f"{enc(coll['seqname'])} {coll['genome']} {enc_genes(coll['genes'])}")


def classify(coll, table):
    """distribution tags"""
    tags = []
    for g in coll["genes"]:
        cod = [bool(t["cds"]) for t in g["txs"]]
        tags.append("gene:" + ("coding" if all(cod) else "noncoding" if not any(cod) else "mixed-coding-noncoding"))
        if len({t["strand"] for t in g["txs"]}) > 1:
            tags.append("gene:mixed-strands")
        tags.append(f"gene:isoforms={len(g['txs'])}")
        pseudo = False
        for t in g["txs"]:
            tags.append("tx:" + ("plus" if t["strand"] == "+" else "minus"))
            tags.append(f"tx:exons={min(len(t['exons']), 4)}")
            if merged(t["exons"]) != t["exons"]:
                tags.append("tx:adjacent-exons" + ("" if t["cds"] else "-noncoding"))
            if t["cds"]:
                if merged(t["cds"]) != t["cds"]:
                    tags.append("cds:adjacent-blocks")
                    if len(t["exons"]) == 1:
                        tags.append("cds:adjacent-blocks-in-single-exon-tx")
                    if any(s < m < e for (_, m) in t["cds"][:-1] for (s, e) in t["exons"]):
                        tags.append("cds:block-boundary-inside-exon")
                    if any(a[1] == b[0] and any(ex[1] == a[1] for ex in t["exons"])
                           for a, b in zip(t["cds"], t["cds"][1:])):
                        tags.append("cds:adjacent-across-exon-boundary")
                tags.append(f"cds:start-frame={t['frame']}")
                if t["shift"]:
                    tags.append("cds:frameshift-vector")
                r = ref_cds(coll["genome"], dict(t, cds=merged(t["cds"])), table)
                if r is None:
                    tags.append("cds:no-complete-codon")
                else:
                    tags.append(f"cds:partial5={int(r[0])},partial3={int(r[1])}")
                    if r[2]:
                        tags.append("cds:in-frame-stop")
                        pseudo = True
        if pseudo:
            tags.append("gene:pseudo")
    return tags
