"""Implementation side of the lift-over operations (C04)."""
from harness import shims
shims.install()
from harness.common import guarded
from harness.impl_loc import Toks, parse_loc, show_loc, SYM

from inscripta.biocantor.parent import Parent
from inscripta.biocantor.location.location_impl import EmptyLocation
from inscripta.biocantor.sequence.sequence import Sequence
from inscripta.biocantor.sequence.alphabet import Alphabet
from inscripta.biocantor.gene.interval import AbstractInterval
from inscripta.biocantor.io.parser import seq_chunk_to_parent


def parse_levels(tk):
    n = tk.int()
    levels = []
    for _ in range(n):
        lid, ltype, lseq = tk.next(), tk.next(), tk.next()
        if tk.t[tk.i] == "N":
            tk.next()
            place = None
        else:
            place = ("loc", tk.i)
            # remember token position; build later (construction errors must surface in the op)
            _skip_loc(tk)
        levels.append((lid, ltype, None if lseq == "-" else lseq, place))
    return levels


def _skip_loc(tk):
    kind = tk.next()
    if kind == "E":
        return
    tk.next()
    if kind == "S":
        tk.next(); tk.next()
    else:
        k = tk.int()
        for _ in range(2 * k):
            tk.next()


DEPTH = 0     # decoys (harness/props/c04.decoys): -1 = the hierarchy without its top level, +1 = one more level on top


def build_chain(tk_tokens, levels):
    p = None
    if DEPTH < 0 and len(levels) >= 2:
        levels = levels[:-1]
    if DEPTH > 0:
        p = Parent(id="assembly1", sequence_type="assembly")
    upper = None
    for (lid, ltype, lseq, place) in reversed(levels):
        seq = Sequence(lseq, Alphabet.NT_STRICT, id=lid, type=ltype) if lseq is not None else None
        loc = None
        if place is not None:
            sub = Toks(tk_tokens)
            sub.i = place[1]
            # REF style (lines marked ` @r`): the location that places the level below on THIS level carries its own
            # light reference to this level - id and type only, the way io.parser.seq_chunk_to_parent writes the place
            # of a chunk on its chromosome
            ref = None
            if REF_STYLE[0] and lseq is None:
                ref = Parent(id=lid, sequence_type=ltype)
            loc = parse_loc(sub, parent=ref) if ref is not None else parse_loc(sub)
        p = Parent(id=lid, sequence_type=ltype, sequence=seq, location=loc, parent=p)
        upper = (lid, ltype, lseq)
    return p


REF_STYLE = [False]
REF_MARK = " @r"


def impl_lift_op(line):
    global DEPTH
    if line.endswith(REF_MARK):
        REF_STYLE[0] = True
        try:
            return impl_lift_op(line[:-len(REF_MARK)])
        finally:
            REF_STYLE[0] = False
    if line.startswith("@depth"):
        # decoy: the same operation on the same levels in a hierarchy of another depth (answer discarded by the engine)
        head, rest = line.split(" ", 1)
        DEPTH = -1 if head.endswith("-1") else 1
        try:
            return impl_lift_op(rest)
        finally:
            DEPTH = 0
    toks = line.split()
    tk = Toks(toks)
    op = tk.next()

    def go():
        if op in ("lifttype", "liftseq"):
            if op == "lifttype":
                target = tk.next()
            else:
                kid, kty, ks = tk.next(), tk.next(), tk.next()
            cpos = tk.i
            _skip_loc(tk)
            levels = parse_levels(tk)
            parent = build_chain(toks, levels)
            sub = Toks(toks)
            sub.i = cpos
            child = parse_loc(sub, parent=parent)
            if op == "lifttype":
                return "ok " + show_loc(child.lift_over_to_first_ancestor_of_type(target))
            return "ok " + show_loc(child.lift_over_to_sequence(Sequence(ks, Alphabet.NT_STRICT, id=kid, type=kty)))
        if op == "chunkdown":
            loc = parse_loc(tk)
            ws, we, wst = tk.int(), tk.int(), tk.strand()
            chunk = seq_chunk_to_parent("A" * (we - ws), "chr", ws, we, wst)
            return "ok " + show_loc(AbstractInterval.liftover_location_to_seq_chunk_parent(loc, chunk))
        if op == "rechunk":
            cpos = tk.i
            _skip_loc(tk)
            a1, b1, s1 = tk.int(), tk.int(), tk.strand()
            a2, b2, s2 = tk.int(), tk.int(), tk.strand()
            c1 = seq_chunk_to_parent("A" * (b1 - a1), "chr", a1, b1, s1)
            c2 = seq_chunk_to_parent("A" * (b2 - a2), "chr", a2, b2, s2)
            sub = Toks(toks)
            sub.i = cpos
            loc = parse_loc(sub, parent=c1)
            return "ok " + show_loc(AbstractInterval.liftover_location_to_seq_chunk_parent(loc, c2))
        if op == "relocate":
            return relocate(toks, tk)
        raise KeyError(op)

    return guarded(go)


# ---------------------------------------------------------------------------------------------------------------
# relocate: the whole of liftover_location_to_seq_chunk_parent on hierarchies that carry REAL sequence
#   relocate <GENOME> <a1> <b1> <s1> <TXLOC | N> <CHILD> <a2 b2 s2 | W>
# ---------------------------------------------------------------------------------------------------------------
_COMP = {"A": "T", "C": "G", "G": "C", "T": "A"}


def _revcomp(s):
    return "".join(_COMP[c] for c in reversed(s))


def _walk(blocks, strand):
    """5'->3' positions of a location given as sorted (start, end) blocks"""
    if strand is SYM["-"]:
        return [p for s, e in reversed(blocks) for p in range(e - 1, s - 1, -1)]
    return [p for s, e in blocks for p in range(s, e)]


def _chunk(genome, a, b, strand):
    plus = genome[a:b]
    return seq_chunk_to_parent(plus if strand is SYM["+"] else _revcomp(plus), "chr", a, b, strand, Alphabet.NT_STRICT)


def relocate(toks, tk):
    from inscripta.biocantor.parent.parent import SequenceType
    genome = tk.next()
    a1, b1, s1 = tk.int(), tk.int(), tk.strand()
    txpos = None
    if tk.t[tk.i] == "N":
        tk.next()
    else:
        txpos = tk.i
        _skip_loc(tk)
    cpos = tk.i
    _skip_loc(tk)
    if tk.t[tk.i] == "W":
        tk.next()
        window2 = None
    else:
        window2 = (tk.int(), tk.int(), tk.strand())
    # call history: a caller who processed ANOTHER strain first (same chromosome name, same windows, every base
    # different).  Those objects are discarded; on a correct library they cannot influence what follows.
    decoy = "".join(_COMP[c] for c in genome)
    _chunk(decoy, a1, b1, s1)
    if window2 is not None:
        _chunk(decoy, *window2)
    else:
        Parent(id="chr", sequence=Sequence(decoy, Alphabet.NT_STRICT, id="chr", type=SequenceType.CHROMOSOME))
    # the real hierarchy
    chunk_a = _chunk(genome, a1, b1, s1)
    if txpos is not None:
        sub = Toks(toks)
        sub.i = txpos
        txloc = parse_loc(sub)
        on_chunk = chunk_a.reset_location(txloc)          # Parent.__init__ refuses a placement beyond the chunk
        chunk_seq = str(chunk_a.sequence)
        walked = _walk([(b.start, b.end) for b in txloc.blocks], txloc.strand)
        minus = txloc.strand is SYM["-"]
        tx_bases = "".join(_COMP[chunk_seq[p]] if minus else chunk_seq[p] for p in walked)
        tx_seq = Sequence(tx_bases, Alphabet.NT_STRICT, id="tx", type="transcript", parent=on_chunk)
        parent = Parent(sequence=tx_seq)
    else:
        parent = chunk_a
    sub = Toks(toks)
    sub.i = cpos
    child = parse_loc(sub, parent=parent)
    if window2 is not None:
        target = _chunk(genome, *window2)
    else:
        target = Parent(id="chr", sequence=Sequence(genome, Alphabet.NT_STRICT, id="chr", type=SequenceType.CHROMOSOME))
    got = AbstractInterval.liftover_location_to_seq_chunk_parent(child, target)
    if got is EmptyLocation():
        return "ok E"
    return "ok " + show_loc(got) + " ; ~" + str(got.extract_sequence())
