"""Implementation side of the lift-over operations (C04)."""
from harness import shims
shims.install()
from harness.common import guarded
from harness.impl_loc import Toks, parse_loc, show_loc, SYM

from inscripta.biocantor.parent import Parent
from inscripta.biocantor.sequence.sequence import Sequence
from inscripta.biocantor.sequence.alphabet import Alphabet
from inscripta.biocantor.gene.interval import AbstractInterval
from inscripta.biocantor.io.parser import seq_chunk_to_parent


def parse_levels(tk):
    n = tk.int()
    levels = []
    for _ in range(n):
        lid, ltype, lseq = tk.next(), tk.next(), tk.next()
        if tk.t[tk.i] == "N":
            tk.next()
            place = None
        else:
            place = ("loc", tk.i)
            # remember token position; build later (construction errors must surface in the op)
            _skip_loc(tk)
        levels.append((lid, ltype, None if lseq == "-" else lseq, place))
    return levels


def _skip_loc(tk):
    kind = tk.next()
    if kind == "E":
        return
    tk.next()
    if kind == "S":
        tk.next(); tk.next()
    else:
        k = tk.int()
        for _ in range(2 * k):
            tk.next()


def build_chain(tk_tokens, levels):
    p = None
    for (lid, ltype, lseq, place) in reversed(levels):
        seq = Sequence(lseq, Alphabet.NT_STRICT, id=lid, type=ltype) if lseq is not None else None
        loc = None
        if place is not None:
            sub = Toks(tk_tokens)
            sub.i = place[1]
            loc = parse_loc(sub)
        p = Parent(id=lid, sequence_type=ltype, sequence=seq, location=loc, parent=p)
    return p


def impl_lift_op(line):
    toks = line.split()
    tk = Toks(toks)
    op = tk.next()

    def go():
        if op in ("lifttype", "liftseq"):
            if op == "lifttype":
                target = tk.next()
            else:
                kid, kty, ks = tk.next(), tk.next(), tk.next()
            cpos = tk.i
            _skip_loc(tk)
            levels = parse_levels(tk)
            parent = build_chain(toks, levels)
            sub = Toks(toks)
            sub.i = cpos
            child = parse_loc(sub, parent=parent)
            if op == "lifttype":
                return "ok " + show_loc(child.lift_over_to_first_ancestor_of_type(target))
            return "ok " + show_loc(child.lift_over_to_sequence(Sequence(ks, Alphabet.NT_STRICT, id=kid, type=kty)))
        if op == "chunkdown":
            loc = parse_loc(tk)
            ws, we, wst = tk.int(), tk.int(), tk.strand()
            chunk = seq_chunk_to_parent("A" * (we - ws), "chr", ws, we, wst)
            return "ok " + show_loc(AbstractInterval.liftover_location_to_seq_chunk_parent(loc, chunk))
        if op == "rechunk":
            cpos = tk.i
            _skip_loc(tk)
            a1, b1, s1 = tk.int(), tk.int(), tk.strand()
            a2, b2, s2 = tk.int(), tk.int(), tk.strand()
            c1 = seq_chunk_to_parent("A" * (b1 - a1), "chr", a1, b1, s1)
            c2 = seq_chunk_to_parent("A" * (b2 - a2), "chr", a2, b2, s2)
            sub = Toks(toks)
            sub.i = cpos
            loc = parse_loc(sub, parent=c1)
            return "ok " + show_loc(AbstractInterval.liftover_location_to_seq_chunk_parent(loc, c2))
        raise KeyError(op)

    return guarded(go)
