"""Implementation side of the location operations: tokens -> real BioCantor objects -> canonical answer."""
from harness.common import guarded

import inscripta.biocantor  # noqa
from inscripta.biocantor.location.location_impl import SingleInterval, CompoundInterval, EmptyLocation
from inscripta.biocantor.location.strand import Strand

SYM = {"+": Strand.PLUS, "-": Strand.MINUS, ".": Strand.UNSTRANDED}
RSYM = {v: k for k, v in SYM.items()}


class Toks:
    def __init__(self, toks):
        self.t = toks
        self.i = 0

    def next(self):
        v = self.t[self.i]
        self.i += 1
        return v

    def int(self):
        return int(self.next())

    def bool(self):
        return self.next() == "1"

    def strand(self):
        return SYM[self.next()]

    def done(self):
        return self.i >= len(self.t)


XFORMS = ("rs+", "rs-", "rs.", "rv", "rv2", "sh0", "rp")
FLIP = {"+": "-", "-": "+", ".": "."}


def warm(loc):
    """ask a location every argument-less question, so that every lazily built / cached attribute is filled"""
    for q in (lambda: loc.blocks, lambda: list(loc.scan_blocks()), lambda: loc.is_overlapping, lambda: len(loc),
              lambda: (loc.start, loc.end, loc.strand, loc.num_blocks, loc.is_contiguous, loc.is_empty),
              lambda: (str(loc), repr(loc), hash(loc), loc == loc), lambda: loc.parent_to_relative_pos(loc.start),
              lambda: loc.relative_to_parent_pos(0), lambda: loc.optimize_blocks(), lambda: loc.gap_list(),
              lambda: loc.extract_sequence()):
        try:
            q()
        except Exception:  # noqa  (a question the operand cannot answer, e.g. no sequence)
            pass


def apply_xform(xf, loc):
    """identity-like re-constructions; `literal_after_xform` gives the location literal they denote"""
    if xf.startswith("rs"):
        return loc.reset_strand(SYM[xf[2]])
    if xf == "rv":
        return loc.reverse_strand()
    if xf == "rv2":
        return loc.reverse_strand().reverse_strand()
    if xf == "sh0":
        return loc.shift_position(0)
    if xf == "rp":
        return loc.reset_parent(loc.parent)
    raise KeyError(xf)


def strand_after_xform(xf, st):
    if xf.startswith("rs"):
        return xf[2]
    if xf == "rv":
        return FLIP[st]
    return st


def strip_history(tokens):
    """`H <xform> <location literal>` -> the literal of the location the history denotes (strand token adjusted);
    used for the lines sent to the Lean drivers (model and specification are history-free)"""
    out, i = [], 0
    pending = []          # xforms waiting for the strand token of the next literal
    while i < len(tokens):
        t = tokens[i]
        if t == "H":
            pending.append(tokens[i + 1])
            i += 2
            continue
        if pending and t in ("S", "C"):
            st = tokens[i + 1]
            for xf in reversed(pending):
                st = strand_after_xform(xf, st)
            out += [t, st]
            pending = []
            i += 2
            continue
        if pending and t == "E":
            pending = []
        out.append(t)
        i += 1
    return out


def hist_twin(line, rng, lit_starts):
    """wrap the location literals starting at the token indices `lit_starts` (kind token S/C) into a call history that
    denotes the same location; returns None when there is nothing to wrap"""
    t = line.split()
    ins = []
    for i in lit_starts:
        if i >= len(t) or t[i] not in ("S", "C") or rng.random() < 0.3:
            continue
        st = t[i + 1]
        xf = rng.choice(["rs" + st, "rs" + st, "rv", "rv2", "sh0", "rp"])
        if xf.startswith("rs"):
            inner = rng.choice([x for x in "+-." if x != st] + [st])
        elif xf == "rv":
            inner = FLIP[st]
        else:
            inner = st
        ins.append((i, xf, inner))
    if not ins:
        return None
    for i, xf, inner in sorted(ins, reverse=True):
        t[i + 1] = inner
        t[i:i] = ["H", xf]
    return " ".join(t)


def parse_loc(tk, parent=None):
    """Build the real object (constructor errors propagate)."""
    kind = tk.next()
    if kind == "H":
        # call history: the inner location is built, asked every question (caches warm), then transformed
        xf = tk.next()
        inner = parse_loc(tk, parent)
        warm(inner)
        return apply_xform(xf, inner)
    if kind == "E":
        return EmptyLocation()
    st = tk.strand()
    if kind == "S":
        s, e = tk.int(), tk.int()
        return SingleInterval(s, e, st, parent=parent)
    k = tk.int()
    starts, ends = [], []
    for _ in range(k):
        starts.append(tk.int())
        ends.append(tk.int())
    c = CompoundInterval(starts, ends, st, parent=parent)
    _ = c.blocks  # forces the per-block bounds checks the constructor defers (see F-C19g)
    return c


def show_loc(loc):
    if loc is EmptyLocation() or type(loc).__name__ == "_EmptyLocation":
        return "E"
    if type(loc) is SingleInterval:
        return f"S {RSYM[loc.strand]} {loc.start} {loc.end}"
    if type(loc) is CompoundInterval:
        bl = loc.blocks
        return f"C {RSYM[loc.strand]} {len(bl)} " + " ".join(f"{b.start} {b.end}" for b in bl)
    raise TypeError(f"not a location: {type(loc)}")


def enc_loc(kind, strand, blocks):
    """Encode a location literal for an op line. kind in S/C/E."""
    if kind == "E":
        return "E"
    if kind == "S":
        (s, e), = blocks
        return f"S {strand} {s} {e}"
    return f"C {strand} {len(blocks)} " + " ".join(f"{s} {e}" for s, e in blocks)


def b2s(b):
    return "true" if b else "false"


def impl_loc_op(line):
    tk = Toks(line.split())
    op = tk.next()
    # g<op>: the same real-library call; the model driver answers it with the GENERATED kernels (Gen/Kernels.lean)
    op = {"gp2r": "p2r", "gr2p": "r2p", "grelint": "relint", "goptimize": "optimize", "goptcombine": "optcombine"}.get(op, op)

    def go():
        if op == "mk":
            return "ok " + show_loc(parse_loc(tk))
        if op == "len":
            return f"ok {len(parse_loc(tk))}"
        if op == "r2p":
            l = parse_loc(tk)
            return f"ok {l.relative_to_parent_pos(tk.int())}"
        if op == "p2r":
            l = parse_loc(tk)
            return f"ok {l.parent_to_relative_pos(tk.int())}"
        if op == "relint":
            l = parse_loc(tk)
            rs, re_, st = tk.int(), tk.int(), tk.strand()
            return "ok " + show_loc(l.relative_interval_to_parent_location(rs, re_, st))
        if op == "locrel":
            a = parse_loc(tk)
            b = parse_loc(tk)
            return "ok " + show_loc(a.location_relative_to(b, optimize_blocks=tk.bool()))
        if op == "optimize":
            return "ok " + show_loc(parse_loc(tk).optimize_blocks())
        if op == "optcombine":
            l = parse_loc(tk)
            if not hasattr(l, "optimize_and_combine_blocks"):
                return "err UnsupportedOperation"
            return "ok " + show_loc(l.optimize_and_combine_blocks())
        if op == "overlap":
            a = parse_loc(tk)
            b = parse_loc(tk)
            ms, fs = tk.bool(), tk.bool()
            return "ok " + b2s(a.has_overlap(b, match_strand=ms, full_span=fs))
        if op == "gisov":
            return "ok " + b2s(parse_loc(tk).is_overlapping)
        if op == "ghasov":
            a = parse_loc(tk)
            b = parse_loc(tk)
            return "ok " + b2s(a.has_overlap(b, match_strand=tk.bool()))
        if op == "ggaplist":
            # gap_list(); the model driver answers with the GENERATED pairwise loop (Gen.CompoundInterval_gap_list)
            gs = parse_loc(tk).gap_list()
            return "ok " + " ".join([str(len(gs))] + [f"{g.start} {g.end} {RSYM[g.strand]}" for g in gs])
        raise KeyError(op)

    return guarded(go)
