"""Shared machinery of every check: translate -> build -> audit -> correspondence/spec -> decide.

Terminology (DESIGN.md section 2.3):
  impl   the real library, called in-process (PYTHONPATH=/repo working tree)
  model  Lean `Model.*`/`Gen.*` executed through Driver.lean       (the hand-written / generated mirror)
  spec   Lean `Spec.ok*` checkers executed through SpecDriver.lean  (the property as a decidable predicate on
         input/output pairs; the theorems in Props/Cxx.lean say `Spec.ok i (Model.f i)` for every i)

A case is one operation line.  For each case:
  impl(line) == model(line)                    correspondence
  spec(line => impl answer) in {pass, n/a}     the property itself, evaluated on the real code
A spec failure on the real code is a failing input.  A broken build/audit/correspondence alone is not: then
the spec search runs with the thorough budget; if it finds nothing the violation is reported as
`no-failing-input-found`.
"""
import contextlib
import fcntl
import hashlib
import json
import os
import random
import re
import subprocess
import sys
import time
import traceback

ROOT = os.path.dirname(os.path.dirname(os.path.abspath(__file__)))
LEAN = os.path.join(ROOT, "lean")
REPO = os.environ.get("BIOCANTOR_REPO", "/repo")
SCRATCH = os.path.join(ROOT, ".scratch")
GUARD = "BIOCANTOR_VERIF"
ALLOWED_AXIOMS = {"propext", "Classical.choice", "Quot.sound"}
FORBIDDEN = re.compile(r"\b(sorry|admit|native_decide|bv_decide|implemented_by|unsafe)\b|^axiom |maxHeartbeats 0")

os.makedirs(SCRATCH, exist_ok=True)
os.makedirs(os.path.join(ROOT, "replays"), exist_ok=True)
os.makedirs(os.path.join(ROOT, "evidence"), exist_ok=True)


def log(*a):
    print(*a, file=sys.stderr, flush=True)


# ----------------------------------------------------------------------------------------------
# exception canonicalisation

DOCUMENTED = {
    "InvalidPositionException": "InvalidPosition",
    "InvalidStrandException": "InvalidStrand",
    "ValueError": "ValueError",
    "TypeError": "TypeError",
    "EmptyLocationException": "EmptyLocation",
    "LocationOverlapException": "LocationOverlap",
    "LocationException": "Location",
    "NullParentException": "NullParent",
    "MismatchedParentException": "MismatchedParent",
    "NoSuchAncestorException": "NoSuchAncestor",
    "NullSequenceException": "NullSequence",
    "ParentException": "Parent",
    "UnsupportedOperationException": "UnsupportedOperation",
    "InvalidCDSIntervalError": "InvalidCDSInterval",
    "MismatchedFrameException": "MismatchedFrame",
    "NoncodingTranscriptError": "NoncodingTranscript",
    "ValidationException": "Validation",
    "InvalidAnnotationError": "InvalidAnnotation",
    "InvalidQueryError": "InvalidQuery",
    "DuplicateFeatureError": "InvalidAnnotation",
    "DuplicateTranscriptError": "InvalidAnnotation",
    "DuplicateSequenceException": "InvalidAnnotation",
    "AlphabetError": "Alphabet",
    "NotImplementedError": "NotImplemented",
    "NoSuchAncestorException ": "NoSuchAncestor",
}


def exc_token(e):
    """`err <Class>` for documented exception classes, `err! <PythonClass>` for internal errors."""
    for cls in type(e).__mro__:
        n = cls.__name__
        if n in DOCUMENTED:
            # TypeError is documented only where ObjectValidation raises it on purpose
            if n == "TypeError" and "must be" not in str(e) and "type" not in str(e).lower():
                return "err! TypeError"
            return "err " + DOCUMENTED[n]
        if n.endswith("ExportException") or n.endswith("ExportError") or n.startswith(("GFF3", "GenBank", "Tbl", "BED")):
            return "err Export"
    return "err! " + type(e).__name__


def guarded(f):
    try:
        return f()
    except RecursionError:
        return "err! RecursionError"
    except Exception as e:  # noqa
        return exc_token(e)


def same(impl, model, err_class_matters=False):
    if impl == model:
        return True
    if not err_class_matters and impl.startswith("err ") and model.startswith("err "):
        return True
    return False


# ----------------------------------------------------------------------------------------------
# lean side

@contextlib.contextmanager
def lake_lock():
    with open(os.path.join(SCRATCH, "lake.lock"), "w") as fh:
        fcntl.flock(fh, fcntl.LOCK_EX)
        try:
            yield
        finally:
            fcntl.flock(fh, fcntl.LOCK_UN)


def sh(cmd, cwd=None, timeout=3600, input_=None):
    p = subprocess.run(cmd, cwd=cwd, stdout=subprocess.PIPE, stderr=subprocess.STDOUT, timeout=timeout,
                       input=input_, text=True)
    return p.returncode, p.stdout


def translate():
    """Regenerate lean/BioCantor/Gen from /repo's working tree. Returns dict(status, kernels, tables, errors)."""
    with lake_lock():
        rc, out = sh([sys.executable, os.path.join(ROOT, "tools", "translate.py"), REPO,
                      os.path.join(LEAN, "BioCantor", "Gen")])
    try:
        info = json.loads(out.strip().splitlines()[-1])
    except Exception:
        info = {"status": "crash", "errors": [out[-2000:]]}
    info["rc"] = rc
    return info


def lake_build(targets):
    """Returns (ok, output). Serialised: several checks may run at once."""
    with lake_lock():
        rc, out = sh(["lake", "build"] + list(targets), cwd=LEAN, timeout=3 * 3600)
    return rc == 0, out


def failing_decls(build_output):
    """Names of the theorems/definitions at the error positions of a failed build."""
    names = []
    for m in re.finditer(r"error: (\S+\.lean):(\d+):(\d+)", build_output):
        path, line = m.group(1), int(m.group(2))
        full = path if os.path.isabs(path) else os.path.join(LEAN, path)
        try:
            src = open(full).read().splitlines()
        except OSError:
            continue
        decl = None
        for i in range(min(line, len(src)) - 1, -1, -1):
            mm = re.match(r"\s*(?:@\[[^\]]*\]\s*)?(?:private\s+|protected\s+)?(theorem|lemma|def|example|instance|abbrev)\s+(\S+)?", src[i])
            if mm:
                decl = f"{os.path.relpath(full, LEAN)}:{mm.group(1)} {mm.group(2) or ''}".strip()
                break
        names.append(decl or f"{path}:{line}")
    return sorted(set(names))


def theorems_of(prop_file):
    """(namespace-qualified theorem names) declared in a Props file."""
    src = open(prop_file).read()
    ns = []
    out = []
    for ln in src.splitlines():
        m = re.match(r"namespace\s+(\S+)", ln)
        if m:
            ns.append(m.group(1))
            continue
        m = re.match(r"end\s+(\S+)", ln)
        if m and ns and ns[-1].endswith(m.group(1)):
            ns.pop()
            continue
        m = re.match(r"(?:@\[[^\]]*\]\s*)?theorem\s+(\S+)", ln)
        if m:
            out.append(".".join(ns + [m.group(1)]))
    return out


def lean_sources_of(module_file):
    """Transitive local imports (files under lean/) of a module file."""
    seen, todo = set(), [module_file]
    while todo:
        f = todo.pop()
        if f in seen or not os.path.exists(f):
            continue
        seen.add(f)
        for m in re.finditer(r"^import\s+(BioCantor[\w.]*)", open(f).read(), re.M):
            todo.append(os.path.join(LEAN, m.group(1).replace(".", "/") + ".lean"))
    return sorted(seen)


def strip_comments(src):
    src = re.sub(r"/-.*?-/", "", src, flags=re.S)
    return "\n".join(l.split("--")[0] for l in src.splitlines())


def audit(prop_id, module, theorems):
    """#print axioms for every theorem + forbidden-token grep over the import cone.
    Returns (ok, report dict)."""
    mod_file = os.path.join(LEAN, module.replace(".", "/") + ".lean")
    bad_tokens = []
    for f in lean_sources_of(mod_file):
        for i, ln in enumerate(strip_comments(open(f).read()).splitlines(), 1):
            if FORBIDDEN.search(ln):
                bad_tokens.append(f"{os.path.relpath(f, LEAN)}:{i}: {ln.strip()[:80]}")
    d = os.path.join(SCRATCH, f"audit-{prop_id}-{os.getpid()}")
    os.makedirs(d, exist_ok=True)
    af = os.path.join(d, "Audit.lean")
    with open(af, "w") as fh:
        fh.write(f"import {module}\n")
        for t in theorems:
            fh.write(f"#print axioms {t}\n")
    rc, out = sh(["lake", "env", "lean", af], cwd=LEAN, timeout=1800)
    axioms = {}
    cur = None
    for m in re.finditer(r"'([^']+)' (depends on axioms: \[([^\]]*)\]|does not depend on any axioms)", out.replace("\n", " ")):
        axioms[m.group(1)] = [a.strip() for a in (m.group(3) or "").split(",") if a.strip()]
    bad_axioms = {t: [a for a in ax if a not in ALLOWED_AXIOMS] for t, ax in axioms.items()}
    bad_axioms = {t: a for t, a in bad_axioms.items() if a}
    missing = [t for t in theorems if t not in axioms]
    ok = rc == 0 and not bad_tokens and not bad_axioms and not missing
    rep = {"theorems": len(theorems), "audited": len(axioms), "bad_axioms": bad_axioms, "missing": missing,
           "forbidden_tokens": bad_tokens, "axioms_used": sorted({a for ax in axioms.values() for a in ax})}
    if rc != 0:
        rep["audit_output"] = out[-1500:]
    return ok, rep


def run_driver(driver, lines, tag="drv"):
    """Feed operation lines to `lake env lean --run <driver>`; returns list of answer lines (same length)."""
    if not lines:
        return []
    d = os.path.join(SCRATCH, f"{tag}-{os.getpid()}")
    os.makedirs(d, exist_ok=True)
    inp = os.path.join(d, "ops.txt")
    with open(inp, "w") as fh:
        fh.write("\n".join(lines) + "\n")
    with open(inp) as fin:
        p = subprocess.run(["lake", "env", "lean", "--run", driver], cwd=LEAN, stdin=fin, stdout=subprocess.PIPE,
                           stderr=subprocess.PIPE, text=True, timeout=3600)
    out = p.stdout.splitlines()
    if p.returncode != 0 or len(out) != len(lines):
        raise DriverError(f"{driver}: rc={p.returncode} got {len(out)} answers for {len(lines)} lines\n"
                          f"{p.stderr[-1500:]}\n{p.stdout[-500:]}")
    return out


class DriverError(Exception):
    pass


# ----------------------------------------------------------------------------------------------
# known findings

def load_findings(prop_id):
    entries = []
    p = os.path.join(ROOT, "known_findings.json")
    if os.path.exists(p):
        entries += json.load(open(p)).get("findings", [])
    d = os.path.join(ROOT, "findings")
    if os.path.isdir(d):
        for fn in sorted(os.listdir(d)):
            if fn.endswith(".json"):
                data = json.load(open(os.path.join(d, fn)))
                entries += data if isinstance(data, list) else data.get("findings", [])
    return [f for f in entries if f["property"] == prop_id and f.get("status") == "finding"]


def match_finding(findings, line, impl, extra=None):
    """A finding matches a failing case when its op matches and its `when` predicate (a Python expression over
    `t` = the line's tokens, `impl` = the implementation's answer, `x` = extra dict) is true."""
    toks = line.split()
    for f in findings:
        if f.get("op") and (not toks or toks[0] != f["op"]):
            continue
        try:
            if eval(f.get("when", "True"), {"__builtins__": {"len": len, "int": int, "any": any, "all": all,
                                                            "min": min, "max": max, "range": range, "set": set,
                                                            "sorted": sorted, "abs": abs, "str": str, "list": list,
                                                            "zip": zip, "sum": sum}},
                    {"t": toks, "impl": impl, "x": extra or {}, "line": line}):
                return f
        except Exception:
            continue
    return None


# ----------------------------------------------------------------------------------------------
# result of a run

class Run:
    def __init__(self, prop_id, tier, seed):
        self.prop = prop_id
        self.tier = tier
        self.seed = seed
        self.rng = random.Random(seed * 1000003 + int(hashlib.md5(prop_id.encode()).hexdigest()[:6], 16))
        self.t0 = time.time()
        self.evaluations = 0
        self.nontrivial = set()
        self.samples = []
        self.dist = {}
        self.failures = []        # spec failures on the real code: dict(line, impl, spec, model)
        self.disagreements = []   # impl != model: dict(line, impl, model)
        self.known_hit = {}       # finding id -> count
        self.notes = []
        self.exhaustive = False
        self.extra = {}

    def count(self, key, n=1):
        self.dist[key] = self.dist.get(key, 0) + n


def write_replay(run, kind, payload):
    h = hashlib.md5(json.dumps(payload, sort_keys=True, default=str).encode()).hexdigest()[:10]
    path = os.path.join("replays", f"{run.prop}-{kind}-{h}.json")
    payload = dict(payload)
    payload.update({"property": run.prop, "kind": kind, "seed": run.seed, "tier": run.tier,
                    "repo_head": sh(["git", "-C", REPO, "rev-parse", "HEAD"])[1].strip(),
                    "repo_dirty": bool(sh(["git", "-C", REPO, "status", "--porcelain", "--untracked-files=no"])[1].strip())})
    with open(os.path.join(ROOT, path), "w") as fh:
        json.dump(payload, fh, indent=1, default=str)
    return path


def write_evidence(run, coverage, violations, assumptions):
    ev = {
        "property_id": run.prop,
        "tier": run.tier,
        "seed": run.seed,
        "level": "proof",
        "coverage": coverage,
        "assumptions": assumptions,
        "wall_s": round(time.time() - run.t0, 2),
        "violations": violations,
    }
    with open(os.path.join(ROOT, "evidence", f"{run.prop}.json"), "w") as fh:
        json.dump(ev, fh, indent=1, default=str)
