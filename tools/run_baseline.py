#!/usr/bin/env python3
"""Run the repository's pinned suite (guard OFF) and compare the passing set with /root/.vp/BASELINE.json.
usage: run_baseline.py [repo_dir]   (exit 0 iff every stable_pass test passes)"""
import json, os, subprocess, sys, tempfile, xml.etree.ElementTree as ET
repo = sys.argv[1] if len(sys.argv) > 1 else "/repo"
base = json.load(open("/root/.vp/BASELINE.json"))
want = set(base["stable_pass"])
with tempfile.TemporaryDirectory() as d:
    xml = os.path.join(d, "j.xml")
    env = dict(os.environ)
    env.pop("BIOCANTOR_VERIF", None)
    subprocess.run(["/venv/bin/python", "-m", "pytest", "-ra", "-q", "-p", "no:cacheprovider", "--timeout=900",
                    "--continue-on-collection-errors", f"--junitxml={xml}"], cwd=repo, env=env,
                   stdout=subprocess.DEVNULL, stderr=subprocess.DEVNULL)
    passed = set()
    for tc in ET.parse(xml).getroot().iter("testcase"):
        if not any(c.tag in ("failure", "error", "skipped") for c in tc):
            passed.add(f"{tc.get('classname')}::{tc.get('name')}")
missing = sorted(want - passed)
print(f"baseline: {len(want)} stable, {len(passed)} passed now, {len(missing)} missing")
for m in missing[:20]:
    print("  MISSING", m)
sys.exit(1 if missing else 0)
