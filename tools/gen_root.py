#!/usr/bin/env python3
"""List every module under lean/BioCantor in lean/modules.txt (setup builds them one by one, so that modules of
different properties never have to be imported into one file) and keep lean/BioCantor.lean minimal."""
import os
root = os.path.join(os.path.dirname(os.path.dirname(os.path.abspath(__file__))), "lean")
mods = []
for d, _, fs in os.walk(os.path.join(root, "BioCantor")):
    for f in fs:
        if f.endswith(".lean"):
            mods.append(os.path.relpath(os.path.join(d, f), root)[:-5].replace(os.sep, "."))
mods = sorted(mods)
def put(path, content):
    if not os.path.exists(path) or open(path).read() != content:
        open(path, "w").write(content)
put(os.path.join(root, "modules.txt"), "\n".join(mods) + "\n")
put(os.path.join(root, "BioCantor.lean"), "import BioCantor.Base\n")
print(len(mods), "modules")
