#!/usr/bin/env python3
"""Write lean/BioCantor.lean importing every module under lean/BioCantor (so `lake build BioCantor` builds all)."""
import os
root = os.path.join(os.path.dirname(os.path.dirname(os.path.abspath(__file__))), "lean")
mods = []
for d, _, fs in os.walk(os.path.join(root, "BioCantor")):
    for f in fs:
        if f.endswith(".lean"):
            rel = os.path.relpath(os.path.join(d, f), root)[:-5].replace(os.sep, ".")
            mods.append(rel)
content = "".join(f"import {m}\n" for m in sorted(mods))
p = os.path.join(root, "BioCantor.lean")
if not os.path.exists(p) or open(p).read() != content:
    open(p, "w").write(content)
print(len(mods), "modules")
