#!/usr/bin/env python3
"""confirm_seed.py <seed_dir> <Cxx> : independently confirm a seeded change (demo passes clean / fails changed,
pinned suite still passes with the change), run the property's check against it, and file it under
/verif/seeded/<name>/ with the results recorded in meta.json.  Uses scratch worktrees only."""
import json, os, shutil, subprocess, sys
src, prop = os.path.abspath(sys.argv[1]), sys.argv[2]
name = os.path.basename(src.rstrip("/"))
rt = f"/tmp/rt_confirm_{name}_{os.getpid()}"
res = {}
try:
    subprocess.check_call(["git", "-C", "/repo", "worktree", "add", "-q", "--detach", rt, "HEAD"])
    env = dict(os.environ, PYTHONPATH=rt, PYTHONDONTWRITEBYTECODE="1")
    demo = os.path.join(src, "demo.py")
    res["demo_exit_clean"] = subprocess.run(["/venv/bin/python", demo], env=env, cwd="/tmp", stdout=subprocess.DEVNULL, stderr=subprocess.DEVNULL).returncode
    subprocess.check_call(["git", "-C", rt, "apply", os.path.join(src, "patch.diff")])
    p = subprocess.run(["/venv/bin/python", demo], env=env, cwd="/tmp", stdout=subprocess.PIPE, stderr=subprocess.STDOUT, text=True)
    res["demo_exit_changed"] = p.returncode
    res["demo_output_changed_tail"] = p.stdout.strip().splitlines()[-3:]
    b = subprocess.run([sys.executable, "/verif/tools/run_baseline.py", rt], stdout=subprocess.PIPE, text=True)
    res["baseline_with_change"] = b.stdout.strip().splitlines()[0] if b.stdout.strip() else ""
    res["baseline_ok"] = b.returncode == 0
finally:
    subprocess.call(["git", "-C", "/repo", "worktree", "remove", "--force", rt])
    shutil.rmtree(rt, ignore_errors=True)
ok = res.get("demo_exit_clean") == 0 and res.get("demo_exit_changed") not in (0, None) and res.get("baseline_ok")
res["confirmed"] = bool(ok)
print(json.dumps(res, indent=1))
if not ok:
    sys.exit(1)
t = subprocess.run([sys.executable, "/verif/tools/try_seed.py", os.path.join(src, "patch.diff"), prop], stdout=subprocess.PIPE, stderr=subprocess.STDOUT, text=True)
out = t.stdout
detected = "VIOLATION property=" + prop in out
res["check"] = {"command": f"tools/try_seed.py seeded/{name}/patch.diff {prop}  (= apply to a scratch worktree, ./check {prop} --tier quick, discard)",
                "detected": detected, "no_failing_input_found": "no-failing-input-found" in out,
                "output_tail": [l for l in out.strip().splitlines() if not l.startswith(("Preparing", "HEAD"))][-14:]}
dst = os.path.join("/verif/seeded", name)
os.makedirs(dst, exist_ok=True)
for f in ("patch.diff", "demo.py"):
    shutil.copy(os.path.join(src, f), os.path.join(dst, f))
meta = json.load(open(os.path.join(src, "meta.json"))) if os.path.exists(os.path.join(src, "meta.json")) else {}
meta["property"] = prop
meta["confirmed_by_lead"] = res
json.dump(meta, open(os.path.join(dst, "meta.json"), "w"), indent=1)
print("detected:", detected)
