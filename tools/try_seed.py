#!/usr/bin/env python3
"""Run a check against a seeded change WITHOUT touching /repo or /verif's shared build:
   try_seed.py <patch.diff> <Cxx> [--tier quick]
Copies /verif (with its .lake cache) and a worktree of /repo HEAD to scratch dirs, applies the patch there,
runs `BIOCANTOR_REPO=<worktree> ./check Cxx`, prints the tail of the output and the replay, and cleans up.
(Equivalent to `git -C /repo apply`, run, `git -C /repo checkout -- .`, but safe while other work uses /repo.)"""
import json, os, shutil, subprocess, sys, tempfile
patch, prop = os.path.abspath(sys.argv[1]), sys.argv[2]
tier = sys.argv[4] if len(sys.argv) > 4 and sys.argv[3] == "--tier" else "quick"
tag = f"{prop}_{os.getpid()}"
vt, rt = f"/tmp/vt_{tag}", f"/tmp/rt_{tag}"
try:
    rc = subprocess.call(["rsync", "-a", "--exclude", ".scratch", "--exclude", "replays", "--exclude", ".git", os.environ.get("VERIF_SRC", "/verif") + "/", vt + "/"],
                         stderr=subprocess.DEVNULL)
    if rc not in (0, 24):      # 24 = files vanished during the copy (a concurrent lake build): harmless
        raise SystemExit(f"rsync failed: {rc}")
    subprocess.check_call(["git", "-C", "/repo", "worktree", "add", "-q", "--detach", rt, "HEAD"])
    subprocess.check_call(["git", "-C", rt, "apply", patch])
    env = dict(os.environ, BIOCANTOR_REPO=rt)
    p = subprocess.run(["./check", prop, "--tier", tier], cwd=vt, env=env, stdout=subprocess.PIPE, stderr=subprocess.STDOUT, text=True)
    out = p.stdout.strip().splitlines()
    print("\n".join(out[-6:]))
    print("exit code:", p.returncode)
    for ln in out:
        if ln.startswith("VIOLATION"):
            rp = ln.split("replay=")[1].split()[0]
            d = json.load(open(os.path.join(vt, rp)))
            print("replay:", json.dumps(d.get("failing_input") or d.get("broken_obligations"), indent=1)[:1500])
finally:
    subprocess.call(["git", "-C", "/repo", "worktree", "remove", "--force", rt])
    shutil.rmtree(vt, ignore_errors=True)
    shutil.rmtree(rt, ignore_errors=True)
