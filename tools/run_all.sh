#!/bin/sh
# run every claimed check (quick tier) for the given seeds; prints one summary line per run
# usage: tools/run_all.sh [seed ...]      (default seeds: 0 1 2)
here=$(cd "$(dirname "$0")/.." && pwd); cd "$here" || exit 2
[ -d lean/.lake ] || ./setup.sh >/dev/null 2>&1
tier="${VERIF_TIER:-quick}"
seeds="${*:-0 1 2}"
props=$(python3 -c "import json;print(' '.join(c['property_id'] for c in json.load(open('MANIFEST.json'))['checks']))")
rc=0
for s in $seeds; do
  for p in $props; do
    out=$(VERIF_SEED=$s ./check $p --tier $tier 2>&1); code=$?
    echo "seed=$s $p exit=$code $(echo "$out" | grep -c '^VIOLATION') violation-lines :: $(echo "$out" | tail -1)"
    [ $code -ne 0 ] && rc=1
  done
done
exit $rc
