#!/bin/sh
# confirm_round.sh <round-out-dir> <Cxx> <first-index>: confirm and file <dir>/<Cxx>/A and /B as <Cxx>_<n>, <Cxx>_<n+1>
out=$1; p=$2; n=$3
for x in A B; do
  d="$out/$p/$x"; [ -f "$d/patch.diff" ] || { echo "$p $x: no patch"; n=$((n+1)); continue; }
  nm="$out/named/${p}_$n"; mkdir -p "$out/named"; rm -rf "$nm"; cp -r "$d" "$nm"
  /venv/bin/python /verif/tools/confirm_seed.py "$nm" "$p" > "$out/named/${p}_$n.log" 2>&1
  echo "$p $x -> ${p}_$n: $(grep -c '"confirmed": true' $out/named/${p}_$n.log) confirmed; $(tail -1 $out/named/${p}_$n.log)"
  n=$((n+1))
done
