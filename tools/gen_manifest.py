#!/usr/bin/env python3
"""Regenerate MANIFEST.json from harness/props/*.py (claimed) + tools/manifest_meta.json (texts)."""
import importlib, json, os, sys
ROOT = os.path.dirname(os.path.dirname(os.path.abspath(__file__)))
sys.path.insert(0, ROOT)
meta = json.load(open(os.path.join(ROOT, "tools", "manifest_meta.json")))
props = [json.loads(l)["id"] for l in open(os.path.join(ROOT, "properties.jsonl"))]
checks, na = [], []
for pid in props:
    m = meta["properties"].get(pid, {})
    modfile = os.path.join(ROOT, "harness", "props", pid.lower() + ".py")
    if os.path.exists(modfile) and m.get("claimed"):
        # the leading "<n> theorems" of the level text is kept equal to what Props/<id>*.lean declare
        import re, glob
        n = 0
        for f in glob.glob(os.path.join(ROOT, "lean", "BioCantor", "Props", pid + "*.lean")):
            n += len(re.findall(r"^theorem ", open(f).read(), flags=re.M))
        m["level_text"] = re.sub(r"^\d+ theorems", f"{n} theorems", m["level_text"])
        checks.append({
            "property_id": pid,
            "quick_cmd": f"./check {pid} --tier quick",
            "thorough_cmd": f"./check {pid} --tier thorough",
            "evidence_file": f"evidence/{pid}.json",
            "replay_cmd_template": f"./check {pid} --replay {{path}}",
            "engine": "lean4-proof+correspondence",
            "level_claimed": {"category": "proof", "text": m["level_text"], "design_ref": m.get("design_ref", f"DESIGN.md section 4, {pid}")},
            "level_note": m["level_note"],
            "technique": m.get("technique", "Lean 4 theorems about a model of the code (kernel-checked), model tied to /repo by "
                               "translator-regenerated definitions and a model-vs-implementation correspondence run"),
        })
    else:
        na.append({"property_id": pid, "reason": m.get("na_reason", "not yet covered by a sound check in this framework (work in progress); no claim is made")})
man = {
    "version": 1,
    "setup_cmd": "./setup.sh",
    "hooks": {"guard": "BIOCANTOR_VERIF", "enable": "no hooks are needed: checks call the public API of the working tree in-process (PYTHONPATH=/repo)",
              "baseline_off_cmd": "python3 tools/run_baseline.py /repo", "source_commits": [], "add_only": True},
    "engines": [{"name": "lean4-proof+correspondence", "path": "check", "serves_properties": [c["property_id"] for c in checks],
                 "kind_free_text": "Lean 4 model + theorems (lean/), Python-AST translator (tools/translate.py), differential "
                                   "correspondence harness (harness/) with Lean Spec checkers as oracle"}],
    "checks": checks,
    "notes": meta.get("notes", ""),
    "not_applicable": na,
}
json.dump(man, open(os.path.join(ROOT, "MANIFEST.json"), "w"), indent=1)
print(f"claimed {len(checks)}, not claimed {len(na)}")
