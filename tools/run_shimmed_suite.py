#!/usr/bin/env python3
"""Run the repository's whole test suite with harness/shims.py loaded (extra validation of fix candidates; the
pinned baseline is tools/run_baseline.py). usage: run_shimmed_suite.py [repo] [pytest args…]; prints the summary and the failed test ids."""
import os, subprocess, sys
repo = sys.argv[1] if len(sys.argv) > 1 else "/repo"
env = dict(os.environ, PYTHONPATH=f"/verif:{repo}", PYTHONDONTWRITEBYTECODE="1")
p = subprocess.run(["/venv/bin/python", "-m", "pytest", "-q", "-p", "no:cacheprovider", "-p", "harness.shims_plugin", "--timeout=900",
                    "--continue-on-collection-errors", "-x" if False else "-q"] + sys.argv[2:], cwd=repo, env=env, stdout=subprocess.PIPE, stderr=subprocess.STDOUT, text=True)
lines = p.stdout.strip().splitlines()
print("\n".join([l for l in lines if l.startswith(("FAILED", "ERROR"))][:40]))
print(lines[-1] if lines else "")
