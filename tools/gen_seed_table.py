#!/usr/bin/env python3
"""Rewrite the table between <!-- SEEDS --> markers in DESIGN.md from seeded/*/meta.json."""
import json, os, re
root = os.path.dirname(os.path.dirname(os.path.abspath(__file__)))
rows = []
for name in sorted(os.listdir(os.path.join(root, "seeded"))):
    mp = os.path.join(root, "seeded", name, "meta.json")
    if not os.path.exists(mp):
        continue
    m = json.load(open(mp))
    c = m.get("confirmed_by_lead", {})
    chk = c.get("check", {})
    det = "caught (failing input)" if chk.get("detected") and not chk.get("no_failing_input_found") else \
        ("caught (no-failing-input-found)" if chk.get("detected") else "MISSED")
    needs = (m.get("needs_to_manifest") or "").replace("\n", " ").replace("|", "/")
    rows.append(f"| {name} | {m.get('property')} | {(m.get('title') or '').replace('|', '/')} | {needs[:160]} | {det} |")
table = ("| seed | property | change | needs, to manifest | `./check` (quick) |\n|---|---|---|---|---|\n" + "\n".join(rows))
p = os.path.join(root, "DESIGN.md")
s = open(p).read()
if "<!-- SEEDS -->" not in s:
    s += ("\n---------------------------------------------------------------------------------\n\n"
          "## 10. Seeded changes and which checks catch them\n\n"
          "Each row is a change to BioCantor written by an independent sub-agent that saw only the property text and a scratch\n"
          "worktree (nothing from /verif); I confirmed for each that the pinned suite still passes with it and that its own\n"
          "demonstration fails with it and passes without, then ran the property's check against it in scratch copies\n"
          "(`tools/confirm_seed.py`). Patches, demonstrations and the recorded runs are under `seeded/<seed>/`.\n\n"
          "<!-- SEEDS -->\n<!-- /SEEDS -->\n")
s = re.sub(r"<!-- SEEDS -->.*?<!-- /SEEDS -->", "<!-- SEEDS -->\n" + table + "\n<!-- /SEEDS -->", s, flags=re.S)
open(p, "w").write(s)
print(len(rows), "seeds")
