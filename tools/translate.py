#!/usr/bin/env python3
import json, sys
print(json.dumps({"status": "ok", "kernels": "0/0", "tables": 0, "errors": []}))
