#!/usr/bin/env python3
"""Python-AST -> Lean 4 translator for BioCantor's tables and integer kernels.

usage: translate.py <repo> <outdir>      (writes <outdir>/Tables.lean and <outdir>/Kernels.lean)
Prints one JSON line: {"status": "ok"|"partial"|"crash", "kernels": "n/m", "tables": n, "errors": [...]}.

Nothing from the library is imported: sources are parsed with `ast`, so this works even when a module cannot
be imported in this environment.  Files are rewritten only when their content changes (keeps lake's cache).

Tables: module-level dict/list/enum literals become Lean data (`List Char` for strings: the kernel decides
equality on those quickly, unlike `String`).
Kernels: straight-line functions in the fragment
    assignments, if/elif/else, return, raise, for over a module-level list literal (unrolled), augmented assignment,
    chained comparisons, and/or/not, + - * // % >> (positive literal / named-constant right operands), min/max/abs/len,
    conditional expressions, attribute reads of typed arguments, enum members, int-keyed dict literals,
    SingleInterval(...) construction (with the constructor's own check), EmptyLocation(), `x in/not in [..]`
are compiled to total Lean definitions over Int / Base enums returning `Except PyExc _`.
Anything outside the fragment is an error for THAT kernel only (it is then tied by the correspondence alone).

Loop fragment (kernel specs with `loops=True`; the block loops of CompoundInterval, parent-less view `CI`):
    * `for x in <list expr>:` / `for a, b in zip(xs, ys):` over a list-typed expression is compiled to a separate,
      structurally recursive definition `<kernel>_loop<i>` emitted before the kernel.  Its explicit arguments are the
      locals read in the body (fixed), the list, and the STATE = the locals assigned in the body that exist before
      the loop (in order of first assignment).  It returns `PyR (LoopOut Ret State)`:
          `return e` -> `.ok (.ret e)`;  `break` -> `.ok (.done state)`;  list exhausted -> `.ok (.done state)`;
          `continue` / end of the body -> the recursive call on the tail with the current state;  `raise X` -> `.error X`.
      The caller matches on the result: `.ret r` returns r from the kernel, `.done state` continues after the loop.
      Refused: `for ... else`, nested loops, reassigning the loop variable, a state variable changing its type,
      use of a body-local or of the loop variable after the loop.
    * `try: S1; S... except X: H` (one handler, no `as`, no else/finally): S1 must be an assignment whose value contains
      exactly ONE kernel call; `.error X'` for X' = X or a subclass of X in exc.py takes H (with the locals as they
      were before S1), other errors propagate, `.ok` continues with S...; the statements S... must be unable to raise
      (no kernel call, no raise) — otherwise the kernel is refused.
    * list values: `self.blocks` / `self._single_intervals` (List SI), `self._starts` / `self._ends` (List Int),
      `reversed(xs)` -> `xs.reverse`, `iter(xs)` -> `xs`, `zip(xs, ys)` -> `List.zip xs ys`,
      `islice(xs, k, None)` -> `xs.drop k`, `xs.append(e)` -> `xs ++ [e]`, `x = []` (element type from the spec's
      `locals`), `any(<elt> for <target> in <list>)` -> `List.any` (pure element) or the short-circuiting `pyAny`
      (element is a kernel call), `len(self)` / `self.length` of a CI -> `CI.length`.
    * more list forms: `[e1, …]` literals, `[<elt> for x in <list>]` with a pure element -> `List.map`, `xs[:-1]` ->
      `xs.dropLast`, `xs[::-1]` -> `xs.reverse`; element access `xs[0]`, `xs[-1]` (loads, stores and `xs[0] -= v`) go
      through `listGetFirst/listGetLast/listSetFirst/listSetLast`, which raise on an empty list (IndexError, reported as
      `.KeyError`: see GenPrelude); `<frame>.shift(n)` on a CDSFrame-typed expression calls the CDSFrame_shift kernel;
      `location.num_blocks` of a CI is the number of blocks.
    * generators (`generator=True`): `yield from <list>` appends to the result list, which is returned at the end.
    * `if c: <plain assignments> else: <plain assignments>` to the same names, none of which occurs in c or in an
      assigned value, becomes one `let v := if c then a else b` per name (no duplication of the continuation).
    * lazily cached attribute: `if self.A is None: self.A = E` followed by `return self.A` is `return E`, provided
      every other store to `self.A` in the class is `self.A = None` inside `__init__`.
    * `fixed={param: False}`: a trailing parameter pinned to its DEFAULT value (checked against the signature); tests
      on it are decided statically.
    * `parentless=True` (SingleInterval.has_overlap): the operands are parent-less SingleIntervals, so `x.parent` and
      `x.parent_id` are `None` and `x.is_empty` is `False` (each checked against the defining property /
      constructor: `parentless_guards`); `None != None`, `None or None` and `type(other) is SingleInterval` are decided
      statically, which prunes the parent bookkeeping and the dispatch to other location types.
      `b.has_overlap(other, m, full_span=False)` on a SingleInterval-typed `b` then calls that kernel.
    * `cut`: the kernel stops before the first statement that calls the named function and returns the named locals
      (the remainder is pinned textually in `<kernel>_tail`).
    * `cut` may also name the statement itself (`before_stmt`, compared as an AST) instead of a called method.
    * reading-frame cleaning (gene/cds.py, view `CDSV` = (chromosome_location : CI, frames : List CDSFrame) of a
      parent-less chromosome-level CDSInterval, guarded by `cdsv_view_guards`: `self.strand` is
      `self.chromosome_location.strand`, `frames` is assigned in `__init__` only):
        - `pinned={param: literal}`: trailing parameters pinned to the literal every translated CALLER passes (checked
          at each call site `self._exon_iter(False)`; unlike `fixed` it need not be the default); `x is True` and
          `a if x else b` on a pinned parameter are decided statically and only the branch taken is translated;
        - `self._exon_iter(False)` / `self._frame_iter(False)` call the generator kernels (refused when the callee could
          raise: a generator runs lazily, consuming it eagerly would then reorder effects);
        - `zip_longest(xs, ys)` (imported from itertools, no fillvalue) -> `zipLongest xs ys : List (Option a × Option b)`
          — never a zip; the loop variables are Optional, and
          `if x is None or y is None: <… raise/return/continue/break>` becomes a match whose all-`some` arm continues
          with the names narrowed to their values (any other use of an Optional non-int local is refused);
        - `sum(<int elt> for p in <list>)` -> `pySum (List.map …)`, `p[0]` / `p[1]` on a 2-tuple loop variable,
          `frame.value`, `next_frame != frame` on CDSFrame values;
        - `<CI>.relative_interval_to_parent_location(a, b, s)` calls that CUT kernel: the value is its state at its
          cut (`RelOut`), which the caller can only return at its own cut.
    * parent-less set algebra (`calls_pl=True`, result type `LocOut`): `CompoundInterval(starts, ends, strand[, parent])`
      and `CompoundInterval._from_single_intervals_no_validation(blocks)`, each optionally followed by
      `.optimize_blocks()`, stay SYMBOLIC (`LocOut.compound` / `LocOut.fromBlocks`: a constructor cut; the arguments are
      evaluated); `return <SingleInterval>` / `return EmptyLocation()` are `LocOut.single` / `LocOut.empty`.
      Method calls `x.has_overlap / intersection / contains / minus / reset_parent / _union_single_interval (…)` on an
      SI- or CI-typed receiver (also the result of another such call) are bound to the callee kernel's parameters
      (positional, keyword, source defaults — `PL_METHODS`): the callee is chosen by the type of the first argument,
      parameters it has `fixed` must be statically that value at the call site, parent parameters must be None / opaque.
      `parentless` also covers a CI-typed operand (`parent`, `parent_id` None, `is_empty` False, `type(x) is
      SingleInterval` False: `algebra_guards`).  Also: `xs + ys` on lists, `min(<list>)` / `max(<list>)` (`pyMinList`,
      ValueError on []), `tuple(<genexp>)`, `len(<SingleInterval-or-EmptyLocation expression>)`.
    * an assignment whose value mentions `.parent` / `.parent_id` (as an attribute, not e.g. `.parent_to_relative_pos`)
      is parent bookkeeping and skipped.
    * the CI view itself is guarded: `blocks`, `_single_intervals`, `num_blocks`, `__len__` and the assignments of
      `_starts/_ends/strand/length` in `CompoundInterval.__init__` must read as they do in the pinned tree
      (`ci_view_guards`), otherwise every CompoundInterval kernel is refused.
"""
import ast
import json
import os
import re
import sys


class Unsupported(Exception):
    pass


# Lean keywords that may occur as Python local names (none occurs in the straight-line kernels)
LEAN_KEYWORDS = {"end", "from", "at", "in", "do", "then", "else", "fun", "let", "have", "show", "by", "match", "with",
                 "open", "where", "if", "for", "return", "mut", "def", "theorem", "example", "instance", "structure",
                 "inductive", "namespace", "section", "variable", "universe", "import", "export", "private",
                 "protected", "macro", "syntax", "notation", "deriving", "using", "calc", "Type", "Prop", "Sort"}


def lname(n):
    return f"«{n}»" if n in LEAN_KEYWORDS else n


# ------------------------------------------------------------------------------------------------
# helpers

def lean_chars(s):
    def ch(c):
        if c == "'":
            return "'\\''"
        if c == "\\":
            return "'\\\\'"
        if c == "\n":
            return "'\\n'"
        if c == "\t":
            return "'\\t'"
        if c == "\r":
            return "'\\r'"
        if ord(c) < 32 or ord(c) > 126:
            return f"(Char.ofNat {ord(c)})"
        return f"'{c}'"
    return "[" + ", ".join(ch(c) for c in s) + "]"


def module_of(repo, rel):
    path = os.path.join(repo, "inscripta", "biocantor", rel)
    return ast.parse(open(path).read(), filename=path)


def find_assign(mod, name):
    for node in mod.body:
        if isinstance(node, ast.Assign) and len(node.targets) == 1 and isinstance(node.targets[0], ast.Name) \
                and node.targets[0].id == name:
            return node.value
        if isinstance(node, ast.AnnAssign) and isinstance(node.target, ast.Name) and node.target.id == name:
            return node.value
    raise Unsupported(f"module-level name {name} not found")


def find_class(mod, name):
    for node in mod.body:
        if isinstance(node, ast.ClassDef) and node.name == name:
            return node
    raise Unsupported(f"class {name} not found")


def find_func(container, name):
    body = container.body
    for node in body:
        if isinstance(node, ast.FunctionDef) and node.name == name:
            return node
    raise Unsupported(f"function {name} not found")


def const_eval(node, env=None):
    """Evaluate a literal expression made of ints, strs, + * ** and names from env."""
    env = env or {}
    if isinstance(node, ast.Constant):
        return node.value
    if isinstance(node, ast.Name) and node.id in env:
        return env[node.id]
    if isinstance(node, ast.UnaryOp) and isinstance(node.op, ast.USub):
        return -const_eval(node.operand, env)
    if isinstance(node, ast.BinOp):
        a, b = const_eval(node.left, env), const_eval(node.right, env)
        if isinstance(node.op, ast.Add):
            return a + b
        if isinstance(node.op, ast.Sub):
            return a - b
        if isinstance(node.op, ast.Mult):
            return a * b
        if isinstance(node.op, ast.Pow):
            return a ** b
    if isinstance(node, (ast.List, ast.Tuple)):
        return [const_eval(e, env) for e in node.elts]
    if isinstance(node, ast.Dict):
        return {const_eval(k, env): const_eval(v, env) for k, v in zip(node.keys, node.values)}
    if isinstance(node, ast.Set):
        return sorted(const_eval(e, env) for e in node.elts)
    raise Unsupported(f"not a constant: {ast.dump(node)[:80]}")


def enum_members(cls):
    out = []
    for node in cls.body:
        if isinstance(node, ast.Assign) and len(node.targets) == 1 and isinstance(node.targets[0], ast.Name):
            try:
                out.append((node.targets[0].id, const_eval(node.value)))
            except Unsupported:
                pass
    return out


# ------------------------------------------------------------------------------------------------
# tables

def gen_tables(repo, errors):
    out = ["/- GENERATED by tools/translate.py from /repo's working tree — do not edit. -/",
           "import BioCantor.Base", "namespace BioCantor.Gen", "open BioCantor", ""]
    n = 0

    def emit(name, typ, body, doc):
        nonlocal n
        out.append(f"/-- {doc} -/")
        out.append(f"def {name} : {typ} :=\n  {body}\n")
        n += 1

    def guarded(fn):
        try:
            fn()
        except Exception as e:  # noqa
            errors.append(f"table {fn.__name__}: {type(e).__name__}: {e}")

    def t_constants():
        mod = module_of(repo, "constants.py")
        g = const_eval(find_assign(mod, "gencode"))
        emit("gencode", "List (List Char × Char)",
             "[" + ",\n   ".join(f"({lean_chars(k)}, {lean_chars(v)[1:-1]})" for k, v in g.items()) + "]",
             "constants.gencode")
        x = const_eval(find_assign(mod, "extended_gencode"))
        emit("extendedGencode", "List (List Char × Char)",
             "[" + ", ".join(f"({lean_chars(k)}, {lean_chars(v)[1:-1]})" for k, v in x.items()) + "]",
             "constants.extended_gencode")
        a = const_eval(find_assign(mod, "aacodons"))
        emit("aacodons", "List (Char × List (List Char))",
             "[" + ",\n   ".join(f"({lean_chars(k)[1:-1]}, [" + ", ".join(lean_chars(c) for c in v) + "])"
                                for k, v in a.items()) + "]", "constants.aacodons")

    def t_codon():
        mod = module_of(repo, "gene/codon.py")
        tt = enum_members(find_class(mod, "TranslationTable"))
        emit("translationTables", "List (List Char × Int)",
             "[" + ", ".join(f"({lean_chars(k)}, {v})" for k, v in tt) + "]", "codon.TranslationTable members")
        node = find_assign(mod, "START_CODONS_BY_TRANSLATION_TABLE")
        rows = []
        ttd = dict(tt)
        for k, v in zip(node.keys, node.values):
            if not (isinstance(k, ast.Attribute) and isinstance(k.value, ast.Name) and k.value.id == "TranslationTable"):
                raise Unsupported("start codon table key")
            if not (isinstance(v, ast.Call) and getattr(v.func, "id", "") == "frozenset"):
                raise Unsupported("start codon table value")
            codons = []
            for e in v.args[0].elts:
                if not (isinstance(e, ast.Call) and getattr(e.func, "id", "") == "Codon"):
                    raise Unsupported("start codon element")
                codons.append(const_eval(e.args[0]))
            rows.append(f"({ttd[k.attr]}, [" + ", ".join(lean_chars(c) for c in sorted(codons)) + "])")
        emit("startCodons", "List (Int × List (List Char))", "[" + ",\n   ".join(rows) + "]",
             "codon.START_CODONS_BY_TRANSLATION_TABLE (table number ↦ sorted codons)")
        # the alphabet accepted by Codon.__init__: self._val.strip("...")
        cls = find_class(mod, "Codon")
        init = find_func(cls, "__init__")
        alpha = None
        for nd in ast.walk(init):
            if isinstance(nd, ast.Call) and isinstance(nd.func, ast.Attribute) and nd.func.attr == "strip" and nd.args:
                alpha = const_eval(nd.args[0])
        if alpha is None:
            raise Unsupported("Codon alphabet")
        emit("codonAlphabet", "List Char", lean_chars(alpha), "letters accepted by Codon.__init__")

    def t_alphabet():
        mod = module_of(repo, "sequence/alphabet.py")
        members = enum_members(find_class(mod, "Alphabet"))
        emit("alphabets", "List (List Char × List Char)",
             "[" + ",\n   ".join(f"({lean_chars(k)}, {lean_chars(v)})" for k, v in members) + "]",
             "alphabet.Alphabet members (name ↦ letters)")
        node = find_assign(mod, "ALPHABET_TO_NUCLEOTIDE_COMPLEMENT")
        rows = []
        for k, v in zip(node.keys, node.values):
            if not (isinstance(k, ast.Attribute) and getattr(k.value, "id", "") == "Alphabet"):
                raise Unsupported("complement key")
            d = const_eval(v)
            rows.append(f"({lean_chars(k.attr)}, [" + ", ".join(
                f"({lean_chars(a)[1:-1]}, {lean_chars(b)[1:-1]})" for a, b in d.items()) + "])")
        emit("complementMaps", "List (List Char × List (Char × Char))", "[" + ",\n   ".join(rows) + "]",
             "alphabet.ALPHABET_TO_NUCLEOTIDE_COMPLEMENT")
        # is_nucleotide_alphabet: the two membership lists
        fn = find_func(find_class(mod, "Alphabet"), "is_nucleotide_alphabet")
        lists = []
        for nd in fn.body:
            if isinstance(nd, ast.If) and isinstance(nd.test, ast.Compare) and isinstance(nd.test.ops[0], ast.In):
                names = [e.attr for e in nd.test.comparators[0].elts]
                val = const_eval(nd.body[0].value)
                lists.append((names, val))
        emit("nucleotideAlphabetFlags", "List (List Char × Bool)",
             "[" + ", ".join(f"({lean_chars(nm)}, {'true' if v else 'false'})" for names, v in lists for nm in names) + "]",
             "Alphabet.is_nucleotide_alphabet as a table")

    def t_enums():
        mod = module_of(repo, "location/strand.py")
        emit("strandMembers", "List (List Char × Int)",
             "[" + ", ".join(f"({lean_chars(k)}, {v})" for k, v in enum_members(find_class(mod, "Strand"))) + "]",
             "strand.Strand members")
        order = None
        for nd in ast.walk(find_func(find_class(mod, "Strand"), "_order")):
            if isinstance(nd, ast.Dict):
                order = [(k.attr, const_eval(v)) for k, v in zip(nd.keys, nd.values)]
        emit("strandOrder", "List (List Char × Int)",
             "[" + ", ".join(f"({lean_chars(k)}, {v})" for k, v in order) + "]", "Strand._order()")
        mod = module_of(repo, "gene/cds_frame.py")
        for cname, lname in (("CDSFrame", "cdsFrameMembers"), ("CDSPhase", "cdsPhaseMembers")):
            emit(lname, "List (List Char × Int)",
                 "[" + ", ".join(f"({lean_chars(k)}, {v})" for k, v in enum_members(find_class(mod, cname))) + "]",
                 f"cds_frame.{cname} members")
        mod = module_of(repo, "gene/biotype.py")
        node = find_assign(mod, "Biotype")
        names = None
        for kw in node.keywords:
            if kw.arg == "names":
                names = const_eval(kw.value)
        emit("biotypes", "List (List Char × Int)",
             "[" + ",\n   ".join(f"({lean_chars(k)}, {v})" for k, v in names) + "]", "biotype.Biotype names")

    def t_bins():
        mod = module_of(repo, "util/bins.py")
        env = {}
        for nm in ("NEXT_SHIFT", "FIRST_SHIFT"):
            env[nm] = const_eval(find_assign(mod, nm))
        emit("binNextShift", "Nat", str(env["NEXT_SHIFT"]), "bins.NEXT_SHIFT")
        emit("binFirstShift", "Nat", str(env["FIRST_SHIFT"]), "bins.FIRST_SHIFT")
        emit("binOffsets", "List Int", str(const_eval(find_assign(mod, "OFFSETS"))), "bins.OFFSETS")
        emit("binMaxChromSize", "Int", str(const_eval(find_assign(mod, "MAX_CHROM_SIZE"))), "bins.MAX_CHROM_SIZE")
        co = const_eval(find_assign(mod, "COORD_OFFSETS"))
        emit("binCoordOffsets", "List (List Char × Int)",
             "[" + ", ".join(f"({lean_chars(k)}, {v})" for k, v in co.items()) + "]", "bins.COORD_OFFSETS")

    def t_gff3():
        mod = module_of(repo, "io/gff3/constants.py")
        for nm, ln in (("ENCODING_MAP", "gffEncodingMap"), ("ENCODING_MAP_WITH_COMMA", "gffEncodingMapWithComma")):
            try:
                node = find_assign(mod, nm)
            except Unsupported:
                continue
            d = None
            # str.maketrans({...}) or a dict literal, possibly built from another
            for nd in ast.walk(node):
                if isinstance(nd, ast.Dict):
                    d = {}
                    for k, v in zip(nd.keys, nd.values):
                        if k is None:   # ** unpacking of the base map
                            d.update(dict(const_eval(find_dict_literal(mod, v))))
                        else:
                            d[const_eval(k)] = const_eval(v)
                    break
            if d is None:
                raise Unsupported(nm)
            emit(ln, "List (Char × List Char)",
                 "[" + ", ".join(f"({lean_chars(k)[1:-1]}, {lean_chars(v)})" for k, v in d.items()) + "]",
                 f"gff3.constants.{nm}")

    def find_dict_literal(mod, node):
        for nd in ast.walk(node):
            if isinstance(nd, ast.Name):
                base = find_assign(mod, nd.id)
                for nd2 in ast.walk(base):
                    if isinstance(nd2, ast.Dict):
                        return nd2
        raise Unsupported("base dict")

    def t_features():
        mod = module_of(repo, "io/features/__init__.py")
        for cname, lname in (("FeatureIntervalNameQualifiers", "featureNameQualifiers"),
                             ("FeatureIntervalIDQualifiers", "featureIdQualifiers")):
            try:
                cls = find_class(mod, cname)
            except Unsupported:
                continue
            emit(lname, "List (List Char × Int)",
                 "[" + ", ".join(f"({lean_chars(k)}, {v})" for k, v in enum_members(cls)) + "]",
                 f"io.features.{cname} members (name ↦ priority)")

    def t_parent():
        mod = module_of(repo, "parent/parent.py")
        emit("parentCacheSize", "Nat", str(const_eval(find_assign(mod, "PARENT_CACHE_SIZE"))), "parent.PARENT_CACHE_SIZE")

    def t_bin_sites():
        """every call of bins(...) in gene/*.py, rendered as source text (file, enclosing def, arguments)"""
        rows = []
        for rel in ("gene/feature.py", "gene/collections.py", "gene/gene.py", "gene/variants.py", "gene/transcript.py"):
            mod = module_of(repo, rel)
            for cls in mod.body:
                if not isinstance(cls, ast.ClassDef):
                    continue
                for fn in cls.body:
                    if not isinstance(fn, ast.FunctionDef):
                        continue
                    for nd in ast.walk(fn):
                        if isinstance(nd, ast.Call) and isinstance(nd.func, ast.Name) and nd.func.id == "bins":
                            args = ", ".join([ast.unparse(a) for a in nd.args] +
                                             [f"{k.arg}={ast.unparse(k.value)}" for k in nd.keywords])
                            rows.append((rel, f"{cls.name}.{fn.name}", args))
        rows = sorted(rows)
        out.append("-- bins() call sites: " + "; ".join(f"{b}({c})" for _, b, c in rows))
        emit("binCallSites", "List (List Char × List Char × List Char)",
             "[" + ",\n   ".join(f"({lean_chars(a)}, {lean_chars(b)}, {lean_chars(c)})" for a, b, c in rows) + "]",
             "every call of bins(...) in gene/*.py: (file, enclosing function, argument text)")
        # the guard of the bin pre-filter in _query_by_position
        mod = module_of(repo, "gene/collections.py")
        fn = find_func(find_class(mod, "AnnotationCollection"), "_query_by_position")
        guard = None
        for nd in ast.walk(fn):
            if isinstance(nd, ast.If):
                for sub in ast.walk(ast.Module(body=nd.body, type_ignores=[])):
                    if isinstance(sub, ast.Call) and isinstance(sub.func, ast.Name) and sub.func.id == "bins":
                        guard = ast.unparse(nd.test)
        emit("binPrefilterGuard", "List Char", lean_chars(guard or "?"),
             "condition under which _query_by_position computes a bin set for pre-filtering")

    def t_module_constants():
        """every enum class (name -> str(value)), module-level str constant and set-of-str literal of the
        constant modules, as `<prefix>_<PythonName>`"""
        for rel, prefix in (("io/gff3/constants.py", "gff3"), ("io/genbank/constants.py", "genbank"),
                            ("io/features/__init__.py", "features"), ("gene/biotype.py", "biotype"),
                            ("io/ncbi/tbl_writer.py", "tbl")):
            try:
                mod = module_of(repo, rel)
            except Exception as e:  # noqa
                errors.append(f"table constants {rel}: {e}")
                continue
            for node in mod.body:
                if isinstance(node, ast.ClassDef):
                    bases = [ast.unparse(b) for b in node.bases]
                    if not any(("Enum" in b or "HasMemberMixin" in b) for b in bases):
                        continue
                    members = enum_members(node)
                    if not members:
                        continue
                    emit(f"{prefix}_{node.name}", "List (List Char × List Char)",
                         "[" + ", ".join(f"({lean_chars(k)}, {lean_chars(str(v))})" for k, v in members) + "]",
                         f"{rel}: class {node.name} (member name ↦ str(value))")
                elif isinstance(node, ast.Assign) and len(node.targets) == 1 and isinstance(node.targets[0], ast.Name):
                    nm = node.targets[0].id
                    try:
                        v = const_eval(node.value)
                    except Unsupported:
                        continue
                    if isinstance(v, str) and nm.isupper():
                        emit(f"{prefix}_{nm}", "List Char", lean_chars(v), f"{rel}: {nm}")
                    elif isinstance(node.value, ast.Set) and all(isinstance(x, str) for x in v) and nm.isupper():
                        emit(f"{prefix}_{nm}", "List (List Char)", "[" + ", ".join(lean_chars(x) for x in sorted(v)) + "]",
                             f"{rel}: {nm} (set literal, sorted)")

    for t in (t_constants, t_codon, t_alphabet, t_enums, t_bins, t_gff3, t_features, t_parent, t_bin_sites, t_module_constants):
        guarded(t)
    out.append("end BioCantor.Gen")
    return "\n".join(out) + "\n", n


# ------------------------------------------------------------------------------------------------
# kernels

ENUMS = {
    "Strand": {"PLUS": "Strand.plus", "MINUS": "Strand.minus", "UNSTRANDED": "Strand.unstranded"},
    "CDSFrame": {"NONE": "CDSFrame.NONE", "ZERO": "CDSFrame.ZERO", "ONE": "CDSFrame.ONE", "TWO": "CDSFrame.TWO"},
    "CDSPhase": {"NONE": "CDSPhase.NONE", "ZERO": "CDSPhase.ZERO", "ONE": "CDSPhase.ONE", "TWO": "CDSPhase.TWO"},
}
ENUM_EXPECT = {
    "Strand": [("PLUS", 1), ("MINUS", -1), ("UNSTRANDED", 0)],
    "CDSFrame": [("NONE", -1), ("ZERO", 0), ("ONE", 1), ("TWO", 2)],
    "CDSPhase": [("NONE", -1), ("ZERO", 0), ("ONE", 1), ("TWO", 2)],
}
PYEXC = {"InvalidPositionException", "InvalidStrandException", "ValueError", "TypeError", "KeyError",
         "UnsupportedOperationException", "EmptyLocationException", "LocationException", "NotImplementedError",
         "MismatchedFrameException", "InvalidCDSIntervalError"}
LEAN_TYPE = {"Int": "Int", "Bool": "Bool", "Strand": "Strand", "CDSFrame": "CDSFrame", "CDSPhase": "CDSPhase",
             "SI": "SI", "OptSI": "Option SI", "Sym": "List Char", "Bins": "BinsResult", "VI": "VI",
             "CoordFmt": "CoordFmt", "DistanceType": "DistanceType", "CI": "CI", "RelOut": "RelOut",
             "CombineOut": "CombineOut", "CDSV": "CDSV", "IntLists2": "(List Int × List Int)", "LocOut": "LocOut"}


# methods of a SingleInterval-typed value that are themselves kernels: attr -> (kernel, argument types, result type).
# `has_overlap` is only mapped where the kernel spec says so (`calls_has_overlap`): the general method also checks
# parents and strands, which the integer kernels do not model.
SI_METHODS = {
    "reset_strand": ("SingleInterval_reset_strand", ["Strand"], "SI"),
    "reverse_strand": ("SingleInterval_reverse_strand", [], "SI"),
    "extend_absolute": ("SingleInterval_extend_absolute", ["Int", "Int"], "SI"),
    "_distance_to_single_interval": ("SingleInterval_distance_to_single_interval", ["SI", "DistanceType"], "Int"),
    # block method calls inside the CompoundInterval loops
    "parent_to_relative_pos": ("SingleInterval_parent_to_relative_pos", ["Int"], "Int"),
    "relative_to_parent_pos": ("SingleInterval_relative_to_parent_pos", ["Int"], "Int"),
    "relative_interval_to_parent_location": ("SingleInterval_relative_interval_to_parent_location",
                                             ["Int", "Int", "Strand"], "SI"),
    "_has_overlap_single_interval": ("SingleInterval_has_overlap_single_interval", ["SI"], "Bool"),
}
# methods of a CompoundInterval-typed value (`CI`) that are themselves kernels
CI_METHODS = {
    "scan_blocks": ("CompoundInterval_scan_blocks", [], "List:SI"),
    "parent_to_relative_pos": ("CompoundInterval_parent_to_relative_pos", ["Int"], "Int"),
    "relative_to_parent_pos": ("CompoundInterval_relative_to_parent_pos", ["Int"], "Int"),
    "_combine_blocks": ("CompoundInterval_combine_blocks", ["Bool"], "CombineOut"),
    # a CUT kernel: its value is the callee's state at ITS cut (`RelOut`), on which the translator offers no operation —
    # a caller can only hand it on to its own cut
    "relative_interval_to_parent_location": ("CompoundInterval_relative_interval_to_parent_location",
                                             ["Int", "Int", "Strand"], "RelOut"),
}
CI_METHOD_PARAMS = {"_combine_blocks": ["preserve_overlappers"]}
# attributes of a CI-typed value: Python attribute -> (Lean projection, type); valid under `ci_view_guards`
CI_ATTRS = {
    "num_blocks": ("numBlocks", "Int"),
    "strand": ("strand", "Strand"),
    "blocks": ("blocks", "List:SI"),
    "_single_intervals": ("blocks", "List:SI"),
    "_starts": ("starts", "List:Int"),
    "_ends": ("ends", "List:Int"),
    "length": ("length", "Int"),
}
# attributes of a CDSV-typed value (a parent-less chromosome-level CDSInterval): valid under `cdsv_view_guards`
CDSV_ATTRS = {
    ("chromosome_location",): ("chromosome_location", "CI"),
    ("frames",): ("frames", "List:CDSFrame"),
    ("strand",): ("chromosome_location.strand", "Strand"),       # AbstractInterval.strand
}
# generator methods of a CDSV-typed value that are themselves kernels (called with their parameter pinned to a literal)
CDSV_METHODS = {
    "_exon_iter": ("CDSInterval_exon_iter", "List:SI"),
    "_frame_iter": ("CDSInterval_frame_iter", "List:CDSFrame"),
}
# `calls_pl=True` kernels (parent-less set algebra): (receiver type, method) -> {type of the first argument: kernel}.
# The call's arguments are bound to the callee's parameters (positional, keyword, source defaults); parameters the
# callee kernel has `fixed` must be statically that value at the call site; unmodelled parameters must be None/opaque.
PL_METHODS = {
    ("SI", "has_overlap"): {"SI": "SingleInterval_has_overlap", "CI": "SingleInterval_has_overlap_ci"},
    ("CI", "has_overlap"): {"SI": "CompoundInterval_has_overlap"},
    ("SI", "intersection"): {"SI": "SingleInterval_intersection"},
    ("SI", "contains"): {"SI": "Location_contains_si"},
    ("SI", "minus"): {"CI": "SingleInterval_minus"},
    ("SI", "reset_parent"): {None: "SingleInterval_reset_parent"},
    ("SI", "_intersection_single_interval"): {"SI": "SingleInterval_intersection_single_interval"},
    ("SI", "_has_overlap_single_interval"): {"SI": "SingleInterval_has_overlap_single_interval"},
    ("SI", "_union_single_interval"): {"SI": "SingleInterval_union_single_interval"},
    ("CI", "_union_single_interval"): {"SI": "CompoundInterval_union_single_interval"},
    ("VI", "_lift_over_chromosome_location_single_interval"):
        {"SI": "VariantInterval_lift_over_chromosome_location_single_interval"},
}
GUARD_FAILS = {}   # name of a view fact -> list of violated expectations (filled per run by gen_kernels)
REPO = [None]
EMITTED = set()
RAISES = {}       # emitted kernel -> can its body raise?


def lean_type(t):
    """Lean spelling of a translator type (None when the type has no first-class Lean counterpart)."""
    if t in LEAN_TYPE:
        return LEAN_TYPE[t]
    if t == "Opt:Int":
        return "Option Int"
    if t.startswith("Opt:"):
        e = lean_type(t[4:])
        return None if e is None else (f"Option {e}" if " " not in e or e.startswith("(") else f"Option ({e})")
    if t.startswith("ZipL:"):
        # element of `zip_longest(xs, ys)`: each side is None once its list is exhausted
        parts = t.split(":")[1:]
        es = [lean_type("Opt:" + x) for x in parts]
        return None if (len(parts) != 2 or None in es) else "(" + " × ".join(es) + ")"
    if t.startswith("Iter1:"):
        e = lean_type(t[6:])
        return None if e is None else f"({e} × List {e})"
    if t.startswith("List:"):
        e = lean_type(t[5:])
        return None if e is None else (f"List {e}" if " " not in e or e.startswith("(") else f"List ({e})")
    if t.startswith("Pair:"):
        parts = t.split(":")[1:]
        es = [lean_type(x) for x in parts]
        return None if (len(parts) != 2 or None in es) else "(" + " × ".join(es) + ")"
    return None


def body_no_doc(fn):
    b = fn.body
    if b and isinstance(b[0], ast.Expr) and isinstance(b[0].value, ast.Constant) and isinstance(b[0].value.value, str):
        b = b[1:]
    return b


def src_of(stmts):
    """canonical text of a statement list (independent of the Python version's unparse layout)"""
    return "\n".join(ast.dump(x) for x in stmts)


def canon(text):
    return src_of(ast.parse(text).body)


def ci_view_guards(repo):
    """The hand-written `CI` view (GenPrelude) reads a parent-less CompoundInterval as (blocks, strand) with
    _starts/_ends = the blocks' starts/ends, len = sum of block lengths.  That reading is only right while the
    class says so; returns the list of violated expectations (empty = the view is faithful to this source)."""
    bad = []

    def expect(what, got, want):
        if got != canon(want):
            bad.append(f"{what}: the CI view assumes it reads {want!r}")

    try:
        root = module_of(repo, "__init__.py")
        expect("AbstractLocation.__len__", src_of(body_no_doc(find_func(find_class(root, "AbstractLocation"), "__len__"))),
               "return self.length")
        cls = find_class(module_of(repo, "location/location_impl.py"), "CompoundInterval")
        expect("CompoundInterval.blocks", src_of(body_no_doc(find_func(cls, "blocks"))), "return self._single_intervals")
        expect("CompoundInterval.num_blocks", src_of(body_no_doc(find_func(cls, "num_blocks"))), "return len(self._starts)")
        expect("CompoundInterval._single_intervals", src_of(body_no_doc(find_func(cls, "_single_intervals"))),
               "if self._single_interval_store is None:\n"
               "    self._single_interval_store = [SingleInterval(self._starts[i], self._ends[i], self.strand, self.parent) "
               "for i in range(self.num_blocks)]\nreturn self._single_interval_store")
        init = find_func(cls, "__init__")
        top = [ast.dump(x) for x in init.body]
        for want in ("self.strand = strand", "self._starts, self._ends = self._sort_starts_ends(starts, ends, strand)",
                     "length = 0", "self.length = length",
                     "for start, end in zip(self._starts, self._ends):\n    if start < 0:\n"
                     "        raise InvalidPositionException('Block starts must be non-negative')\n    if start > end:\n"
                     "        raise InvalidPositionException('Block starts must be less than block ends')\n"
                     "    length += end - start"):
            if canon(want) not in top:
                bad.append(f"CompoundInterval.__init__ has no top-level statement {want!r}")
        # no other store to the viewed attributes anywhere in the class
        for fn in cls.body:
            if not isinstance(fn, ast.FunctionDef):
                continue
            for nd in ast.walk(fn):
                if isinstance(nd, ast.Attribute) and isinstance(nd.ctx, (ast.Store, ast.Del)) \
                        and isinstance(nd.value, ast.Name) and nd.value.id == "self" \
                        and nd.attr in ("_starts", "_ends", "strand", "length", "_single_interval_store"):
                    if fn.name == "__init__" or (fn.name == "_single_intervals" and nd.attr == "_single_interval_store"):
                        continue
                    bad.append(f"CompoundInterval.{fn.name} assigns self.{nd.attr}")
        # the SingleInterval side of the view: start/end/strand/length as the constructor stores them
        scls = find_class(module_of(repo, "location/location_impl.py"), "SingleInterval")
        stop = [ast.dump(x) for x in find_func(scls, "__init__").body]
        for want in ("self.start = start", "self.end = end", "self.strand = strand", "self.length = end - start"):
            if canon(want) not in stop:
                bad.append(f"SingleInterval.__init__ has no top-level statement {want!r}")
    except Exception as e:  # noqa
        bad.append(f"{type(e).__name__}: {e}")
    return bad


def cdsv_view_guards(repo):
    """The hand-written `CDSV` view (GenPrelude) reads a chromosome-level CDSInterval as (chromosome_location : CI,
    frames : List CDSFrame) with `self.strand` = `self.chromosome_location.strand`.  Returns the violated expectations."""
    bad = []
    try:
        cls = find_class(module_of(repo, "gene/cds.py"), "CDSInterval")
        if [ast.unparse(b) for b in cls.bases] != ["AbstractFeatureInterval"]:
            bad.append("CDSInterval is not a direct subclass of AbstractFeatureInterval only")
        for fn in cls.body:
            if isinstance(fn, ast.FunctionDef) and fn.name in ("strand", "chromosome_location", "__getattr__",
                                                               "__getattribute__"):
                bad.append(f"CDSInterval defines {fn.name} itself")
            if isinstance(fn, ast.FunctionDef) and fn.name != "__init__":
                for nd in ast.walk(fn):
                    if isinstance(nd, ast.Attribute) and isinstance(nd.ctx, (ast.Store, ast.Del)) \
                            and nd.attr in ("frames", "_strand", "_genomic_starts", "_genomic_ends"):
                        bad.append(f"CDSInterval.{fn.name} assigns .{nd.attr}")
        imod = module_of(repo, "gene/interval.py")
        seen = 0
        for c in imod.body:
            if isinstance(c, ast.ClassDef):
                for fn in c.body:
                    if isinstance(fn, ast.FunctionDef) and fn.name == "strand":
                        seen += 1
                        if src_of(body_no_doc(fn)) != canon("return self.chromosome_location.strand"):
                            bad.append(f"{c.name}.strand is not `return self.chromosome_location.strand`")
        if not seen:
            bad.append("no `strand` property in gene/interval.py")
    except Exception as e:  # noqa
        bad.append(f"{type(e).__name__}: {e}")
    return bad


# `CompoundInterval.from_single_intervals` as GenPrelude's `fromSingleIntervalsCheck` reads it (parent-less intervals:
# the set of parents is {None}): ValueError for an empty list or more than one strand, else the unvalidated constructor
FROM_SINGLE_INTERVALS_SRC = '''
errors = []
if not intervals:
    errors.append("List of intervals must be nonempty")
if len({interval.strand for interval in intervals}) > 1:
    errors.append(f"Intervals must all have same strand: {set([interval.strand for interval in intervals])}")
interval_parents = {
    interval.parent.strip_location_info() if interval.parent else None for interval in intervals
}
if len(interval_parents) > 1:
    errors.append(
        "Intervals must all have same parent: {}".format(
            set([interval.parent.id if interval.parent else None for interval in intervals])
        )
    )
if errors:
    raise ValueError("\\n".join(errors))
return cls._from_single_intervals_no_validation(intervals)
'''


def algebra_guards(repo):
    """facts the parent-less set-algebra kernels rely on: name -> violated expectations"""
    out = {"empty_len": [], "parentless_ci": [], "from_single_intervals": []}
    try:
        fsi = find_func(find_class(module_of(repo, "location/location_impl.py"), "CompoundInterval"), "from_single_intervals")
        if src_of(body_no_doc(fsi)) != canon(FROM_SINGLE_INTERVALS_SRC):
            out["from_single_intervals"].append("CompoundInterval.from_single_intervals differs from the text "
                                                "`fromSingleIntervalsCheck` (GenPrelude) was written from")
    except Exception as e:  # noqa
        out["from_single_intervals"].append(f"{type(e).__name__}: {e}")
    try:
        mod = module_of(repo, "location/location_impl.py")
        ecls = find_class(mod, "_EmptyLocation")
        if src_of(body_no_doc(find_func(ecls, "length"))) != canon("return 0"):
            out["empty_len"].append("_EmptyLocation.length is not `return 0`")
        if any(isinstance(fn, ast.FunctionDef) and fn.name == "__len__" for fn in ecls.body):
            out["empty_len"].append("_EmptyLocation defines __len__")
        root = module_of(repo, "__init__.py")
        if src_of(body_no_doc(find_func(find_class(root, "AbstractLocation"), "__len__"))) != canon("return self.length"):
            out["empty_len"].append("AbstractLocation.__len__ is not `return self.length`")
        ccls = find_class(mod, "CompoundInterval")
        if src_of(body_no_doc(find_func(ccls, "is_empty"))) != canon("return self == EmptyLocation()"):
            out["parentless_ci"].append("CompoundInterval.is_empty is not `self == EmptyLocation()`")
        eq = body_no_doc(find_func(ccls, "__eq__"))
        if not eq or ast.dump(eq[0]) != ast.dump(ast.parse("if type(other) is not CompoundInterval:\n    return False").body[0]):
            out["parentless_ci"].append("CompoundInterval.__eq__ does not start with the type test")
        for fn in ccls.body:
            if isinstance(fn, ast.FunctionDef) and fn.name != "__init__":
                for nd in ast.walk(fn):
                    if isinstance(nd, ast.Attribute) and isinstance(nd.ctx, ast.Store) and nd.attr == "parent":
                        out["parentless_ci"].append(f"CompoundInterval.{fn.name} assigns .parent")
    except Exception as e:  # noqa
        for k in out:
            out[k].append(f"{type(e).__name__}: {e}")
    return out


def module_imports(mod):
    """name -> module for the module-level `from M import a, b` statements"""
    out = {}
    for node in mod.body:
        if isinstance(node, ast.ImportFrom) and node.level == 0:
            for a in node.names:
                out[a.asname or a.name] = node.module
    return out


def parentless_guards(repo):
    """facts about parent-less SingleIntervals that the `parentless` view decides statically"""
    bad = []
    try:
        root = find_class(module_of(repo, "__init__.py"), "AbstractLocation")
        if src_of(body_no_doc(find_func(root, "parent_id"))) != canon("return self.parent.id if self.parent else None"):
            bad.append("AbstractLocation.parent_id is not `self.parent.id if self.parent else None`")
        scls = find_class(module_of(repo, "location/location_impl.py"), "SingleInterval")
        if src_of(body_no_doc(find_func(scls, "is_empty"))) != canon("return self == EmptyLocation()"):
            bad.append("SingleInterval.is_empty is not `self == EmptyLocation()`")
        eq = body_no_doc(find_func(scls, "__eq__"))
        if not eq or ast.dump(eq[0]) != ast.dump(ast.parse("if type(other) is not SingleInterval:\n    return False").body[0]):
            bad.append("SingleInterval.__eq__ does not start with the type test")
        init = [ast.dump(x) for x in find_func(scls, "__init__").body]
        if canon("self.parent = None") not in init:
            bad.append("SingleInterval.__init__ does not set self.parent = None")
        for fn in scls.body:
            if isinstance(fn, ast.FunctionDef) and fn.name != "__init__":
                for nd in ast.walk(fn):
                    if isinstance(nd, ast.Attribute) and isinstance(nd.ctx, ast.Store) and nd.attr == "parent":
                        bad.append(f"SingleInterval.{fn.name} assigns .parent")
    except Exception as e:  # noqa
        bad.append(f"{type(e).__name__}: {e}")
    return bad


def exc_subclasses(repo):
    """name -> set of names of its (transitive) subclasses declared in exc.py"""
    sub = {}
    try:
        mod = module_of(repo, "exc.py")
    except Exception:  # noqa
        return None
    parents = {}
    for node in mod.body:
        if isinstance(node, ast.ClassDef):
            parents[node.name] = [b.id for b in node.bases if isinstance(b, ast.Name)]
    def ancestors(c, seen=()):
        out = set()
        for b in parents.get(c, []):
            if b not in seen:
                out.add(b)
                out |= ancestors(b, seen + (c,))
        return out
    for c in parents:
        for a in ancestors(c):
            sub.setdefault(a, set()).add(c)
    return sub


class _Rebind(ast.stmt):
    """marker: end of a block in which an Optional local was narrowed to its value; rebinds it as `some value`"""
    _fields = ()


class _EndTry(ast.stmt):
    """marker: end of the statements of a `try` body that must be unable to raise"""
    _fields = ()


class K:
    """Compiler state for one kernel."""

    def __init__(self, spec, modconsts, cls=None, excsub=None, imports=None):
        self.spec = spec
        self.types = dict(spec["args"])
        self.ret = spec["ret"]
        self.consts = modconsts
        self.tmp = 0
        self.opaque = set()
        # loop fragment
        self.cls = cls                 # enclosing ClassDef (for the lazily-cached-attribute check)
        self.excsub = excsub           # exc.py subclass table
        self.loops = bool(spec.get("loops"))
        self.fixed = dict(spec.get("fixed", {}))
        self.fixed.update(spec.get("pinned", {}))   # parameters pinned to the literal every translated caller passes
        self.imports = imports or {}
        self.aux = []                  # auxiliary definitions (loop functions) emitted before the kernel
        self.ctx = []                  # stack of enclosing loops
        self.nloops = 0
        self.pure = 0                  # > 0: inside the must-not-raise part of a try body
        self.tail = None               # source text of the statements after the cut

    def fresh(self):
        self.tmp += 1
        return f"t{self.tmp}"

    # -- expressions: returns (binds, code, type); binds = [(name, effectful code)]
    def expr(self, n):
        if isinstance(n, ast.Constant):
            if isinstance(n.value, bool):
                return [], ("true" if n.value else "false"), "Bool"
            if isinstance(n.value, int):
                return [], (f"({n.value} : Int)"), "Int"
            if isinstance(n.value, str):
                return [], lean_chars(n.value), "Sym"
            if n.value is None:
                return [], "none", "None"
            raise Unsupported(f"constant {n.value!r}")
        if isinstance(n, ast.Set):
            vals = const_eval(n)
            if not all(isinstance(v, int) for v in vals):
                raise Unsupported("set literal")
            return [], "([" + ", ".join(f"(({v} : Int), ({v} : Int))" for v in vals) + "] : RangeSet)", "RangeSet"
        if isinstance(n, ast.Name):
            if n.id in self.fixed:
                return [], ("True" if self.fixed[n.id] else "False"), "Prop"     # parameter pinned to its default
            if n.id in self.types:
                if self.types[n.id] == "Opt:Int" and ("#narrow:" + n.id) in self.types:
                    return [], self.types["#narrow:" + n.id], "Int"      # known to hold that int on this path
                return [], lname(n.id), self.types[n.id]
            if n.id in self.consts and isinstance(self.consts[n.id], int):
                return [], f"({self.consts[n.id]} : Int)", "Int"
            raise Unsupported(f"name {n.id}")
        if isinstance(n, ast.Attribute):
            # enum member
            if isinstance(n.value, ast.Name) and n.value.id in ENUMS and n.attr in ENUMS[n.value.id]:
                return [], ENUMS[n.value.id][n.attr], n.value.id
            chain = attr_chain(n)
            if chain and chain[0] in self.types:
                t = self.types[chain[0]]
                if t == "SI" and len(chain) == 2 and chain[1] in ("start", "end", "strand", "length"):
                    if chain[1] == "length":
                        return [], f"({chain[0]}.«end» - {chain[0]}.start)", "Int"
                    fld = "«end»" if chain[1] == "end" else chain[1]
                    return [], f"{chain[0]}.{fld}", ("Strand" if chain[1] == "strand" else "Int")
                if t in ("CDSFrame", "CDSPhase", "Strand") and chain[1:] == ["value"]:
                    return [], f"{chain[0]}.value", "Int"
                if t == "SI" and len(chain) == 2 and self.spec.get("parentless"):
                    if chain[1] in ("parent", "parent_id"):
                        return [], "none", "None"
                    if chain[1] == "is_empty":
                        return [], "False", "Prop"
                if t == "CI" and len(chain) == 2 and self.spec.get("parentless") \
                        and chain[1] in ("parent", "parent_id", "is_empty"):
                    if GUARD_FAILS.get("parentless_ci"):
                        raise Unsupported("parent-less CI view: " + "; ".join(GUARD_FAILS["parentless_ci"]))
                    return ([], "none", "None") if chain[1] != "is_empty" else ([], "False", "Prop")
                if t == "CI" and len(chain) == 2 and chain[1] in CI_ATTRS:
                    proj, pt = CI_ATTRS[chain[1]]
                    return [], f"{lname(chain[0])}.{proj}", pt
                if t == "CDSV" and tuple(chain[1:]) in CDSV_ATTRS:
                    proj, pt = CDSV_ATTRS[tuple(chain[1:])]
                    return [], f"{lname(chain[0])}.{proj}", pt
                if t == "CDSV" and len(chain) == 3 and chain[1] == "chromosome_location" and chain[2] in CI_ATTRS:
                    proj, pt = CI_ATTRS[chain[2]]
                    return [], f"{lname(chain[0])}.chromosome_location.{proj}", pt
                if t == "VI":
                    if chain[1:] == ["chromosome_location", "start"]:
                        return [], f"{chain[0]}.vstart", "Int"
                    if chain[1:] == ["chromosome_location", "end"]:
                        return [], f"{chain[0]}.vend", "Int"
                    if chain[1:] == ["length_difference"]:
                        k2 = self.spec.get("inline", {}).get("length_difference")
                        if k2 is None:
                            raise Unsupported("length_difference not inlinable")
                        return [], k2.replace("self", chain[0]), "Int"
            raise Unsupported(f"attribute {ast.unparse(n)}")
        if isinstance(n, ast.UnaryOp):
            b, c, t = self.expr(n.operand)
            if isinstance(n.op, ast.USub) and t == "Int":
                return b, f"(-{c})", "Int"
            if isinstance(n.op, ast.Not):
                if self.loops and not b and c in ("True", "False") and t == "Prop":
                    return [], ("False" if c == "True" else "True"), "Prop"
                return b, f"(¬ {self.as_prop(c, t)})", "Prop"
            raise Unsupported("unary op")
        if isinstance(n, ast.BinOp):
            bl, cl, tl = self.expr(n.left)
            if isinstance(n.op, (ast.FloorDiv, ast.Mod, ast.RShift, ast.LShift)):
                try:
                    rv = const_eval(n.right, self.consts)
                except Unsupported:
                    raise Unsupported("// % >> << need a positive literal / named-constant right operand")
                if not isinstance(rv, int) or rv <= 0 or tl != "Int":
                    raise Unsupported("// % >> << need a positive int right operand")
                if isinstance(n.op, ast.FloorDiv):
                    return bl, f"({cl} / {rv})", "Int"
                if isinstance(n.op, ast.Mod):
                    return bl, f"({cl} % {rv})", "Int"
                if isinstance(n.op, ast.RShift):
                    return bl, f"({cl} / {2 ** rv})", "Int"
                return bl, f"({cl} * {2 ** rv})", "Int"
            br, cr, tr = self.expr(n.right)
            if self.loops and isinstance(n.op, ast.Add) and tl == tr and tl.startswith("List:"):
                return bl + br, f"({cl} ++ {cr})", tl
            bl, cl, tl = self.as_int(bl, cl, tl)
            br, cr, tr = self.as_int(br, cr, tr)
            if tl != "Int" or tr != "Int":
                raise Unsupported(f"binop on {tl},{tr}")
            op = {ast.Add: "+", ast.Sub: "-", ast.Mult: "*"}.get(type(n.op))
            if not op:
                raise Unsupported(f"binop {type(n.op).__name__}")
            return bl + br, f"({cl} {op} {cr})", "Int"
        if isinstance(n, ast.BoolOp):
            parts = [self.expr(v) for v in n.values]
            binds = sum((p[0] for p in parts), [])
            if binds:
                raise Unsupported("effectful operand of and/or")
            op = " ∧ " if isinstance(n.op, ast.And) else " ∨ "
            if self.loops:
                props = [self.as_prop(p[1], p[2]) for p in parts]
                absorbing, neutral = ("False", "True") if isinstance(n.op, ast.And) else ("True", "False")
                if absorbing in props:
                    return [], absorbing, "Prop"         # (no operand has an effect: binds is empty)
                props = [x for x in props if x != neutral]
                if not props:
                    return [], neutral, "Prop"
                if len(props) == 1:
                    return [], props[0], "Prop"
                return [], "(" + op.join(props) + ")", "Prop"
            return [], "(" + op.join(self.as_prop(p[1], p[2]) for p in parts) + ")", "Prop"
        if isinstance(n, ast.Compare) and len(n.ops) == 1 and isinstance(n.ops[0], ast.Is) \
                and isinstance(n.left, ast.Call) and getattr(n.left.func, "id", "") == "type" and len(n.left.args) == 1 \
                and isinstance(n.left.args[0], ast.Name) and self.types.get(n.left.args[0].id) == "SI" \
                and isinstance(n.comparators[0], ast.Name) and n.comparators[0].id == "SingleInterval":
            return [], "True", "Prop"      # static type of the argument
        if isinstance(n, ast.Compare) and len(n.ops) == 1 and isinstance(n.ops[0], ast.Is) \
                and isinstance(n.left, ast.Call) and getattr(n.left.func, "id", "") == "type" and len(n.left.args) == 1 \
                and isinstance(n.left.args[0], ast.Name) and self.types.get(n.left.args[0].id) == "CI" \
                and isinstance(n.comparators[0], ast.Name) and n.comparators[0].id == "SingleInterval" \
                and self.spec.get("parentless"):
            return [], "False", "Prop"     # static type of the argument (a CompoundInterval)
        if isinstance(n, ast.Compare):
            binds, items = [], []
            for e in [n.left] + n.comparators:
                b, c, t = self.expr(e) if not isinstance(e, (ast.List, ast.Tuple)) else ([], e, "ListLit")
                binds += b
                items.append((c, t))
            conj = []
            for i, op in enumerate(n.ops):
                (a, ta), (b_, tb) = items[i], items[i + 1]
                if isinstance(op, (ast.In, ast.NotIn)):
                    if tb != "ListLit":
                        raise Unsupported("in needs a list literal")
                    alts = []
                    for e in b_.elts:
                        _, ce, te = self.expr(e)
                        alts.append(f"{a} = {ce}")
                    c = "(" + " ∨ ".join(alts) + ")"
                    conj.append(c if isinstance(op, ast.In) else f"(¬ {c})")
                    continue
                if self.loops and isinstance(op, (ast.Is, ast.IsNot, ast.Eq, ast.NotEq)) and "None" in (ta, tb) \
                        and {ta, tb} <= {"None", "Opt:Int", "Int"}:
                    # `x is None` on an Optional[int] local; on a value known to be an int the test is decided
                    neg = isinstance(op, (ast.IsNot, ast.NotEq))
                    other_c, other_t = (a, ta) if tb == "None" else (b_, tb)
                    if other_t == "None":
                        conj.append("False" if neg else "True")
                    elif other_t == "Int":
                        conj.append("True" if neg else "False")
                    else:
                        conj.append(f"({other_c} {'≠' if neg else '='} none)")
                    continue
                if self.loops and isinstance(op, (ast.Eq, ast.NotEq)) and {ta, tb} == {"Opt:Int", "Int"}:
                    # None == <int> is False, otherwise the ints are compared
                    o, i = (a, b_) if ta == "Opt:Int" else (b_, a)
                    conj.append(f"({o} {'=' if isinstance(op, ast.Eq) else '≠'} some {i})")
                    continue
                if self.loops and isinstance(op, (ast.Lt, ast.LtE, ast.Gt, ast.GtE)) and "Opt:Int" in (ta, tb):
                    # ordering against None raises TypeError: unwrap first
                    binds, a, ta = self.as_int(binds, a, ta)
                    binds, b_, tb = self.as_int(binds, b_, tb)
                    items[i], items[i + 1] = (a, ta), (b_, tb)
                if self.loops and isinstance(op, (ast.Is, ast.IsNot, ast.Eq, ast.NotEq)) and ta == "Prop" \
                        and a in ("True", "False") and tb == "Bool" and b_ in ("true", "false"):
                    # a parameter pinned to a bool literal against `True` / `False`: decided statically
                    same = (a == "True") == (b_ == "true")
                    conj.append("True" if same != isinstance(op, (ast.IsNot, ast.NotEq)) else "False")
                    continue
                if ta == "None" or tb == "None":
                    raise Unsupported("comparison with None")
                if ta != tb and not ({ta, tb} <= {"Int"}):
                    raise Unsupported(f"comparison of {ta} with {tb}")
                sym = {ast.Eq: "=", ast.NotEq: "≠", ast.Lt: "<", ast.LtE: "≤", ast.Gt: ">", ast.GtE: "≥",
                       ast.Is: "=", ast.IsNot: "≠"}[type(op)]
                if sym in "<≤>≥" and ta != "Int":
                    raise Unsupported("ordering on non-int")
                conj.append(f"({a} {sym} {b_})")
            if self.loops and len(conj) == 1 and conj[0] in ("True", "False"):
                return binds, conj[0], "Prop"
            return binds, "(" + " ∧ ".join(conj) + ")", "Prop"
        if isinstance(n, ast.IfExp):
            bt, ct, tt = self.expr(n.test)
            if self.loops and not bt and tt == "Prop" and ct in ("True", "False"):
                return self.expr(n.body if ct == "True" else n.orelse)     # only the branch taken is evaluated
            ba, ca, ta = self.expr(n.body)
            bb, cb, tb = self.expr(n.orelse)
            if bt or ba or bb:
                raise Unsupported("effectful conditional expression")
            if ta != tb:
                raise Unsupported("conditional expression branches differ in type")
            return [], f"(if {self.as_prop(ct, tt)} then {ca} else {cb})", ta
        if self.loops and isinstance(n, ast.List) and n.elts:
            parts = [self.expr(e) for e in n.elts]
            ts = {p_[2] for p_ in parts}
            if len(ts) != 1 or lean_type("List:" + parts[0][2]) is None:
                raise Unsupported(f"list literal of {sorted(ts)}")
            return sum((p_[0] for p_ in parts), []), "[" + ", ".join(p_[1] for p_ in parts) + "]", "List:" + parts[0][2]
        if self.loops and isinstance(n, ast.ListComp):
            if len(n.generators) != 1 or n.generators[0].ifs or n.generators[0].is_async:
                raise Unsupported("list comprehension: one `for` clause without conditions")
            gen = n.generators[0]
            bi, ci, ti = self.expr(gen.iter)
            pat, targets = self.loop_target(gen.target, ti)
            saved = dict(self.types)
            for nm, _ in targets:
                if nm in saved:
                    raise Unsupported(f"comprehension variable {nm} shadows a local")
            self.types.update(targets)
            try:
                be, ce, te = self.expr(n.elt)
            finally:
                self.types = saved
            if be or lean_type("List:" + te) is None:
                raise Unsupported("list comprehension with an effectful element")
            return bi, f"(List.map (fun {pat} => {ce}) {ci})", "List:" + te
        if self.loops and isinstance(n, ast.Subscript) and isinstance(n.slice, ast.Slice):
            b, c, t = self.expr(n.value)
            if not t.startswith("List:"):
                raise Unsupported(f"slice of {t}")
            sl = n.slice
            def is_m1(x):
                return isinstance(x, ast.UnaryOp) and isinstance(x.op, ast.USub) and isinstance(x.operand, ast.Constant) \
                    and x.operand.value == 1
            if sl.lower is None and is_m1(sl.upper) and sl.step is None:
                return b, f"{c}.dropLast", t            # xs[:-1]
            if sl.lower is None and sl.upper is None and is_m1(sl.step):
                return b, f"{c}.reverse", t             # xs[::-1]
            raise Unsupported(f"slice {ast.unparse(n)}")
        if self.loops and isinstance(n, ast.Subscript) and isinstance(n.value, ast.Name) \
                and self.types.get(n.value.id, "").startswith("Pair:") and isinstance(n.slice, ast.Constant) \
                and not isinstance(n.slice.value, bool) and n.slice.value in (0, 1):
            parts = self.types[n.value.id].split(":")[1:]
            if len(parts) == 2:
                return [], f"{lname(n.value.id)}.{n.slice.value + 1}", parts[n.slice.value]      # p[0] / p[1] of a 2-tuple
        if self.loops and isinstance(n, ast.Subscript) and self.index_kind(n.slice):
            b, c, t = self.expr(n.value)
            if t.startswith("List:") and lean_type(t[5:]) is not None:
                tmp = self.fresh()
                fn = "listGetFirst" if self.index_kind(n.slice) == "first" else "listGetLast"
                return b + [(tmp, f"{fn} {c}")], tmp, t[5:]
        if isinstance(n, ast.Subscript):
            # int-keyed dict literal bound to a local name, or module-level dict keyed by a CoordFmt arg
            if isinstance(n.value, ast.Name) and n.value.id in self.types and self.types[n.value.id].startswith("Dict:"):
                b, c, t = self.expr(n.slice)
                if t != "Int":
                    raise Unsupported("dict key type")
                tmp = self.fresh()
                return b + [(tmp, f"dictGet {self.types[n.value.id][5:]} {c}")], tmp, "Int"
            if isinstance(n.value, ast.Name) and n.value.id in self.consts and isinstance(self.consts[n.value.id], dict) \
                    and isinstance(n.slice, ast.Name) and self.types.get(n.slice.id) == "CoordFmt":
                d = self.consts[n.value.id]
                arms = " ".join(f"| .{k} => ({v} : Int)" for k, v in d.items())
                return [], f"(match {n.slice.id} with {arms})", "Int"
            raise Unsupported(f"subscript {ast.unparse(n)}")
        if isinstance(n, ast.Call) and self.ret == "LocOut" and self.loops:
            lo = self.locout_call(n)
            if lo is not None:
                return lo
        if isinstance(n, ast.Call) and self.spec.get("calls_pl"):
            pc = self.pl_call(n)
            if pc is not None:
                return pc
        if isinstance(n, ast.Call):
            f = n.func
            fname = f.id if isinstance(f, ast.Name) else None
            if fname in ("min", "max") and len(n.args) == 2:
                (ba, ca, ta), (bb, cb, tb) = self.expr(n.args[0]), self.expr(n.args[1])
                ba, ca, ta = self.as_int(ba, ca, ta)
                bb, cb, tb = self.as_int(bb, cb, tb)
                if ta != "Int" or tb != "Int":
                    raise Unsupported("min/max on non-int")
                return ba + bb, f"({fname} {ca} {cb})", "Int"
            if fname in ("min", "max") and len(n.args) == 1 and isinstance(n.args[0], ast.Name) \
                    and self.types.get(n.args[0].id) == "IntPair":
                nm = n.args[0].id
                return [], f"({fname} {nm}_0 {nm}_1)", "Int"
            if self.loops and fname in ("min", "max") and len(n.args) == 1 and not n.keywords \
                    and not (isinstance(n.args[0], ast.Name) and self.types.get(n.args[0].id) == "IntPair"):
                b, c, t = self.expr(n.args[0])
                if t != "List:Int":
                    raise Unsupported(f"{fname}() of {t}")
                tmp = self.fresh()
                return b + [(tmp, f"{'pyMinList' if fname == 'min' else 'pyMaxList'} {c}")], tmp, "Int"   # ValueError on []
            if fname == "abs":
                b, c, t = self.expr(n.args[0])
                return b, f"(pyAbs {c})", "Int"
            if fname == "len" and len(n.args) == 1:
                a = n.args[0]
                if isinstance(a, ast.Name) and self.types.get(a.id) == "SI":
                    return [], f"({a.id}.«end» - {a.id}.start)", "Int"
                if isinstance(a, ast.Name) and self.types.get(a.id) == "CI":
                    return [], f"{lname(a.id)}.length", "Int"
                ch = attr_chain(a)
                if ch and self.types.get(ch[0]) == "VI" and ch[1:] == ["sequence"]:
                    return [], f"{ch[0]}.seqLen", "Int"
                if ch and self.types.get(ch[0]) == "VI" and ch[1:] == ["chromosome_location"]:
                    return [], f"({ch[0]}.vend - {ch[0]}.vstart)", "Int"
                if self.spec.get("calls_pl"):
                    b, c, t = self.expr(a)
                    if t.startswith("List:") and lean_type(t) is not None:
                        return b, f"(({c}.length : Nat) : Int)", "Int"
                    if t == "SI":
                        return b, f"({c}.«end» - {c}.start)", "Int"
                    if t == "OptSI":
                        if GUARD_FAILS.get("empty_len"):
                            raise Unsupported("len(EmptyLocation()): " + "; ".join(GUARD_FAILS["empty_len"]))
                        return b, f"(optSILen {c})", "Int"
                raise Unsupported(f"len({ast.unparse(a)})")
            if self.loops and fname in ("reversed", "iter") and len(n.args) == 1 and not n.keywords:
                b, c, t = self.expr(n.args[0])
                if not t.startswith("List:"):
                    raise Unsupported(f"{fname}() of {t}")
                return b, (f"{c}.reverse" if fname == "reversed" else c), t
            if self.loops and fname == "zip" and len(n.args) == 2 and not n.keywords:
                (ba, ca, ta), (bb, cb, tb) = self.expr(n.args[0]), self.expr(n.args[1])
                if not (ta.startswith("List:") and tb.startswith("List:")) or ":" in ta[5:] or ":" in tb[5:]:
                    raise Unsupported(f"zip of {ta}, {tb}")
                return ba + bb, f"(List.zip {ca} {cb})", f"List:Pair:{ta[5:]}:{tb[5:]}"
            if self.loops and fname in ("tuple", "list") and len(n.args) == 1 and not n.keywords \
                    and isinstance(n.args[0], (ast.GeneratorExp, ast.ListComp)):
                g = n.args[0]       # tuple(<elt> for x in <list>): the same sequence as the list comprehension
                return self.expr(ast.ListComp(elt=g.elt, generators=g.generators))
            if self.loops and fname == "zip_longest" and len(n.args) == 2 and not n.keywords:
                # fillvalue defaults to None: List (Option a × Option b), NOT a zip (the lengths may differ)
                if self.imports.get("zip_longest") != "itertools":
                    raise Unsupported("zip_longest is not imported from itertools")
                (ba, ca, ta), (bb, cb, tb) = self.expr(n.args[0]), self.expr(n.args[1])
                if not (ta.startswith("List:") and tb.startswith("List:")) or ":" in ta[5:] or ":" in tb[5:]:
                    raise Unsupported(f"zip_longest of {ta}, {tb}")
                return ba + bb, f"(zipLongest {ca} {cb})", f"List:ZipL:{ta[5:]}:{tb[5:]}"
            if self.loops and fname == "sum" and len(n.args) == 1 and not n.keywords \
                    and isinstance(n.args[0], (ast.GeneratorExp, ast.ListComp)):
                g = n.args[0]
                if len(g.generators) != 1 or g.generators[0].ifs or g.generators[0].is_async:
                    raise Unsupported("sum(): one `for` clause without conditions")
                gen = g.generators[0]
                bi, ci, ti = self.expr(gen.iter)
                pat, targets = self.loop_target(gen.target, ti)
                saved = dict(self.types)
                for nm, _ in targets:
                    if nm in saved:
                        raise Unsupported(f"comprehension variable {nm} shadows a local")
                self.types.update(targets)
                try:
                    be, ce, te = self.expr(g.elt)
                finally:
                    self.types = saved
                if be or te != "Int":
                    raise Unsupported("sum() over an effectful or non-int element")
                return bi, f"(pySum (List.map (fun {pat} => {ce}) {ci}))", "Int"
            if self.loops and fname == "islice" and len(n.args) == 3 and not n.keywords:
                b, c, t = self.expr(n.args[0])
                k = n.args[1].value if isinstance(n.args[1], ast.Constant) else None
                if not t.startswith("List:") or not isinstance(k, int) or isinstance(k, bool) or k < 0 \
                        or not (isinstance(n.args[2], ast.Constant) and n.args[2].value is None):
                    raise Unsupported("islice(xs, k, None) needs a list and a literal k >= 0")
                return b, f"({c}.drop {k})", t
            if self.loops and fname == "any" and len(n.args) == 1 and not n.keywords \
                    and isinstance(n.args[0], ast.GeneratorExp):
                return self.any_genexp(n.args[0])
            if fname == "SingleInterval":
                args = [self.expr(a) for a in n.args[:3]]   # a 4th positional argument is the parent (not modelled)
                if len(args) != 3 or [a[2] for a in args] != ["Int", "Int", "Strand"]:
                    raise Unsupported("SingleInterval(...) arguments")
                for kw in n.keywords:
                    if kw.arg != "parent":
                        raise Unsupported("SingleInterval keyword")
                tmp = self.fresh()
                binds = sum((a[0] for a in args), [])
                return binds + [(tmp, f"mkSI {args[0][1]} {args[1][1]} {args[2][1]}")], tmp, "SI"
            if self.loops and fname == "CompoundInterval" and self.ret == "CombineOut" and len(n.args) in (3, 4) \
                    and not n.keywords:
                # CONSTRUCTOR CUT: the call's arguments are returned, `CompoundInterval.__init__` (sorting, validation)
                # is not translated.  The strand must be the receiver's own, the parent an opaque parent expression.
                (ba, ca, ta), (bb, cb, tb) = self.expr(n.args[0]), self.expr(n.args[1])
                if ba or bb or ta != "List:Int" or tb != "List:Int":
                    raise Unsupported("CompoundInterval(starts, ends, ...): starts/ends must be int lists")
                if attr_chain(n.args[2]) != ["self", "strand"] or self.types.get("self") != "CI":
                    raise Unsupported("CompoundInterval(...): strand must be self.strand")
                if len(n.args) == 4 and not (isinstance(n.args[3], ast.Name) and n.args[3].id in self.opaque):
                    raise Unsupported("CompoundInterval(...): parent argument")
                return [], f"(CombineOut.rebuilt {ca} {cb})", "CombineOut"
            if fname == "EmptyLocation" and not n.args:
                return [], "none", "None"
            if fname in ("CDSFrame", "CDSPhase") and len(n.args) == 1:
                b, c, t = self.expr(n.args[0])
                tmp = self.fresh()
                fn = "frameOfInt" if fname == "CDSFrame" else "phaseOfInt"
                return b + [(tmp, f"{fn} {c}")], tmp, fname
            if isinstance(f, ast.Attribute):
                ch = attr_chain(f)
                if ch in (["CDSFrame", "from_int"], ["CDSPhase", "from_int"]) and len(n.args) == 1:
                    b, c, t = self.expr(n.args[0])
                    tmp = self.fresh()
                    fn = "frameOfInt" if ch[0] == "CDSFrame" else "phaseOfInt"
                    return b + [(tmp, f"{fn} {c}")], tmp, ch[0]
                if ch and len(ch) == 3 and self.types.get(ch[0]) == "SI" and ch[1:] == ["strand", "reverse"] and not n.args:
                    if "Strand_reverse" not in EMITTED:
                        raise Unsupported("Strand_reverse not generated")
                    tmp = self.fresh()
                    return [(tmp, f"Strand_reverse {ch[0]}.strand")], tmp, "Strand"
                if ch and len(ch) == 2 and self.types.get(ch[0]) == "SI" and ch[1] == "has_overlap" \
                        and self.spec.get("calls_si_has_overlap"):
                    # b.has_overlap(other, match_strand, full_span=False) on parent-less SingleIntervals
                    kname = "SingleInterval_has_overlap"
                    if kname not in EMITTED:
                        raise Unsupported(f"{kname} not generated before its caller")
                    if len(n.args) != 2 or [kw.arg for kw in n.keywords] != ["full_span"] \
                            or not isinstance(n.keywords[0].value, ast.Constant) or n.keywords[0].value.value is not False:
                        raise Unsupported("has_overlap: expected (other, match_strand, full_span=False)")
                    (bo, co, to), (bm, cm, tm) = self.expr(n.args[0]), self.expr(n.args[1])
                    if to != "SI" or tm not in ("Bool", "Prop"):
                        raise Unsupported(f"has_overlap arguments: {to}, {tm}")
                    if tm == "Prop":
                        cm = f"(decide {cm})"
                    tmp = self.fresh()
                    return bo + bm + [(tmp, f"{kname} {lname(ch[0])} {co} {cm}")], tmp, "Bool"
                if ch and len(ch) == 2 and self.types.get(ch[0]) == "CDSV" and ch[1] in CDSV_METHODS:
                    # self._exon_iter(False): the callee kernel is the view with its parameters pinned to these literals
                    kname, rty = CDSV_METHODS[ch[1]]
                    if kname not in EMITTED:
                        raise Unsupported(f"{kname} not generated before its caller")
                    callee = next(k_ for k_ in KERNELS if k_["name"] == kname)
                    pinned = callee.get("pinned", {})
                    if callee["cls"] != self.spec["cls"] or callee["fn"] != ch[1]:
                        raise Unsupported(f"{ch[1]} is not a method of {self.spec['cls']}")
                    if n.keywords or len(n.args) != len(pinned):
                        raise Unsupported(f"{ch[1]}: expected {len(pinned)} positional literal argument(s)")
                    for a_, pv in zip(n.args, pinned.values()):
                        if not (isinstance(a_, ast.Constant) and a_.value is pv):
                            raise Unsupported(f"{ch[1]}: argument {ast.unparse(a_)} is not the pinned literal {pv}")
                    if RAISES.get(kname, True):
                        # a generator runs lazily: an exception after the first yield would interleave with the consumer
                        raise Unsupported(f"{kname} can raise: consuming it eagerly would not be faithful")
                    tmp = self.fresh()
                    return [(tmp, f"{kname} {lname(ch[0])}")], tmp, rty
                if ch and len(ch) == 2 and self.types.get(ch[0]) == "CI" and ch[1] in CI_METHODS:
                    kname, atys, rty = CI_METHODS[ch[1]]
                    if kname not in EMITTED:
                        raise Unsupported(f"{kname} not generated before its caller")
                    actual = list(n.args)
                    pnames = CI_METHOD_PARAMS.get(ch[1], [])
                    for kw in n.keywords:     # keywords in declaration order directly after the positional arguments
                        if len(actual) >= len(pnames) or kw.arg != pnames[len(actual)]:
                            raise Unsupported(f"keyword argument {kw.arg} of {ch[1]}")
                        actual.append(kw.value)
                    args = [self.expr(a) for a in actual]
                    args = [(b, (c if t != "Prop" else f"(decide {c})"), ("Bool" if t == "Prop" else t)) for b, c, t in args]
                    if [a[2] for a in args] != atys:
                        raise Unsupported(f"arguments of {ch[1]}: {[a[2] for a in args]}")
                    tmp = self.fresh()
                    binds = sum((a[0] for a in args), [])
                    return binds + [(tmp, " ".join([kname, lname(ch[0])] + [a[1] for a in args]))], tmp, rty
                if ch and len(ch) == 2 and self.types.get(ch[0]) == "SI":
                    meth = dict(SI_METHODS)
                    if self.spec.get("calls_has_overlap"):
                        meth["has_overlap"] = ("SingleInterval_has_overlap_single_interval", ["SI"], "Bool")
                    if ch[1] in meth and not n.keywords:
                        kname, atys, rty = meth[ch[1]]
                        if kname not in EMITTED:
                            raise Unsupported(f"{kname} not generated before its caller")
                        args = [self.expr(a) for a in n.args]
                        if [a[2] for a in args] != atys:
                            raise Unsupported(f"arguments of {ch[1]}: {[a[2] for a in args]}")
                        tmp = self.fresh()
                        binds = sum((a[0] for a in args), [])
                        return binds + [(tmp, " ".join([kname, ch[0]] + [a[1] for a in args]))], tmp, rty
                if self.loops and f.attr == "shift" and len(n.args) == 1 and not n.keywords:
                    ba, ca, ta = self.expr(f.value)
                    bb, cb, tb = self.expr(n.args[0])
                    if ta == "CDSFrame" and tb == "Int":
                        if "CDSFrame_shift" not in EMITTED:
                            raise Unsupported("CDSFrame_shift not generated before its caller")
                        tmp = self.fresh()
                        return ba + bb + [(tmp, f"CDSFrame_shift {ca} {cb}")], tmp, "CDSFrame"
                if f.attr == "relative_to" and len(n.args) == 1:
                    ba, ca, ta = self.expr(f.value)
                    bb, cb, tb = self.expr(n.args[0])
                    if ta == "Strand" and tb == "Strand":
                        tmp = self.fresh()
                        return ba + bb + [(tmp, f"Strand_relative_to {ca} {cb}")], tmp, "Strand"
            raise Unsupported(f"call {ast.unparse(n)[:60]}")
        raise Unsupported(f"expression {type(n).__name__}")

    def int_list(self, e):
        """a tuple/list literal of ints, or a List:Int expression -> (binds, code)"""
        if isinstance(e, (ast.Tuple, ast.List)) and e.elts:
            parts = [self.expr(x) for x in e.elts]
            if any(p_[2] != "Int" for p_ in parts):
                raise Unsupported("starts/ends literal must hold ints")
            return sum((p_[0] for p_ in parts), []), "[" + ", ".join(p_[1] for p_ in parts) + "]"
        b, c, t = self.expr(e)
        if t != "List:Int":
            raise Unsupported(f"starts/ends of type {t}")
        return b, c

    def check_parent_expr(self, e):
        """a parent argument of a constructor: not modelled; must be None, an opaque parent local or `<typed>.parent`"""
        if isinstance(e, ast.Constant) and e.value is None:
            return
        if isinstance(e, ast.Name) and e.id in self.opaque:
            return
        ch = attr_chain(e)
        if ch and len(ch) == 2 and ch[1] == "parent" and self.types.get(ch[0]) in ("SI", "CI"):
            return
        raise Unsupported(f"parent argument {ast.unparse(e)}")

    def locout_call(self, n):
        """CONSTRUCTOR CUT for kernels returning `LocOut`: `CompoundInterval(starts, ends, strand[, parent])` and
        `CompoundInterval._from_single_intervals_no_validation(blocks)`, each optionally followed by
        `.optimize_blocks()`, stay symbolic (their arguments are evaluated).  None when `n` is not of that shape."""
        opt, inner = False, n
        if isinstance(n.func, ast.Attribute) and n.func.attr == "optimize_blocks" and not n.args and not n.keywords \
                and isinstance(n.func.value, ast.Call):
            opt, inner = True, n.func.value
        f = inner.func
        flag = "true" if opt else "false"
        if isinstance(f, ast.Name) and f.id == "CompoundInterval":
            args = list(inner.args)
            kws = {k.arg: k.value for k in inner.keywords}
            if len(args) not in (3, 4) or set(kws) - {"parent"} or (len(args) == 4 and kws):
                raise Unsupported("CompoundInterval(starts, ends, strand[, parent])")
            parent = args[3] if len(args) == 4 else kws.get("parent")
            if parent is not None:
                self.check_parent_expr(parent)
            (b1, c1), (b2, c2) = self.int_list(args[0]), self.int_list(args[1])
            b3, c3, t3 = self.expr(args[2])
            if t3 != "Strand":
                raise Unsupported("CompoundInterval(...): strand argument")
            return b1 + b2 + b3, f"(LocOut.compound {c1} {c2} {c3} {flag})", "LocOut"
        if attr_chain(f) == ["CompoundInterval", "from_single_intervals"] and len(inner.args) == 1 and not inner.keywords:
            # the validating classmethod: hand-written `fromSingleIntervalsCheck` (GenPrelude), pinned to the source
            if GUARD_FAILS.get("from_single_intervals"):
                raise Unsupported("from_single_intervals: " + "; ".join(GUARD_FAILS["from_single_intervals"]))
            b, c, t = self.expr(inner.args[0])
            if t != "List:SI":
                raise Unsupported(f"from_single_intervals of {t}")
            tmp = self.fresh()
            return b + [(tmp, f"fromSingleIntervalsCheck {c}")], f"(LocOut.fromBlocks {tmp} {flag})", "LocOut"
        if attr_chain(f) == ["CompoundInterval", "_from_single_intervals_no_validation"] and len(inner.args) == 1 \
                and not inner.keywords:
            b, c, t = self.expr(inner.args[0])
            if t != "List:SI":
                raise Unsupported(f"_from_single_intervals_no_validation of {t}")
            return b, f"(LocOut.fromBlocks {c} {flag})", "LocOut"
        return None

    def pl_call(self, n):
        """method call of the parent-less set algebra (`calls_pl` kernels); None when not applicable"""
        f = n.func
        if not isinstance(f, ast.Attribute):
            return None
        if isinstance(f.value, ast.Name):
            if f.value.id not in self.types:
                return None
            rb, rc, rt = [], lname(f.value.id), self.types[f.value.id]
        elif isinstance(f.value, ast.Call):
            rb, rc, rt = self.expr(f.value)
        else:
            return None
        cands = PL_METHODS.get((rt, f.attr))
        if cands is None:
            return None
        callee_name = None
        if None in cands:
            callee_name = cands[None]
        else:
            if not n.args:
                raise Unsupported(f"{f.attr}: first argument must be positional")
            _, _, t0 = self.expr(n.args[0])
            callee_name = cands.get(t0)
            if callee_name is None:
                raise Unsupported(f"{rt}.{f.attr} with a {t0} argument has no kernel")
        if callee_name not in EMITTED:
            raise Unsupported(f"{callee_name} not generated before its caller")
        callee = next(k_ for k_ in KERNELS if k_["name"] == callee_name)
        if callee.get("pinned") or callee.get("head"):
            raise Unsupported(f"{callee_name}: view not callable here")
        mod = module_of(REPO[0], callee["file"])
        fn = find_func(find_class(mod, callee["cls"]) if callee["cls"] else mod, callee["fn"])
        params = [a.arg for a in fn.args.args][1:]
        if fn.args.kwonlyargs or fn.args.vararg or fn.args.kwarg:
            raise Unsupported(f"{callee_name}: signature")
        defaults = dict(zip(reversed(params), reversed(fn.args.defaults)))
        actual = dict(zip(params, n.args))
        if len(n.args) > len(params):
            raise Unsupported(f"{f.attr}: too many arguments")
        for kw in n.keywords:
            if kw.arg not in params or kw.arg in actual:
                raise Unsupported(f"{f.attr}: keyword {kw.arg}")
            actual[kw.arg] = kw.value
        modelled = dict(callee["args"][1:])
        fixed = callee.get("fixed", {})
        binds, codes = list(rb), []
        for p_ in params:
            e = actual.get(p_, defaults.get(p_))
            if e is None:
                raise Unsupported(f"{f.attr}: no value for parameter {p_}")
            if p_ in modelled:
                b, c, t = self.expr(e)
                if t == "Prop":
                    c, t = f"(decide {c})", "Bool"
                if t != modelled[p_]:
                    raise Unsupported(f"{f.attr}: parameter {p_} gets a {t}, the kernel takes {modelled[p_]}")
                binds += b
                codes.append(c)
            elif p_ in fixed:
                b, c, t = self.expr(e)
                val = {"true": True, "false": False, "True": True, "False": False}.get(c)
                if b or val is None or val is not fixed[p_]:
                    raise Unsupported(f"{f.attr}: parameter {p_} must statically be {fixed[p_]}")
            else:
                self.check_parent_expr(e)      # unmodelled parameter (a parent)
        if [a for a, _ in callee["args"][1:]] != [p_ for p_ in params if p_ in modelled]:
            raise Unsupported(f"{callee_name}: parameter order")
        tmp = self.fresh()
        return binds + [(tmp, " ".join([callee_name, rc] + codes))], tmp, callee["ret"]

    def as_prop(self, c, t):
        if t == "Prop":
            return c
        if t == "Bool":
            return f"({c} = true)"
        if self.loops and t.startswith("List:"):
            return f"({c} ≠ [])"
        if self.loops and t == "None":
            return "False"
        raise Unsupported(f"truthiness of {t}")

    def as_int(self, binds, c, t):
        """an Optional[int] operand of arithmetic / ordering / min / max: None raises TypeError"""
        if self.loops and t == "Opt:Int":
            tmp = self.fresh()
            return binds + [(tmp, f"optGet {c}")], tmp, "Int"
        return binds, c, t

    @staticmethod
    def index_kind(sl):
        """`0` -> "first", `-1` -> "last", anything else -> None"""
        if isinstance(sl, ast.Constant) and sl.value == 0 and not isinstance(sl.value, bool):
            return "first"
        if isinstance(sl, ast.UnaryOp) and isinstance(sl.op, ast.USub) and isinstance(sl.operand, ast.Constant) \
                and sl.operand.value == 1:
            return "last"
        return None

    def forget(self, name):
        self.types.pop("#narrow:" + name, None)

    # -- statements
    def wrap(self, binds, body):
        if binds and self.pure:
            raise Unsupported("a kernel call after the guarded call of a try body (it could raise inside the try)")
        for name, code in reversed(binds):
            body = f"(match {code} with\n | .error e => .error e\n | .ok {name} =>\n {body})"
        return body

    def ret_value(self, c, t):
        r = self.ret
        if r == "OptSI":
            if t == "None":
                return "(none : Option SI)"
            if t == "SI":
                return f"(some {c})"
        if r == "Bins":
            if t == "Int":
                return f"(BinsResult.one {c})"
            if t == "RangeSet":
                return f"(BinsResult.many {c})"
        if r == "RelOut" and t == "SI":
            return f"(RelOut.single {c})"
        if r == "CombineOut" and t == "CI" and c == "self":
            return "CombineOut.same"
        if r == "CombineOut" and t == "None":
            return "CombineOut.empty"
        if r == "LocOut":
            if t == "SI":
                return f"(LocOut.single {c})"
            if t == "None":
                return "LocOut.empty"
        if r == "Unit":
            return "(0 : Int)"
        if r == "Bool" and t == "Prop":
            return f"(decide {c})"
        if r == t:
            return c
        raise Unsupported(f"return of {t} where {r} expected")

    # -- loop fragment ---------------------------------------------------------------------------
    def state_tuple(self, names):
        if not names:
            return "()"
        if len(names) == 1:
            return lname(names[0])
        return "(" + ", ".join(lname(v) for v in names) + ")"

    def loop_recurse(self):
        c = self.ctx[-1]
        return " ".join([c["name"]] + [lname(v) for v in c["frees"]] + ["rest_"] + [lname(v) for v in c["state"]])

    def loop_done(self):
        return f".ok (.done {self.state_tuple(self.ctx[-1]['state'])})"

    def ok_return(self, value):
        return f".ok (.ret {value})" if self.ctx else f".ok {value}"

    def check_state_type(self, name, t):
        for c in self.ctx:
            if name in c["state"] and c["state_types"][c["state"].index(name)] != t:
                raise Unsupported(f"loop state variable {name} changes its type to {t}")
            if name in c["targets"]:
                raise Unsupported(f"loop variable {name} is reassigned in the body")

    @staticmethod
    def assigned_names(stmts):
        """names (re)bound by the statements, in order of first occurrence: assignment targets, receivers of .append"""
        out = []

        def add(nm):
            if nm not in out:
                out.append(nm)
        for st in stmts:
            for nd in ast.walk(st):
                if isinstance(nd, ast.Name) and isinstance(nd.ctx, ast.Store):
                    add(nd.id)
                elif isinstance(nd, ast.Subscript) and isinstance(nd.ctx, ast.Store) and isinstance(nd.value, ast.Name):
                    add(nd.value.id)
                elif isinstance(nd, ast.Call) and isinstance(nd.func, ast.Attribute) and nd.func.attr in ("append", "extend") \
                        and isinstance(nd.func.value, ast.Name):
                    add(nd.func.value.id)
        return out

    def any_genexp(self, g):
        if len(g.generators) != 1 or g.generators[0].ifs or g.generators[0].is_async:
            raise Unsupported("any(): one `for` clause without conditions")
        gen = g.generators[0]
        bi, ci, ti = self.expr(gen.iter)
        pat, targets = self.loop_target(gen.target, ti)
        saved = dict(self.types)
        for nm, _ in targets:
            if nm in saved:
                raise Unsupported(f"comprehension variable {nm} shadows a local")
        self.types.update(targets)
        try:
            be, ce, te = self.expr(g.elt)
        finally:
            self.types = saved
        if not be:
            if te not in ("Prop", "Bool"):
                raise Unsupported(f"any() over {te}")
            body = f"decide {ce}" if te == "Prop" else ce
            return bi, f"(List.any {ci} (fun {pat} => {body}))", "Bool"
        if te != "Bool":
            raise Unsupported(f"any() over an effectful element of type {te}")
        inner = self.wrap(be, f".ok {ce}")
        tmp = self.fresh()
        return bi + [(tmp, f"pyAny (fun {pat} =>\n {inner}) {ci}")], tmp, "Bool"

    def loop_target(self, target, iter_type):
        if not iter_type.startswith("List:"):
            raise Unsupported(f"iteration over {iter_type}")
        elem = iter_type[5:]
        if isinstance(target, ast.Name):
            if lean_type(elem) is None:
                raise Unsupported(f"loop element type {elem}")
            return lname(target.id), [(target.id, elem)]
        if isinstance(target, ast.Tuple) and elem.startswith("ZipL:") and len(target.elts) == 2 \
                and all(isinstance(e, ast.Name) for e in target.elts) and target.elts[0].id != target.elts[1].id:
            ets = ["Opt:" + x for x in elem.split(":")[1:]]
            return "(" + ", ".join(lname(e.id) for e in target.elts) + ")", [(e.id, t) for e, t in zip(target.elts, ets)]
        if isinstance(target, ast.Tuple) and elem.startswith("Pair:") and len(target.elts) == 2 \
                and all(isinstance(e, ast.Name) for e in target.elts) and target.elts[0].id != target.elts[1].id:
            ets = elem.split(":")[1:]
            return "(" + ", ".join(lname(e.id) for e in target.elts) + ")", [(e.id, t) for e, t in zip(target.elts, ets)]
        raise Unsupported("loop target")

    def for_loop(self, s, rest):
        if s.orelse:
            raise Unsupported("for ... else")
        if self.ctx:
            raise Unsupported("nested loop")
        if self.pure:
            raise Unsupported("loop inside a try body")
        bi, ci, ti = self.expr(s.iter)
        pat, targets = self.loop_target(s.target, ti)
        tnames = [nm for nm, _ in targets]
        for nm in tnames:
            if nm in self.types or nm in self.fixed:
                raise Unsupported(f"loop variable {nm} shadows a local")
        assigned = self.assigned_names(s.body)
        state = [v for v in assigned if v in self.types]
        used = {nd.id for st in s.body for nd in ast.walk(st) if isinstance(nd, ast.Name)}
        frees = [v for v in self.types if v in used and v not in state]
        for v in frees + state:
            if lean_type(self.types[v]) is None:
                raise Unsupported(f"local {v} of type {self.types[v]} is used inside a loop")
        self.nloops += 1
        name = f"{self.spec['name']}_loop{self.nloops}"
        saved = dict(self.types)
        stypes = [saved[v] for v in state]
        for v in state:
            saved.pop("#narrow:" + v, None)      # a state variable's value is not known across iterations
        self.types = dict(saved)
        self.types.update(targets)
        self.ctx.append(dict(name=name, frees=frees, state=state, state_types=stypes, targets=tnames))
        try:
            body = self.block(list(s.body))
        finally:
            self.ctx.pop()
            self.types = saved
        ret = lean_type(self.ret) if self.ret != "Unit" else "Int"
        sty = "Unit" if not state else " × ".join(lean_type(t) for t in stypes)
        sig = "".join(f" ({lname(v)} : {lean_type(saved[v])})" for v in frees)
        arrows = " → ".join([lean_type(ti)] + [lean_type(t) for t in stypes])
        pats = "".join(", " + lname(v) for v in state)
        self.aux.append(
            f"/-- loop {self.nloops} of {self.spec['name']}: `for {ast.unparse(s.target)} in {ast.unparse(s.iter)}`; "
            f"state = ({', '.join(state)}) -/\n"
            f"def {name}{sig} : {arrows} → PyR (LoopOut ({ret}) ({sty}))\n"
            f"  | []{pats} => .ok (.done {self.state_tuple(state)})\n"
            f"  | {pat} :: rest_{pats} =>\n{indent(body, 4)}\n")
        cont = self.block(rest)
        call = " ".join([name] + [lname(v) for v in frees] + [ci] + [lname(v) for v in state])
        return self.wrap(bi, f"(match {call} with\n | .error e => .error e\n | .ok (.ret r_) => .ok r_\n"
                             f" | .ok (.done {self.state_tuple(state)}) =>\n {cont})")

    def try_stmt(self, s, rest):
        if s.orelse or s.finalbody or len(s.handlers) != 1:
            raise Unsupported("try: exactly one except clause, no else/finally")
        h = s.handlers[0]
        if h.name or not isinstance(h.type, ast.Name) or h.type.id not in PYEXC or h.type.id == "KeyError":
            # (KeyError also stands for IndexError in `listSetLast`: a handler could not tell them apart)
            raise Unsupported("except clause must name one known exception class (not KeyError) without `as`")
        if self.pure:
            raise Unsupported("nested try")
        if self.excsub is None:
            raise Unsupported("exc.py not readable (exception hierarchy unknown)")
        caught = [h.type.id] + sorted(x for x in self.excsub.get(h.type.id, ()) if x in PYEXC)
        if not s.body:
            raise Unsupported("empty try")
        s1, srest = s.body[0], list(s.body[1:])
        if isinstance(s1, ast.AugAssign) and isinstance(s1.target, ast.Name):
            target, value = s1.target.id, ast.BinOp(left=ast.Name(id=s1.target.id, ctx=ast.Load()), op=s1.op, right=s1.value)
        elif isinstance(s1, ast.Assign) and len(s1.targets) == 1 and isinstance(s1.targets[0], ast.Name):
            target, value = s1.targets[0].id, s1.value
        else:
            raise Unsupported("try body must start with an assignment")
        b, c, t = self.expr(value)
        if len(b) != 1:
            raise Unsupported("the first statement of a try body must contain exactly one kernel call")
        tmp, call = b[0]
        lt = lean_type(t)
        if lt is None:
            raise Unsupported(f"try: assignment of {t}")
        self.check_state_type(target, t)
        saved = dict(self.types)
        self.forget(target)
        self.types[target] = t
        self.pure += 1
        try:
            okpath = f"let {lname(target)} : {lt} := {c}\n" + self.block(srest + [_EndTry()] + rest)
        finally:
            self.pure -= 1
        self.types = dict(saved)
        hpath = self.block(list(h.body) + rest)
        self.types = saved
        arms = "".join(f" | .error .{x} =>\n {hpath}\n" for x in caught)
        return f"(match {call} with\n{arms} | .error e => .error e\n | .ok {tmp} =>\n {okpath})"

    def join_if(self, s):
        """`if c: a = e1; b = e2 else: a = f1; b = f2` -> [(a, t, code), (b, t, code)] or None when not of that shape"""
        if not (self.loops and s.orelse):
            return None
        def plain(stmts):
            out = []
            for st in stmts:
                if not (isinstance(st, ast.Assign) and len(st.targets) == 1 and isinstance(st.targets[0], ast.Name)):
                    return None
                out.append((st.targets[0].id, st.value))
            return out
        a, b_ = plain(s.body), plain(s.orelse)
        if not a or not b_ or sorted(x for x, _ in a) != sorted(x for x, _ in b_) or len({x for x, _ in a}) != len(a):
            return None
        names = {x for x, _ in a}
        mentioned = {nd.id for e in [s.test] + [v for _, v in a] + [v for _, v in b_] for nd in ast.walk(e)
                     if isinstance(nd, ast.Name)}
        if names & mentioned:
            return None
        bt, ct, tt = self.expr(s.test)
        if bt or ct in ("True", "False"):
            return None
        other = dict(b_)
        out = []
        for nm, v in a:
            (b1, c1, t1), (b2, c2, t2) = self.expr(v), self.expr(other[nm])
            if t1 == "Prop":
                c1, t1 = f"(decide {c1})", "Bool"
            if t2 == "Prop":
                c2, t2 = f"(decide {c2})", "Bool"
            if b1 or b2 or t1 != t2 or lean_type(t1) is None:
                return None
            out.append((nm, t1, f"if {self.as_prop(ct, tt)} then {c1} else {c2}"))
        return out

    def none_guard(self, s, rest):
        """`if x is None [or y is None …]: <statements ending in raise/return/continue/break>` on Optional locals
        (other than the Optional[int] locals, which have their own treatment) -> a match: all `some` continues with
        the names narrowed to their values, anything else takes the guard's body.  None when not of that shape."""
        if not self.loops or s.orelse or not s.body or self.pure:
            return None
        tests = s.test.values if isinstance(s.test, ast.BoolOp) and isinstance(s.test.op, ast.Or) else [s.test]
        names = []
        for t in tests:
            if not (isinstance(t, ast.Compare) and len(t.ops) == 1 and isinstance(t.ops[0], ast.Is)
                    and isinstance(t.left, ast.Name) and isinstance(t.comparators[0], ast.Constant)
                    and t.comparators[0].value is None):
                return None
            ty = self.types.get(t.left.id, "")
            if not ty.startswith("Opt:") or ty == "Opt:Int" or t.left.id in names or lean_type(ty) is None:
                return None
            if any(t.left.id in c["state"] for c in self.ctx):
                return None
            names.append(t.left.id)
        if not isinstance(s.body[-1], (ast.Raise, ast.Return, ast.Continue, ast.Break)):
            return None
        saved = dict(self.types)
        handler = self.block(list(s.body))
        self.types = dict(saved)
        for nm in names:
            self.types[nm] = saved[nm][4:]
        try:
            okpath = self.block(rest)
        finally:
            self.types = saved
        pats = ", ".join(f"some {lname(nm)}" for nm in names)
        return (f"(match {', '.join(lname(nm) for nm in names)} with\n | {pats} =>\n {okpath}\n"
                f" | {', '.join('_' for _ in names)} =>\n {handler})")

    @staticmethod
    def is_none_expr(e):
        """`None` or the singleton `EmptyLocation()`"""
        return (isinstance(e, ast.Constant) and e.value is None) or (
            isinstance(e, ast.Call) and isinstance(e.func, ast.Name) and e.func.id == "EmptyLocation"
            and not e.args and not e.keywords)

    def some_guard(self, s, rest):
        """`if x is not None:` / `if x is not EmptyLocation():` on an Optional local (Option SI, Opt:T, T ≠ Int)
        -> `match x with | some x => body…  | none => orelse…` with `x` narrowed to its value in the body (the
        continuation is translated in both arms with `x` at its Optional type).  None when not of that shape."""
        t = s.test
        if not (self.loops and isinstance(t, ast.Compare) and len(t.ops) == 1 and isinstance(t.ops[0], ast.IsNot)
                and isinstance(t.left, ast.Name) and self.is_none_expr(t.comparators[0])):
            return None
        nm = t.left.id
        ty = self.types.get(nm, "")
        inner = "SI" if ty == "OptSI" else (ty[4:] if ty.startswith("Opt:") and ty != "Opt:Int" else None)
        if inner is None or any(nm in c["state"] or nm in c["targets"] for c in self.ctx):
            return None
        stores = [nd for st in s.body for nd in ast.walk(st) if isinstance(nd, ast.Name) and nd.id == nm
                  and isinstance(nd.ctx, ast.Store)]
        if stores:
            return None
        saved = dict(self.types)
        # the body sees the value; afterwards the name is Optional again (rebound from the value)
        self.types[nm] = inner
        fresh_v = self.fresh()
        body_stmts = list(s.body)
        try:
            some_arm = self.block_then(body_stmts, nm, ty, inner, rest)
        finally:
            self.types = dict(saved)
        none_arm = self.block(list(s.orelse) + rest)
        self.types = saved
        return f"(match {lname(nm)} with\n | some {lname(nm)} =>\n {some_arm}\n | none =>\n {none_arm})"

    def block_then(self, body, nm, opt_ty, inner, rest):
        """translate `body` with `nm : inner`, then `rest` with `nm` back at its Optional type"""
        marker = _Rebind()
        marker.name, marker.opt_ty = nm, opt_ty
        return self.block(body + [marker] + rest)

    def lazy_attribute(self, s, rest):
        """`if self.A is None: self.A = E` + `return self.A`  ->  E (see the module docstring), else None"""
        if not (self.loops and isinstance(s, ast.If) and not s.orelse and len(s.body) == 1 and rest
                and isinstance(rest[0], ast.Return) and self.cls is not None):
            return None
        t = s.test
        if not (isinstance(t, ast.Compare) and len(t.ops) == 1 and isinstance(t.ops[0], ast.Is)
                and isinstance(t.comparators[0], ast.Constant) and t.comparators[0].value is None):
            return None
        ch = attr_chain(t.left)
        if not ch or len(ch) != 2 or ch[0] != "self":
            return None
        a = s.body[0]
        if not (isinstance(a, ast.Assign) and len(a.targets) == 1 and attr_chain(a.targets[0]) == ch
                and attr_chain(rest[0].value) == ch):
            return None
        for fn in self.cls.body:
            if not isinstance(fn, ast.FunctionDef):
                continue
            for nd in ast.walk(fn):
                if isinstance(nd, (ast.Assign, ast.AugAssign, ast.AnnAssign, ast.Delete)):
                    tg = nd.targets if isinstance(nd, (ast.Assign, ast.Delete)) else [nd.target]
                    for x in tg:
                        for y in ast.walk(x):
                            if isinstance(y, ast.Attribute) and y.attr == ch[1] and nd is not a:
                                ok = fn.name == "__init__" and isinstance(nd, ast.Assign) \
                                    and isinstance(nd.value, ast.Constant) and nd.value.value is None
                                if not ok:
                                    raise Unsupported(f"cached attribute {ch[1]} is also assigned in {fn.name}")
        return a.value

    def block(self, stmts):
        if not stmts:
            if self.ctx:
                return self.loop_recurse()
            if self.spec.get("generator"):
                return ".ok yield_"
            raise Unsupported("control reaches the end of the function without return")
        s, rest = stmts[0], stmts[1:]
        if isinstance(s, _Rebind):
            self.types[s.name] = s.opt_ty
            return f"let {lname(s.name)} : {lean_type(s.opt_ty)} := some {lname(s.name)}\n" + self.block(rest)
        if isinstance(s, _EndTry):
            self.pure -= 1
            try:
                return self.block(rest)
            finally:
                self.pure += 1
        cut = self.spec.get("cut")
        if cut and ((cut.get("before_stmt") and ast.dump(s) == canon(cut["before_stmt"]))
                    or (cut.get("before_call") and any(
                        isinstance(nd, ast.Call) and isinstance(nd.func, ast.Attribute)
                        and nd.func.attr == cut["before_call"] for nd in ast.walk(s)))):
            if self.ctx or self.pure:
                raise Unsupported("cut inside a loop or try")
            for nm, ty in cut["returns"]:
                if self.types.get(nm) != ty:
                    raise Unsupported(f"cut: local {nm} has type {self.types.get(nm)}, expected {ty}")
            self.tail = [ast.unparse(x) for x in stmts]
            return ".ok (" + " ".join(([cut["ctor"]] if cut["ctor"] else []) + [lname(nm) for nm, _ in cut["returns"]]) + ")"
        lazy = self.lazy_attribute(s, rest)
        if lazy is not None:
            return self.block([ast.Return(value=lazy)])
        if isinstance(s, ast.Continue):
            if not self.ctx:
                raise Unsupported("continue outside a loop")
            return self.loop_recurse()
        if isinstance(s, ast.Break):
            if not self.ctx:
                raise Unsupported("break outside a loop")
            return self.loop_done()
        if isinstance(s, ast.Try) and self.loops:
            return self.try_stmt(s, rest)
        if isinstance(s, ast.Expr) and isinstance(s.value, ast.YieldFrom) and self.spec.get("generator"):
            if self.ctx or self.pure:
                raise Unsupported("yield from inside a loop or try")
            b, c, t = self.expr(s.value.value)
            if t != self.ret:
                raise Unsupported(f"yield from {t} in a generator of {self.ret}")
            return self.wrap(b, f"let yield_ : {lean_type(t)} := yield_ ++ {c}\n" + self.block(rest))
        if isinstance(s, ast.Expr) and isinstance(s.value, ast.Call) and self.loops:
            ch = attr_chain(s.value.func)
            if ch and len(ch) == 2 and ch[1] == "append" and self.types.get(ch[0], "").startswith("List:") \
                    and len(s.value.args) == 1 and not s.value.keywords:
                lt = self.types[ch[0]]
                b, c, t = self.expr(s.value.args[0])
                if t != lt[5:]:
                    raise Unsupported(f"append of {t} to {lt}")
                return self.wrap(b, f"let {lname(ch[0])} : {lean_type(lt)} := {lname(ch[0])} ++ [{c}]\n" + self.block(rest))
        if isinstance(s, ast.Expr):
            if isinstance(s.value, ast.Constant):   # docstring
                return self.block(rest)
            v = s.value
            if isinstance(v, ast.Call):
                ch = attr_chain(v.func)
                if ch and ch[0] == "ObjectValidation" and ch[1] == "require_object_has_type":
                    return self.block(rest)   # static typing of the argument
                if ch and ch[0] == "ObjectValidation" and ch[1] == "require_parents_equal_except_location" \
                        and self.spec.get("skip_parent_check"):
                    return self.block(rest)   # parent bookkeeping: not part of the integer kernel
                if ch and len(ch) == 3 and self.types.get(ch[0]) in ("SI", "CI") and ch[1:] == ["strand", "assert_directional"]:
                    if "Strand_assert_directional" not in EMITTED:
                        raise Unsupported("Strand_assert_directional not generated")
                    tmp = self.fresh()
                    return self.wrap([(tmp, f"Strand_assert_directional {ch[0]}.strand")], self.block(rest))
                # set.update(list(range(a, b)))
                if ch and len(ch) == 2 and ch[1] == "update" and self.types.get(ch[0]) == "RangeSet":
                    arg = v.args[0]
                    if isinstance(arg, ast.Call) and getattr(arg.func, "id", "") == "list":
                        arg = arg.args[0]
                    if isinstance(arg, ast.Call) and getattr(arg.func, "id", "") == "range" and len(arg.args) == 2:
                        (ba, ca, ta), (bb, cb, tb) = self.expr(arg.args[0]), self.expr(arg.args[1])
                        if ba or bb or ta != "Int" or tb != "Int":
                            raise Unsupported("range bounds")
                        return f"let {ch[0]} : RangeSet := {ch[0]} ++ [({ca}, {cb} - 1)]\n" + self.block(rest)
            raise Unsupported(f"expression statement {ast.unparse(s)[:60]}")
        if isinstance(s, ast.Return):
            if s.value is None:
                raise Unsupported("bare return")
            if self.loops and isinstance(s.value, ast.IfExp):
                # `return a if c else b`: only the branch taken is evaluated
                return self.block([ast.If(test=s.value.test, body=[ast.Return(value=s.value.body)],
                                          orelse=[ast.Return(value=s.value.orelse)])])
            b, c, t = self.expr(s.value)
            return self.wrap(b, self.ok_return(self.ret_value(c, t)))
        if isinstance(s, ast.Raise):
            if self.pure:
                raise Unsupported("raise after the guarded call of a try body")
            exc = s.exc
            name = exc.func.id if isinstance(exc, ast.Call) and isinstance(exc.func, ast.Name) else \
                (exc.id if isinstance(exc, ast.Name) else None)
            if name not in PYEXC:
                raise Unsupported(f"raise {name}")
            return f".error PyExc.{name}"
        if isinstance(s, (ast.Assign, ast.AugAssign)):
            if isinstance(s, ast.AugAssign):
                target = s.target
                if self.loops and isinstance(target, ast.Subscript):
                    value = ast.BinOp(left=ast.Subscript(value=target.value, slice=target.slice, ctx=ast.Load()),
                                      op=s.op, right=s.value)
                else:
                    value = ast.BinOp(left=ast.Name(id=target.id, ctx=ast.Load()), op=s.op, right=s.value)
            else:
                if self.loops and len(s.targets) > 1 and all(isinstance(t, ast.Name) for t in s.targets) \
                        and isinstance(s.value, ast.Constant):
                    # a = b = <constant>
                    return self.block([ast.Assign(targets=[t], value=s.value) for t in s.targets] + rest)
                if len(s.targets) != 1:
                    raise Unsupported("multiple assignment")
                target, value = s.targets[0], s.value
            if self.loops and isinstance(target, ast.Subscript) and isinstance(target.value, ast.Name) \
                    and self.types.get(target.value.id, "").startswith("List:") and self.index_kind(target.slice):
                # xs[0] = v / xs[-1] = v / xs[0] -= v   (for AugAssign `value` is already `xs[0] - v`)
                xs = target.value.id
                lt = self.types[xs]
                b, c, t = self.expr(value)
                if t != lt[5:]:
                    raise Unsupported(f"{ast.unparse(target)} = <{t}>")
                self.check_state_type(xs, lt)
                tmp = self.fresh()
                fn = "listSetFirst" if self.index_kind(target.slice) == "first" else "listSetLast"
                return self.wrap(b + [(tmp, f"{fn} {lname(xs)} {c}")],
                                 f"let {lname(xs)} : {lean_type(lt)} := {tmp}\n" + self.block(rest))
            if not isinstance(target, ast.Name):
                raise Unsupported("assignment target")
            src = ast.unparse(value)
            is_ctor = self.ret == "LocOut" and self.loops and isinstance(value, ast.Call) \
                and isinstance(value.func, ast.Name) and value.func.id == "CompoundInterval"
            if not is_ctor and (re.search(r"\.parent(_id)?(?![A-Za-z0-9_])", src) or "strip_location_info" in src):
                self.opaque.add(target.id)          # parent bookkeeping: not part of the integer kernel
                return self.block(rest)
            while self.loops and isinstance(value, ast.IfExp):
                # `a if <pinned parameter> else b`: decided statically, the other branch is never evaluated
                bt_, ct_, tt_ = self.expr(value.test)
                if bt_ or tt_ != "Prop" or ct_ not in ("True", "False"):
                    break
                value = value.body if ct_ == "True" else value.orelse
            if self.loops and isinstance(value, ast.IfExp):
                probe_types = dict(self.types)
                eff = bool(self.expr(value.body)[0] or self.expr(value.orelse)[0])
                self.types = probe_types
                if eff:
                    # a branch of the conditional expression can raise: evaluate only the branch taken
                    mk = lambda v: ast.Assign(targets=[ast.Name(id=target.id, ctx=ast.Store())], value=v)  # noqa
                    return self.block([ast.If(test=value.test, body=[mk(value.body)], orelse=[mk(value.orelse)])] + rest)
            if self.loops and isinstance(value, ast.Call) and isinstance(value.func, ast.Name) and value.func.id == "next" \
                    and len(value.args) == 1 and isinstance(value.args[0], ast.Name) and not value.keywords:
                it = value.args[0].id
                ity = self.types.get(it, "")
                if not ity.startswith("Iter1:") or self.ctx or self.pure or it == target.id:
                    raise Unsupported("next(): only the first next() of an iterator declared non-empty (Iter1) is translated")
                et = ity[6:]
                self.forget(target.id)
                self.check_state_type(target.id, et)
                self.types[target.id] = et
                self.types[it] = "List:" + et          # the rest of the iterator
                return (f"let {lname(target.id)} : {lean_type(et)} := {lname(it)}.1\n"
                        f"let {lname(it)} : {lean_type('List:' + et)} := {lname(it)}.2\n" + self.block(rest))
            if self.loops and self.spec.get("locals", {}).get(target.id) == "Opt:Int":
                # declared Optional[int] local: None / an int (then known to be that int until reassigned) / another optional
                b, c, t = self.expr(value)
                self.check_state_type(target.id, "Opt:Int")
                self.forget(target.id)
                self.types[target.id] = "Opt:Int"
                if t == "None":
                    return self.wrap(b, f"let {lname(target.id)} : Option Int := none\n" + self.block(rest))
                if t == "Int":
                    tmp = self.fresh()
                    self.types["#narrow:" + target.id] = tmp
                    return self.wrap(b, f"let {tmp} : Int := {c}\nlet {lname(target.id)} : Option Int := some {tmp}\n"
                                     + self.block(rest))
                if t == "Opt:Int":
                    return self.wrap(b, f"let {lname(target.id)} : Option Int := {c}\n" + self.block(rest))
                raise Unsupported(f"assignment of {t} to the Optional[int] local {target.id}")
            if isinstance(value, ast.List) and len(value.elts) == 2:
                (ba, ca, ta), (bb, cb, tb) = self.expr(value.elts[0]), self.expr(value.elts[1])
                if ta != "Int" or tb != "Int":
                    raise Unsupported("list literal must hold two ints")
                self.types[target.id] = "IntPair"
                return self.wrap(ba + bb, f"let {target.id}_0 : Int := {ca}\nlet {target.id}_1 : Int := {cb}\n" + self.block(rest))
            if isinstance(value, ast.Dict):
                d = const_eval(value)
                if not all(isinstance(k, int) and isinstance(v, int) for k, v in d.items()):
                    raise Unsupported("dict literal must be int->int")
                self.types[target.id] = "Dict:[" + ", ".join(f"(({k} : Int), ({v} : Int))" for k, v in d.items()) + "]"
                return self.block(rest)
            if isinstance(value, ast.Set):
                vals = const_eval(value)
                if not all(isinstance(v, int) for v in vals):
                    raise Unsupported("set literal")
                self.types[target.id] = "RangeSet"
                return f"let {target.id} : RangeSet := [" + ", ".join(f"({v}, {v})" for v in vals) + "]\n" + self.block(rest)
            if self.loops and isinstance(value, ast.List) and not value.elts:
                t = self.spec.get("locals", {}).get(target.id)
                if not t or not t.startswith("List:"):
                    raise Unsupported(f"empty list {target.id}: element type not declared in the kernel spec")
                self.check_state_type(target.id, t)
                self.types[target.id] = t
                return f"let {lname(target.id)} : {lean_type(t)} := []\n" + self.block(rest)
            b, c, t = self.expr(value)
            if self.loops:
                self.forget(target.id)
                self.check_state_type(target.id, t)
                if t == "Prop":
                    c, t = f"(decide {c})", "Bool"
            self.types[target.id] = t
            lt = lean_type(t) if self.loops else LEAN_TYPE.get(t)
            ann = f" : {lt}" if lt else ""
            return self.wrap(b, f"let {lname(target.id)}{ann} := {c}\n" + self.block(rest))
        if isinstance(s, ast.If):
            guarded = self.none_guard(s, rest)
            if guarded is not None:
                return guarded
            guarded = self.some_guard(s, rest)
            if guarded is not None:
                return guarded
            b, c, t = self.expr(s.test)
            if c == "True" and not b:
                return self.block(s.body + rest)     # statically true (type test of a typed argument)
            if c == "False" and not b:
                return self.block(s.orelse + rest)   # statically false (parameter pinned to its default)
            joined = self.join_if(s)
            if joined is not None:
                out = ""
                for nm, jt, code in joined:
                    self.check_state_type(nm, jt)
                    self.forget(nm)
                    self.types[nm] = jt
                    out += f"let {lname(nm)} : {lean_type(jt)} := {code}\n"
                return out + self.block(rest)
            saved = dict(self.types)
            then = self.block(s.body + rest)
            self.types = dict(saved)
            els = self.block(s.orelse + rest)
            self.types = saved
            return self.wrap(b, f"if {self.as_prop(c, t)} then\n {then}\nelse\n {els}")
        if isinstance(s, ast.For):
            if self.loops and not (isinstance(s.iter, ast.Name) and isinstance(self.consts.get(s.iter.id), list)):
                return self.for_loop(s, rest)
            if not (isinstance(s.iter, ast.Name) and isinstance(self.consts.get(s.iter.id), list)
                    and isinstance(s.target, ast.Name) and not s.orelse):
                raise Unsupported("for loop must run over a module-level list literal")
            unrolled = []
            for v in self.consts[s.iter.id]:
                if not isinstance(v, int):
                    raise Unsupported("loop list element")
                unrolled.append(ast.Assign(targets=[ast.Name(id=s.target.id, ctx=ast.Store())],
                                           value=ast.Constant(value=v)))
                unrolled += s.body
            return self.block(unrolled + rest)
        raise Unsupported(f"statement {type(s).__name__}")


def attr_chain(n):
    out = []
    while isinstance(n, ast.Attribute):
        out.append(n.attr)
        n = n.value
    if isinstance(n, ast.Name):
        out.append(n.id)
        return list(reversed(out))
    return None


KERNELS = [
    dict(name="Strand_reverse", file="location/strand.py", cls="Strand", fn="reverse", args=[("self", "Strand")], ret="Strand"),
    dict(name="Strand_relative_to", file="location/strand.py", cls="Strand", fn="relative_to",
         args=[("self", "Strand"), ("other", "Strand")], ret="Strand"),
    dict(name="Strand_from_symbol", file="location/strand.py", cls="Strand", fn="from_symbol", args=[("value", "Sym")], ret="Strand"),
    dict(name="Strand_to_symbol", file="location/strand.py", cls="Strand", fn="to_symbol", args=[("self", "Strand")], ret="Sym"),
    dict(name="Strand_assert_directional", file="location/strand.py", cls="Strand", fn="assert_directional",
         args=[("self", "Strand")], ret="Unit"),
    dict(name="CDSFrame_shift", file="gene/cds_frame.py", cls="CDSFrame", fn="shift",
         args=[("self", "CDSFrame"), ("shift", "Int")], ret="CDSFrame"),
    dict(name="CDSFrame_to_phase", file="gene/cds_frame.py", cls="CDSFrame", fn="to_phase", args=[("self", "CDSFrame")], ret="CDSPhase"),
    dict(name="CDSPhase_to_frame", file="gene/cds_frame.py", cls="CDSPhase", fn="to_frame", args=[("self", "CDSPhase")], ret="CDSFrame"),
    dict(name="SingleInterval_parent_to_relative_pos", file="location/location_impl.py", cls="SingleInterval",
         fn="parent_to_relative_pos", args=[("self", "SI"), ("parent_pos", "Int")], ret="Int"),
    dict(name="SingleInterval_relative_to_parent_pos", file="location/location_impl.py", cls="SingleInterval",
         fn="relative_to_parent_pos", args=[("self", "SI"), ("relative_pos", "Int")], ret="Int"),
    dict(name="SingleInterval_relative_interval_to_parent_location", file="location/location_impl.py", cls="SingleInterval",
         fn="relative_interval_to_parent_location",
         args=[("self", "SI"), ("relative_start", "Int"), ("relative_end", "Int"), ("relative_strand", "Strand")], ret="SI"),
    dict(name="SingleInterval_has_overlap_single_interval", file="location/location_impl.py", cls="SingleInterval",
         fn="_has_overlap_single_interval", args=[("self", "SI"), ("other", "SI")], ret="Bool"),
    dict(name="SingleInterval_intersection_single_interval", file="location/location_impl.py", cls="SingleInterval",
         fn="_intersection_single_interval", args=[("self", "SI"), ("other", "SI")], ret="SI"),
    dict(name="SingleInterval_extend_absolute", file="location/location_impl.py", cls="SingleInterval", fn="extend_absolute",
         args=[("self", "SI"), ("extend_start", "Int"), ("extend_end", "Int")], ret="SI"),
    dict(name="SingleInterval_shift_position", file="location/location_impl.py", cls="SingleInterval", fn="shift_position",
         args=[("self", "SI"), ("shift", "Int")], ret="SI"),
    dict(name="SingleInterval_optimize_blocks", file="location/location_impl.py", cls="SingleInterval", fn="optimize_blocks",
         args=[("self", "SI")], ret="OptSI"),
    dict(name="SingleInterval_reset_strand", file="location/location_impl.py", cls="SingleInterval", fn="reset_strand",
         args=[("self", "SI"), ("new_strand", "Strand")], ret="SI"),
    dict(name="SingleInterval_reverse_strand", file="location/location_impl.py", cls="SingleInterval", fn="reverse_strand",
         args=[("self", "SI")], ret="SI"),
    dict(name="SingleInterval_reverse", file="location/location_impl.py", cls="SingleInterval", fn="reverse",
         args=[("self", "SI")], ret="SI"),
    dict(name="SingleInterval_reset_parent", file="location/location_impl.py", cls="SingleInterval", fn="reset_parent",
         args=[("self", "SI")], ret="SI"),
    dict(name="SingleInterval_extend_relative", file="location/location_impl.py", cls="SingleInterval", fn="extend_relative",
         args=[("self", "SI"), ("extend_upstream", "Int"), ("extend_downstream", "Int")], ret="SI"),
    dict(name="SingleInterval_distance_to_single_interval", file="location/location_impl.py", cls="SingleInterval",
         fn="_distance_to_single_interval", args=[("self", "SI"), ("other", "SI"), ("distance_type", "DistanceType")],
         ret="Int", calls_has_overlap=True),
    dict(name="SingleInterval_distance_to", file="location/location_impl.py", cls="SingleInterval", fn="distance_to",
         args=[("self", "SI"), ("other", "SI"), ("distance_type", "DistanceType")], ret="Int", skip_parent_check=True),
    dict(name="CDSFrame_from_int", file="gene/cds_frame.py", cls="CDSFrame", fn="from_int", args=[("value", "Int")], ret="CDSFrame"),
    dict(name="CDSPhase_from_int", file="gene/cds_frame.py", cls="CDSPhase", fn="from_int", args=[("value", "Int")], ret="CDSPhase"),
    dict(name="bins", file="util/bins.py", cls=None, fn="bins",
         args=[("start", "Int"), ("stop", "Int"), ("fmt", "CoordFmt"), ("one", "Bool")], ret="Bins"),
    dict(name="VariantInterval_length_difference", file="gene/variants.py", cls="VariantInterval", fn="length_difference",
         args=[("self", "VI")], ret="Int"),
    dict(name="VariantInterval_lift_over_chromosome_location_single_interval", file="gene/variants.py", cls="VariantInterval",
         fn="_lift_over_chromosome_location_single_interval", args=[("self", "VI"), ("location", "SI")], ret="OptSI",
         inline={"length_difference": "(VariantInterval_length_difference_val self)"}),
    # ---- loops over the blocks of a CompoundInterval (parent-less view `CI`, see the module docstring) ----
    dict(name="CompoundInterval_scan_blocks", file="location/location_impl.py", cls="CompoundInterval", fn="scan_blocks",
         args=[("self", "CI")], ret="List:SI", loops=True, generator=True),
    dict(name="CompoundInterval_parent_to_relative_pos", file="location/location_impl.py", cls="CompoundInterval",
         fn="parent_to_relative_pos", args=[("self", "CI"), ("parent_pos", "Int")], ret="Int", loops=True),
    dict(name="CompoundInterval_relative_to_parent_pos", file="location/location_impl.py", cls="CompoundInterval",
         fn="relative_to_parent_pos", args=[("self", "CI"), ("relative_pos", "Int")], ret="Int", loops=True),
    # CUT: stops before `CompoundInterval._from_single_intervals_no_validation(new_blocks).optimize_blocks()` and
    # returns `RelOut.blocks new_blocks new_strand` (zero-length requests return `RelOut.single <interval>`)
    dict(name="CompoundInterval_relative_interval_to_parent_location", file="location/location_impl.py",
         cls="CompoundInterval", fn="relative_interval_to_parent_location",
         args=[("self", "CI"), ("relative_start", "Int"), ("relative_end", "Int"), ("relative_strand", "Strand")],
         ret="RelOut", loops=True, locals={"new_blocks": "List:SI"},
         cut=dict(before_call="_from_single_intervals_no_validation", ctor="RelOut.blocks",
                  returns=[("new_blocks", "List:SI"), ("new_strand", "Strand")])),
    dict(name="CompoundInterval_is_overlapping", file="location/location_impl.py", cls="CompoundInterval",
         fn="is_overlapping", args=[("self", "CI")], ret="Bool", loops=True),
    # views: both operands parent-less, `other` a SingleInterval, full_span / strict_parent_compare at their defaults
    dict(name="SingleInterval_has_overlap", file="location/location_impl.py", cls="SingleInterval", fn="has_overlap",
         args=[("self", "SI"), ("other", "SI"), ("match_strand", "Bool")], ret="Bool", loops=True, parentless=True,
         fixed={"full_span": False, "strict_parent_compare": False}),
    dict(name="CompoundInterval_has_overlap", file="location/location_impl.py", cls="CompoundInterval", fn="has_overlap",
         args=[("self", "CI"), ("other", "SI"), ("match_strand", "Bool")], ret="Bool", loops=True,
         calls_si_has_overlap=True, fixed={"full_span": False, "strict_parent_compare": False}),
    # CONSTRUCTOR CUT: `return CompoundInterval(new_starts, new_ends, self.strand, new_parent)` returns
    # `CombineOut.rebuilt new_starts new_ends` (the constructor's sorting/validation is not translated);
    # `return self` -> `CombineOut.same`, `return EmptyLocation()` -> `CombineOut.empty`
    dict(name="CompoundInterval_combine_blocks", file="location/location_impl.py", cls="CompoundInterval",
         fn="_combine_blocks", args=[("self", "CI"), ("preserve_overlappers", "Bool")], ret="CombineOut", loops=True,
         locals={"new_starts": "List:Int", "new_ends": "List:Int", "curr_start": "Opt:Int", "curr_end": "Opt:Int"}),
    # CUT before `if not combined.is_empty: return combined._to_single_interval_if_one_block() ...`: returns `combined`
    dict(name="CompoundInterval_optimize_blocks", file="location/location_impl.py", cls="CompoundInterval",
         fn="optimize_blocks", args=[("self", "CI")], ret="CombineOut", loops=True,
         cut=dict(before_call="_to_single_interval_if_one_block", ctor=None, returns=[("combined", "CombineOut")])),
    dict(name="CompoundInterval_optimize_and_combine_blocks", file="location/location_impl.py", cls="CompoundInterval",
         fn="optimize_and_combine_blocks", args=[("self", "CI")], ret="CombineOut", loops=True,
         cut=dict(before_call="_to_single_interval_if_one_block", ctor=None, returns=[("combined", "CombineOut")])),
    # HEAD CUT: starts after `block_iter = optimized.scan_blocks()`; `block_iter` (the blocks of the optimized location
    # in scan order) is an argument declared NON-EMPTY (`optimized` is not empty there), which is what makes the first
    # `next(block_iter)` total
    dict(name="CompoundInterval_gap_list", file="location/location_impl.py", cls="CompoundInterval", fn="gap_list",
         args=[("self", "CI")], ret="List:SI", loops=True, locals={"gaps": "List:SI"},
         head=dict(skip=3, binds=("block_iter", "Iter1:SI"))),
    # `location` is a parent-less CompoundInterval (a SingleInterval has num_blocks == 1 and returns at once)
    dict(name="CDSInterval_construct_frames_from_location", file="gene/cds.py", cls="CDSInterval",
         fn="construct_frames_from_location", args=[("location", "CI"), ("starting_frame", "CDSFrame")],
         ret="List:CDSFrame", loops=True),
    # ---- reading-frame cleaning (C05): `self` is a parent-less chromosome-level CDS, view `CDSV` =
    # (chromosome_location : CI, frames : List CDSFrame); the iterators with their parameter pinned to the literal
    # False that `_prepare_multi_exon_window_for_scan_codon_locations` passes
    dict(name="CDSInterval_exon_iter", file="gene/cds.py", cls="CDSInterval", fn="_exon_iter",
         args=[("self", "CDSV")], ret="List:SI", loops=True, generator=True, pinned={"chunk_relative_exon": False}),
    dict(name="CDSInterval_frame_iter", file="gene/cds.py", cls="CDSInterval", fn="_frame_iter",
         args=[("self", "CDSV")], ret="List:CDSFrame", loops=True, generator=True, pinned={"chunk_relative_frames": False}),
    # CUT before `cleaned_blocks = [loc.relative_interval_to_parent_location(...) ...]`: returns
    # (cleaned_rel_starts, cleaned_rel_ends); the parameters relative_window / chunk_relative_coordinates are only read
    # in the pinned tail
    dict(name="CDSInterval_clean_frames", file="gene/cds.py", cls="CDSInterval",
         fn="_prepare_multi_exon_window_for_scan_codon_locations", args=[("self", "CDSV")], ret="IntLists2", loops=True,
         locals={"cleaned_rel_starts": "List:Int", "cleaned_rel_ends": "List:Int"},
         cut=dict(before_call="relative_interval_to_parent_location", ctor="Prod.mk",
                  returns=[("cleaned_rel_starts", "List:Int"), ("cleaned_rel_ends", "List:Int")])),
    # ---- parent-less set algebra (C02): results are `LocOut` (object constructions stay symbolic: CONSTRUCTOR CUT) ----
    dict(name="SingleInterval_union_single_interval", file="location/location_impl.py", cls="SingleInterval",
         fn="_union_single_interval", args=[("self", "SI"), ("other", "SI")], ret="LocOut", loops=True, parentless=True,
         calls_pl=True),
    dict(name="SingleInterval_intersection", file="location/location_impl.py", cls="SingleInterval", fn="intersection",
         args=[("self", "SI"), ("other", "SI"), ("match_strand", "Bool")], ret="OptSI", loops=True, parentless=True,
         calls_pl=True, fixed={"full_span": False, "strict_parent_compare": False}),
    # `Location.contains` (location.py) on two parent-less SingleIntervals
    dict(name="Location_contains_si", file="location/location.py", cls="Location", fn="contains",
         args=[("self", "SI"), ("other", "SI"), ("match_strand", "Bool")], ret="Bool", loops=True, parentless=True,
         calls_pl=True, fixed={"full_span": False, "strict_parent_compare": False}),
    # SingleInterval.has_overlap with a parent-less CompoundInterval argument (dispatches to other.has_overlap(self, …))
    dict(name="SingleInterval_has_overlap_ci", file="location/location_impl.py", cls="SingleInterval", fn="has_overlap",
         args=[("self", "SI"), ("other", "CI"), ("match_strand", "Bool")], ret="Bool", loops=True, parentless=True,
         calls_pl=True, fixed={"full_span": False, "strict_parent_compare": False}),
    # `other` is a parent-less CompoundInterval (view CI: `other.blocks`)
    dict(name="SingleInterval_minus", file="location/location_impl.py", cls="SingleInterval", fn="minus",
         args=[("self", "SI"), ("other", "CI"), ("match_strand", "Bool")], ret="LocOut", loops=True, parentless=True,
         calls_pl=True, fixed={"strict_parent_compare": False},
         locals={"result_starts": "List:Int", "result_ends": "List:Int"}),
    dict(name="CompoundInterval_union_single_interval", file="location/location_impl.py", cls="CompoundInterval",
         fn="_union_single_interval", args=[("self", "CI"), ("other", "SI")], ret="LocOut", loops=True, parentless=True,
         calls_pl=True, locals={"overlapping_blocks": "List:SI", "non_overlapping_blocks": "List:SI"}),
    # C13: the per-block lift of a parent-less CompoundInterval (the generated single-interval kernel per block)
    dict(name="VariantInterval_lift_over_chromosome_location_compound_interval", file="gene/variants.py",
         cls="VariantInterval", fn="_lift_over_chromosome_location_compound_interval",
         args=[("self", "VI"), ("location", "CI")], ret="LocOut", loops=True, calls_pl=True,
         locals={"lifted_single_intervals": "List:SI"}),
    # CUT before `_ = r._single_intervals` (forces the per-block SingleInterval constructors, i.e. the bound checks
    # against a parent's sequence; nothing for a parent-less location): returns `r` = the constructor's arguments
    dict(name="CompoundInterval_shift_position", file="location/location_impl.py", cls="CompoundInterval",
         fn="shift_position", args=[("self", "CI"), ("shift", "Int")], ret="LocOut", loops=True, parentless=True,
         cut=dict(before_stmt="_ = r._single_intervals", ctor=None, returns=[("r", "LocOut")])),
    # C19: the argument validation of `Location.scan_windows` on a SingleInterval (`len(self)` = end - start).  CUT before
    # the window loop: returns (start_pos, window_size) - the loop itself is `relative_interval_to_parent_location` per
    # window, modelled in Model/Validate.lean
    dict(name="Location_scan_windows_checks", file="location/location.py", cls="Location", fn="scan_windows",
         args=[("self", "SI"), ("window_size", "Int"), ("step_size", "Int"), ("start_pos", "Int")], ret="Pair:Int:Int",
         loops=True,
         cut=dict(before_stmt="for curr_start in range(start_pos, len(self) - window_size + 1, step_size):\n"
                              "    yield self.relative_interval_to_parent_location(curr_start, curr_start + window_size, Strand.PLUS)",
                  ctor="Prod.mk", returns=[("start_pos", "Int"), ("window_size", "Int")])),
    # `cleaned_location` is a parent-less CompoundInterval (from_single_intervals / chromosome_location always build
    # one); `loc_on_chrom` is read only through `.start` / `.end` (view SI).  CUT before
    # `fivep_distance_mod3 = len(fivep_loc) % 3`: returns `fivep_loc` = the state of the generated
    # relative_interval_to_parent_location at its own cut
    dict(name="CDSInterval_calculate_frame_offset", file="gene/cds.py", cls="CDSInterval", fn="_calculate_frame_offset",
         args=[("self", "CDSV"), ("cleaned_location", "CI"), ("loc_on_chrom", "SI")], ret="RelOut", loops=True,
         cut=dict(before_stmt="fivep_distance_mod3 = len(fivep_loc) % 3", ctor=None, returns=[("fivep_loc", "RelOut")])),
]


def module_consts(mod):
    env = {}
    for node in mod.body:
        if isinstance(node, ast.Assign) and len(node.targets) == 1 and isinstance(node.targets[0], ast.Name):
            try:
                env[node.targets[0].id] = const_eval(node.value, env)
            except Unsupported:
                pass
    return env


def gen_kernels(repo, errors):
    out = ["/- GENERATED by tools/translate.py from /repo's working tree — do not edit. -/",
           "import BioCantor.GenPrelude", "set_option linter.unusedVariables false", "namespace BioCantor.Gen", "open BioCantor BioCantor.GenP", ""]
    done = 0
    # enum layouts the hand-written Base relies on
    for cname, rel in (("Strand", "location/strand.py"), ("CDSFrame", "gene/cds_frame.py"), ("CDSPhase", "gene/cds_frame.py")):
        try:
            got = enum_members(find_class(module_of(repo, rel), cname))
            if got != ENUM_EXPECT[cname]:
                errors.append(f"enum {cname}: members {got} differ from the layout Base.lean mirrors")
        except Exception as e:  # noqa
            errors.append(f"enum {cname}: {e}")
    # CoordFmt from the keys of bins.COORD_OFFSETS
    try:
        co = const_eval(find_assign(module_of(repo, "util/bins.py"), "COORD_OFFSETS"))
        out.append("/-- keys of bins.COORD_OFFSETS -/")
        out.append("inductive CoordFmt where\n  " + " ".join(f"| {k}" for k in co) + "\n  deriving DecidableEq, Repr\n")
    except Exception as e:  # noqa
        errors.append(f"CoordFmt: {e}")
    # DistanceType from the enum class in the package root
    try:
        dt = enum_members(find_class(module_of(repo, "__init__.py"), "DistanceType"))
        ENUMS["DistanceType"] = {k: f"DistanceType.{k}" for k, _ in dt}
        out.append("/-- members of DistanceType (inscripta/biocantor/__init__.py) -/")
        out.append("inductive DistanceType where\n  " + " ".join(f"| {k}" for k, _ in dt) + "\n  deriving DecidableEq, Repr\n")
    except Exception as e:  # noqa
        errors.append(f"DistanceType: {e}")
    names = []
    EMITTED.clear()
    ci_bad = ci_view_guards(repo)
    pl_bad = parentless_guards(repo)
    cdsv_bad = cdsv_view_guards(repo)
    REPO[0] = repo
    GUARD_FAILS.clear()
    GUARD_FAILS.update(algebra_guards(repo))
    RAISES.clear()
    excsub = exc_subclasses(repo)
    for spec in KERNELS:
        try:
            mod = module_of(repo, spec["file"])
            container = find_class(mod, spec["cls"]) if spec["cls"] else mod
            fn = find_func(container, spec["fn"])
            if spec.get("parentless") and pl_bad:
                raise Unsupported("the parent-less view is not faithful to this source: " + "; ".join(pl_bad[:3]))
            if any(t == "CDSV" for _, t in spec["args"]) and cdsv_bad:
                raise Unsupported("the CDSV view is not faithful to this source: " + "; ".join(cdsv_bad[:3]))
            if any(t in ("CI", "CDSV") for _, t in spec["args"]) and ci_bad:
                raise Unsupported("the CI view is not faithful to this source: " + "; ".join(ci_bad[:3]))
            k = K(spec, module_consts(mod), cls=container if spec["cls"] else None, excsub=excsub,
                  imports=module_imports(mod))
            params = [a.arg for a in fn.args.args]
            want = [a for a, _ in spec["args"]]
            if params[:len(want)] != want:
                raise Unsupported(f"parameters {params} != {want}")
            # defaults for parameters beyond the modelled ones are not supported
            if spec.get("fixed"):
                # trailing parameters pinned to their default values: must be exactly the remaining parameters
                extra = params[len(want):]
                defaults = fn.args.defaults
                dmap = {}
                for a, d in zip(reversed(fn.args.args), reversed(defaults)):
                    dmap[a.arg] = d.value if isinstance(d, ast.Constant) else Unsupported
                if sorted(extra) != sorted(spec["fixed"]) or fn.args.kwonlyargs or fn.args.vararg or fn.args.kwarg:
                    raise Unsupported(f"parameters beyond the modelled ones {extra} != pinned {sorted(spec['fixed'])}")
                for nm, v in spec["fixed"].items():
                    if dmap.get(nm, Unsupported) is not v:
                        raise Unsupported(f"parameter {nm} is pinned to {v} but its default is {dmap.get(nm)!r}")
            if spec.get("pinned"):
                # trailing parameters pinned to the literal that every translated caller passes (checked at the call
                # sites): must be exactly the remaining parameters, in order
                extra = params[len(want):]
                if extra != list(spec["pinned"]) or fn.args.kwonlyargs or fn.args.vararg or fn.args.kwarg or spec.get("fixed"):
                    raise Unsupported(f"parameters beyond the modelled ones {extra} != pinned {list(spec['pinned'])}")
            stmts = list(fn.body)
            if spec.get("loops"):
                stmts = body_no_doc(fn)
            head = None
            if spec.get("head"):
                # HEAD CUT: the first statements compute a value the kernel takes as an argument instead
                hd = spec["head"]
                head, stmts = stmts[:hd["skip"]], stmts[hd["skip"]:]
                last = head[-1] if head else None
                if not (isinstance(last, ast.Assign) and len(last.targets) == 1 and isinstance(last.targets[0], ast.Name)
                        and last.targets[0].id == hd["binds"][0]):
                    raise Unsupported(f"head cut: statement {hd['skip']} does not assign {hd['binds'][0]}")
                if any(isinstance(nd, ast.Name) and isinstance(nd.ctx, ast.Store) and nd.id != hd["binds"][0]
                       and any(isinstance(u, ast.Name) and u.id == nd.id for st in stmts for u in ast.walk(st))
                       for h in head for nd in ast.walk(h)):
                    raise Unsupported("head cut: the remainder uses another local assigned in the skipped head")
                k.types[hd["binds"][0]] = hd["binds"][1]
            body = k.block(stmts) if spec["ret"] != "Unit" else k.block(fn.body + [ast.Return(value=ast.Constant(value=0))])
            if spec.get("generator"):
                body = f"let yield_ : {lean_type(spec['ret'])} := []\n" + body
            if spec.get("cut") and k.tail is None:
                raise Unsupported(f"cut point ({spec['cut'].get('before_call') or spec['cut'].get('before_stmt')}) not found")
            ret = (lean_type(spec["ret"]) or "Int") if spec["ret"] != "Unit" else "Int"
            args = " ".join(f"({a} : {lean_type(t)})" for a, t in
                            list(spec["args"]) + ([tuple(spec["head"]["binds"])] if spec.get("head") else []))
            out.extend(k.aux)
            doc = f"{spec['file']}: {(spec['cls'] + '.') if spec['cls'] else ''}{spec['fn']}"
            if k.tail is not None:
                out.append(f"/-- the statements of {spec['fn']} after the cut (not translated; pinned as text) -/")
                out.append(f"def {spec['name']}_tail : List (List Char) :=\n  ["
                           + ",\n   ".join(lean_chars(x) for x in k.tail) + "]\n")
                doc += (f" — CUT before " + (f"the call of {spec['cut']['before_call']}" if spec['cut'].get('before_call')
                                             else f"`{spec['cut']['before_stmt']}`") + ": returns "
                        + " ".join(([spec["cut"]["ctor"]] if spec["cut"]["ctor"] else [])
                                   + [nm for nm, _ in spec["cut"]["returns"]]))
            if head is not None:
                out.append(f"/-- the first statements of {spec['fn']}, which compute the argument `{spec['head']['binds'][0]}` "
                           f"(not translated; pinned as text) -/")
                out.append(f"def {spec['name']}_head : List (List Char) :=\n  ["
                           + ",\n   ".join(lean_chars(ast.unparse(x)) for x in head) + "]\n")
                doc += f" — HEAD CUT: starts after `{ast.unparse(head[-1])}`, taking `{spec['head']['binds'][0]}` as an argument"
            if spec.get("pinned"):
                doc += " — view with " + ", ".join(f"{a}={v}" for a, v in spec["pinned"].items()) + " (as its callers pass)"
            if spec.get("fixed"):
                doc += " — view with " + ", ".join(f"{a}={v}" for a, v in spec["fixed"].items()) + " (the defaults)"
            out.append(f"/-- {doc} -/")
            out.append(f"def {spec['name']} {args} : PyR ({ret}) :=\n{indent(body)}\n")
            if spec["name"] == "VariantInterval_length_difference":
                out.append("/-- value of the `length_difference` property (it cannot raise) -/")
                out.append("def VariantInterval_length_difference_val (self : VI) : Int :=\n"
                           "  match VariantInterval_length_difference self with | .ok v => v | .error _ => 0\n")
            done += 1
            names.append(spec["name"])
            EMITTED.add(spec["name"])
            RAISES[spec["name"]] = ".error" in body or any(".error" in a_ for a_ in k.aux)
        except Unsupported as e:
            errors.append(f"kernel {spec['name']}: outside the translatable fragment: {e}")
        except Exception as e:  # noqa
            errors.append(f"kernel {spec['name']}: {type(e).__name__}: {e}")
    out.append("end BioCantor.Gen")
    return "\n".join(out) + "\n", done, names


def indent(s, n=2):
    return "\n".join(" " * n + ln for ln in s.splitlines())


def write_if_changed(path, content):
    if os.path.exists(path) and open(path).read() == content:
        return False
    os.makedirs(os.path.dirname(path), exist_ok=True)
    with open(path, "w") as fh:
        fh.write(content)
    return True


def main():
    repo, outdir = sys.argv[1], sys.argv[2]
    errors = []
    try:
        tables, ntab = gen_tables(repo, errors)
        kernels, nker, names = gen_kernels(repo, errors)
        ch1 = write_if_changed(os.path.join(outdir, "Tables.lean"), tables)
        ch2 = write_if_changed(os.path.join(outdir, "Kernels.lean"), kernels)
        print(json.dumps({"status": "ok" if not errors else "partial", "kernels": f"{nker}/{len(KERNELS)}",
                          "kernel_names": names, "tables": ntab, "errors": errors, "rewritten": [ch1, ch2]}))
    except Exception as e:  # noqa
        import traceback
        print(json.dumps({"status": "crash", "errors": [traceback.format_exc()[-1500:]]}))
        sys.exit(1)


if __name__ == "__main__":
    main()
