#!/usr/bin/env python3
"""recheck_seed.py <seed id> … : re-run the property's check against already filed seeded changes (after the check
was strengthened or /repo moved on) and refresh `confirmed_by_lead.check` in seeded/<id>/meta.json."""
import json, os, subprocess, sys
for name in sys.argv[1:]:
    prop = name.split("_")[0]
    d = os.path.join("/verif/seeded", name)
    t = subprocess.run([sys.executable, "/verif/tools/try_seed.py", os.path.join(d, "patch.diff"), prop],
                       stdout=subprocess.PIPE, stderr=subprocess.STDOUT, text=True)
    out = t.stdout
    if "git" in out and "apply" in out and "CalledProcessError" in out:
        print(name, "SKIPPED: the patch no longer applies to /repo HEAD (record kept)")
        continue
    detected = "VIOLATION property=" + prop in out
    meta = json.load(open(os.path.join(d, "meta.json")))
    meta.setdefault("confirmed_by_lead", {})["check"] = {
        "command": f"tools/try_seed.py seeded/{name}/patch.diff {prop}  (= apply to a scratch worktree, ./check {prop} --tier quick, discard)",
        "detected": detected, "no_failing_input_found": "no-failing-input-found" in out,
        "output_tail": [l for l in out.strip().splitlines() if not l.startswith(("Preparing", "HEAD"))][-14:]}
    json.dump(meta, open(os.path.join(d, "meta.json"), "w"), indent=1)
    print(name, "detected:", detected, "nfif:", "no-failing-input-found" in out)
