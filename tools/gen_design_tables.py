#!/usr/bin/env python3
"""Fill the generated blocks of DESIGN.md (<!-- STATUS -->, <!-- FIXED -->, <!-- OPEN -->) from MANIFEST.json,
evidence/*.json, known_findings.json and findings/*.json."""
import glob, json, os, re
root = os.path.dirname(os.path.dirname(os.path.abspath(__file__)))
man = json.load(open(os.path.join(root, "MANIFEST.json")))
claimed = {c["property_id"] for c in man["checks"]}
props = [json.loads(l) for l in open(os.path.join(root, "properties.jsonl"))]
kf = json.load(open(os.path.join(root, "known_findings.json")))
open_f = list(kf.get("findings", []))
for fn in sorted(glob.glob(os.path.join(root, "findings", "*.json"))):
    d = json.load(open(fn))
    open_f += [f for f in (d if isinstance(d, list) else d.get("findings", [])) if f.get("status") == "finding"]
rows = []
for p in props:
    pid = p["id"]
    ev = {}
    evp = os.path.join(root, "evidence", pid + ".json")
    if os.path.exists(evp):
        try:
            ev = json.load(open(evp))
        except Exception:
            ev = {}
    cov = ev.get("coverage", {})
    ids = sorted({f["id"].split("@")[0] for f in open_f if f["property"] == pid})
    rows.append(f"| {pid} | {'claimed' if pid in claimed else 'not claimed'} | {cov.get('obligations', '')} | "
                f"{cov.get('evaluations', '')} ({ev.get('tier', '')}) | {cov.get('distinct_nontrivial', '')} | "
                f"{round(ev.get('wall_s', 0))} s | {', '.join(ids) or '—'} |")
status = ("| property | status | theorems audited | cases in the last recorded run (tier) | non-trivial | wall | open findings reported |\n"
          "|---|---|---|---|---|---|---|\n" + "\n".join(rows))
fixed = "\n".join("* " + s for s in kf.get("fixed", []))
nr = "\n".join("* " + s for s in kf.get("not_repairable", []))
seen = set()
ol = []
for f in sorted(open_f, key=lambda f: (f["property"], f["id"])):
    key = (f["property"], f["id"].split("@")[0])
    if key in seen:
        continue
    seen.add(key)
    ol.append(f"* **{f['id']}** ({f['property']}): {f['what']}" + (f"  — e.g. `{f['example']}`" if f.get("example") else ""))
openl = "\n".join(ol)
p = os.path.join(root, "DESIGN.md")
s = open(p).read()
for tag, content in (("STATUS", status), ("FIXED", fixed), ("NOTREPAIRABLE", nr), ("OPEN", openl)):
    s = re.sub(rf"<!-- {tag} -->.*?<!-- /{tag} -->", lambda m: f"<!-- {tag} -->\n{content}\n<!-- /{tag} -->", s, flags=re.S)
open(p, "w").write(s)
print("ok", len(rows), len(ol))
