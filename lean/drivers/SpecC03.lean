import BioCantor.Driver.Main
import BioCantor.Driver.SpecSequence
def main : IO Unit := BioCantor.Driver.runSpec BioCantor.Driver.SpecSequence.ops
