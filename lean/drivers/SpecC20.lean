import BioCantor.Driver.Main
import BioCantor.Driver.SpecAggregates
def main : IO Unit := BioCantor.Driver.runSpec BioCantor.Driver.SpecAgg.ops
