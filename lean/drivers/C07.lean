import BioCantor.Driver.Main
import BioCantor.Driver.Chunk
def main : IO Unit := BioCantor.Driver.runModel BioCantor.Driver.Chunk.ops
