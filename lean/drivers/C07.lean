import BioCantor.Driver.SpecChunk
import BioCantor.Driver.Chunk
def main : IO Unit := BioCantor.Driver.SpecChunk.parMain false BioCantor.Driver.Chunk.ops
