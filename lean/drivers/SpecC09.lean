import BioCantor.Driver.Main
import BioCantor.Driver.SpecQuery
def main : IO Unit := BioCantor.Driver.runSpec BioCantor.Driver.SpecQuery.ops
