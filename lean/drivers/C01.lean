import BioCantor.Driver.Main
import BioCantor.Driver.Loc
def main : IO Unit := BioCantor.Driver.runModel BioCantor.Driver.Loc.ops
