import BioCantor.Driver.Main
import BioCantor.Driver.SpecLoc
def main : IO Unit := BioCantor.Driver.runSpec BioCantor.Driver.SpecLoc.ops
