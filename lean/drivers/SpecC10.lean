import BioCantor.Driver.Main
import BioCantor.Driver.SpecCache
def main : IO Unit := BioCantor.Driver.runSpec BioCantor.Driver.SpecCache.ops
