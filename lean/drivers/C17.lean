import BioCantor.Driver.Main
import BioCantor.Driver.Tbl
def main : IO Unit := BioCantor.Driver.runModel BioCantor.Driver.Tbl.ops
