import BioCantor.Driver.Main
import BioCantor.Driver.SpecChunk
def main : IO Unit := BioCantor.Driver.runSpec BioCantor.Driver.SpecChunk.ops
