import BioCantor.Driver.SpecChunk
def main : IO Unit := BioCantor.Driver.SpecChunk.parMain true BioCantor.Driver.SpecChunk.ops
