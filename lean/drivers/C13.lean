import BioCantor.Driver.Main
import BioCantor.Driver.Variants
def main : IO Unit := BioCantor.Driver.runModel BioCantor.Driver.Variants.ops
