import BioCantor.Driver.Main
import BioCantor.Driver.SpecTbl
def main : IO Unit := BioCantor.Driver.runSpec BioCantor.Driver.SpecTbl.ops
