import BioCantor.Driver.Main
import BioCantor.Driver.SpecBins
def main : IO Unit := BioCantor.Driver.runSpec BioCantor.Driver.SpecBins.ops
