import BioCantor.Driver.Main
import BioCantor.Driver.SpecQualifiers
def main : IO Unit := BioCantor.Driver.runSpec BioCantor.Driver.SpecQual.ops
