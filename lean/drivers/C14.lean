import BioCantor.Driver.Main
import BioCantor.Driver.Bed
def main : IO Unit := BioCantor.Driver.runModel BioCantor.Driver.Bed.opsRepaired
