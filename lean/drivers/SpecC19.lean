import BioCantor.Driver.Main
import BioCantor.Driver.SpecValidate
def main : IO Unit := BioCantor.Driver.runSpec BioCantor.Driver.SpecValidate.ops
