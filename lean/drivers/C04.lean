import BioCantor.Driver.Main
import BioCantor.Driver.Lift
def main : IO Unit := BioCantor.Driver.runModel BioCantor.Driver.Lift.ops
