import BioCantor.Driver.Main
import BioCantor.Driver.SpecTranscript
def main : IO Unit := BioCantor.Driver.runSpec BioCantor.Driver.SpecTranscript.ops
