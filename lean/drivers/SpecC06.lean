import BioCantor.Driver.SpecTranscript
def main : IO Unit := BioCantor.Driver.SpecTranscript.main
