import BioCantor.Driver.Main
import BioCantor.Driver.SpecVariants
def main : IO Unit := BioCantor.Driver.runSpec BioCantor.Driver.SpecVariants.ops
