import BioCantor.Driver.Main
import BioCantor.Driver.Bins
def main : IO Unit := BioCantor.Driver.runModel BioCantor.Driver.Bins.ops
