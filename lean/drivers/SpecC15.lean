import BioCantor.Driver.Main
import BioCantor.Driver.SpecTables
def main : IO Unit := BioCantor.Driver.runSpec BioCantor.Driver.SpecTables.ops
