import BioCantor.Driver.Main
import BioCantor.Driver.SpecCDS
def main : IO Unit := BioCantor.Driver.runSpec BioCantor.Driver.SpecCDS.ops
