import BioCantor.Driver.Main
import BioCantor.Driver.SpecLift
def main : IO Unit := BioCantor.Driver.runSpec BioCantor.Driver.SpecLift.ops
