import BioCantor.Driver.Main
import BioCantor.Driver.Cache
def main : IO Unit := BioCantor.Driver.runModel BioCantor.Driver.Cache.ops
