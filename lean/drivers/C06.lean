import BioCantor.Driver.Main
import BioCantor.Driver.Transcript
def main : IO Unit := BioCantor.Driver.runModel BioCantor.Driver.Transcript.ops
