import BioCantor.Driver.Transcript
def main : IO Unit := BioCantor.Driver.Transcript.main
