import BioCantor.Driver.Main
import BioCantor.Driver.SpecBed
def main : IO Unit := BioCantor.Driver.runSpec BioCantor.Driver.SpecBed.ops
