import BioCantor.Driver.Main
import BioCantor.Driver.Query
def main : IO Unit := BioCantor.Driver.runModel BioCantor.Driver.Query.ops
