import BioCantor.Driver.Main
import BioCantor.Driver.SpecAlgebra
def main : IO Unit := BioCantor.Driver.runSpec BioCantor.Driver.SpecAlgebra.ops
