import BioCantor.Driver.Main
import BioCantor.Driver.Validate
def main : IO Unit := BioCantor.Driver.runModel BioCantor.Driver.Validate.ops
