import BioCantor.Driver.Main
import BioCantor.Driver.SpecGff
def main : IO Unit := BioCantor.Driver.runSpec BioCantor.Driver.SpecGff.ops
