import BioCantor.Driver.Main
import BioCantor.Driver.Qualifiers
def main : IO Unit := BioCantor.Driver.runModel BioCantor.Driver.Qual.ops
