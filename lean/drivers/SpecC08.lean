import BioCantor.Driver.Main
import BioCantor.Driver.SpecDigest
def main : IO Unit := BioCantor.Driver.runSpec BioCantor.Driver.SpecDig.ops
