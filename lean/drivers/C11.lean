import BioCantor.Driver.Main
import BioCantor.Driver.Gff
def main : IO Unit := BioCantor.Driver.runModel BioCantor.Driver.Gff.ops
