import BioCantor.Driver.Main
import BioCantor.Driver.Algebra
def main : IO Unit := BioCantor.Driver.runModel BioCantor.Driver.Algebra.ops
