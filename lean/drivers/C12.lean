import BioCantor.Driver.Main
import BioCantor.Driver.Genbank
def main : IO Unit := BioCantor.Driver.runModel BioCantor.Driver.Gb.ops
