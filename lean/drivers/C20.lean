import BioCantor.Driver.Main
import BioCantor.Driver.Aggregates
def main : IO Unit := BioCantor.Driver.runModel BioCantor.Driver.Agg.ops
