import BioCantor.Driver.Main
import BioCantor.Driver.CDS
def main : IO Unit := BioCantor.Driver.runModel BioCantor.Driver.CDS.ops
