import BioCantor.Driver.Main
import BioCantor.Driver.SpecGenbank
def main : IO Unit := BioCantor.Driver.runSpec BioCantor.Driver.SpecGb.ops
