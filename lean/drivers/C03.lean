import BioCantor.Driver.Main
import BioCantor.Driver.Sequence
def main : IO Unit := BioCantor.Driver.runModel BioCantor.Driver.Sequence.ops
