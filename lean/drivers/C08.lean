import BioCantor.Driver.Main
import BioCantor.Driver.Digest
def main : IO Unit := BioCantor.Driver.runModel BioCantor.Driver.Dig.ops
