import BioCantor.Driver.Main
import BioCantor.Driver.Tables
def main : IO Unit := BioCantor.Driver.runModel BioCantor.Driver.Tables.ops
