/-
  Spec driver: `<op> <args> => <implementation's answer>`  ↦  pass | fail | n/a
  Imports only Base and Spec (never Gen/Model/Props), so it still builds when those do not.
-/
import BioCantor.Driver.SpecAll
open BioCantor

def table : List (String × Proto.Op) := Driver.specTable

partial def loop (h : IO.FS.Stream) (out : IO.FS.Stream) : IO Unit := do
  let line ← h.getLine
  if line.isEmpty then return ()
  let l := String.ofList (line.toList.filter (fun c => c != '\n' && c != '\r'))
  let r := Proto.runOp table l
  out.putStrLn (if r.startsWith "bad-op" then "n/a" else r)
  loop h out

def main : IO Unit := do
  loop (← IO.getStdin) (← IO.getStdout)
