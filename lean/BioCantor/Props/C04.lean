import BioCantor.Spec.Lift
import BioCantor.Model.Lift
namespace BioCantor.Props.C04
theorem placeholder : True := trivial
end BioCantor.Props.C04
