/-
  C04 — Lift-over through nested coordinate systems composes and preserves sequence.

  Property theorems only (helper lemmas in BioCantor/Proofs/Lift*.lean).  They quantify over EVERY
  well-formed child location, EVERY chain of ancestor levels (any depth, any mixture of strands,
  single / multi-block / self-overlapping placements, missing placements, levels without sequence),
  every target and every chunk window.
-/
import BioCantor.Proofs.LiftMain
import BioCantor.Proofs.LiftRelocate
set_option autoImplicit false   -- an unresolved name in a statement must be an error, never a bound variable
namespace BioCantor.Props.C04
open BioCantor BioCantor.Spec BioCantor.Model BioCantor.Proofs

/-- T1+T2+T3: `lift_over_to_first_ancestor_of_type` — refused when no ancestor has the type, when a placement
    on the way is missing, or when a position does not fit a placement; otherwise the answer has the composed
    strand, is well formed, covers exactly the child's bases mapped through every level in between (same order
    for non-self-overlapping directional layouts, same multiset otherwise), and — when every crossed level
    carries sequence consistent with its placement — reads the same letters from the ancestor as the child
    reads from its own parent. -/
theorem lift_to_type (t : List Char) (c : Location) (ch : Chain) (hc : WF c) (hch : ChainWF ch)
    (hcons : Consistent (ch.map toSLevel)) :
    okLiftType t c (ch.map toSLevel) (ans (Prod.fst <$> liftToType t c ch)) = true :=
  liftToType_ok t c ch hc hch hcons

/-- the same for `lift_over_to_sequence` (which may additionally refuse non-contiguous locations) -/
theorem lift_to_sequence (k : SeqKey) (c : Location) (ch : Chain) (hc : WF c) (hch : ChainWF ch)
    (hcons : Consistent (ch.map toSLevel)) :
    okLiftSeq k c (ch.map toSLevel) (ans (Prod.fst <$> liftToSeq k c ch)) = true :=
  liftToSeq_ok k c ch hc hch hcons

/-- T4: lifting a chromosome location onto a sequence chunk returns the empty location exactly when nothing
    of it lies in the chunk; otherwise its blocks, lifted back, are exactly the non-empty clips of the
    location's blocks by the chunk window (block structure kept), on the strand relative to the chunk's. -/
theorem chunk_down (l : Location) (hl : WF l) (w : Blk) (wst : Strand) :
    okChunkDown l w wst (ans (chunkDown l w wst)) = true :=
  chunkDown_ok l hl w wst

/-- T5: the whole of `liftover_location_to_seq_chunk_parent` on hierarchies with REAL sequence.  Chunk A (window
    `w1`, strand `s1`) is cut from the chromosome `G` by `seq_chunk_to_parent`; optionally a spliced sequence sits
    on it by the placement `tx`; the child `c` lives on the nearest of the two and is moved onto another chunk of
    `G` (`tgt = some (w2, s2)`) or onto `G` as a whole (`tgt = none`).  For EVERY genome, every pair of windows and
    strands, every well-formed placement and child (any number of blocks, self-overlapping ones included):
      * hierarchies that cannot exist (window off the chromosome, placement beyond the chunk, child beyond its
        parent) and children with a position off their placement are refused;
      * otherwise the answer covers exactly the child's bases composed through EVERY level up to the chromosome,
        clipped to the target window and expressed in the target's coordinates (mirrored on a minus window), on
        the composed strand — in the same 5'→3' order for non-self-overlapping layouts, as a multiset otherwise —
        and is the empty location exactly when no composed base lies in the window;
      * the letters extracted from the answer on the target are the chromosome's letters at the composed
        positions, complemented where the composed orientation is minus (lift-over preserves sequence).
    Both the location clause and the sequence clause are proved; nothing is left out. -/
theorem relocate_spec (G : List Char) (w1 : Blk) (s1 : Strand) (tx : Option Location) (c : Location)
    (tgt : Option (Blk × Strand)) (hc : WF c) (htx : ∀ t, tx = some t → WF t) :
    okRelocate G w1 s1 tx c tgt (ans (relocate G w1 s1 tx c tgt)) = true :=
  Reloc.relocate_ok G w1 s1 tx c tgt hc htx

-- non-vacuity of `relocate_spec`: a two-block child (minus) on a two-block spliced sequence (minus) on a minus-strand
-- chunk; the hypotheses hold and the model answers with a location and letters
example : WF (.compound ⟨[(0, 1), (2, 4)], .minus⟩) := by decide
example : ∀ t, (some (Location.compound ⟨[(0, 2), (4, 7)], .minus⟩)) = some t → WF t := by
  intro t h; injection h with h; subst h; decide

-- non-vacuity: a two-level chain with a minus-strand two-block placement and consistent sequences
example : ChainWF [⟨['a'], ['x'], some ['T', 'C', 'A'], none⟩,
                   ⟨['c'], ['c', 'h', 'r'], some ['A', 'A', 'T', 'G', 'A', 'C'], some (.compound ⟨[(2, 4), (4, 5)], .minus⟩)⟩] := by
  intro l hl p hp
  simp at hl
  rcases hl with rfl | rfl
  · simp at hp
  · simp at hp; subst hp; decide
example : Consistent ([⟨['a'], ['x'], some ['T', 'C', 'A'], none⟩,
                       ⟨['c'], ['c', 'h', 'r'], some ['A', 'A', 'T', 'G', 'A', 'C'], some (.compound ⟨[(2, 4), (4, 5)], .minus⟩)⟩].map toSLevel) := by
  simp [Consistent, toSLevel, readSeq, locationBases, bases, basesMinus, blkDesc, blkAsc, strandOf, locationStrand?, complACGT]
  decide

end BioCantor.Props.C04
