/-
  C04 — Lift-over through nested coordinate systems composes and preserves sequence.

  Property theorems only (helper lemmas in BioCantor/Proofs/Lift*.lean).  They quantify over EVERY
  well-formed child location, EVERY chain of ancestor levels (any depth, any mixture of strands,
  single / multi-block / self-overlapping placements, missing placements, levels without sequence),
  every target and every chunk window.
-/
import BioCantor.Proofs.LiftMain
namespace BioCantor.Props.C04
open BioCantor BioCantor.Spec BioCantor.Model BioCantor.Proofs

/-- T1+T2+T3: `lift_over_to_first_ancestor_of_type` — refused when no ancestor has the type, when a placement
    on the way is missing, or when a position does not fit a placement; otherwise the answer has the composed
    strand, is well formed, covers exactly the child's bases mapped through every level in between (same order
    for non-self-overlapping directional layouts, same multiset otherwise), and — when every crossed level
    carries sequence consistent with its placement — reads the same letters from the ancestor as the child
    reads from its own parent. -/
theorem lift_to_type (t : List Char) (c : Location) (ch : Chain) (hc : WF c) (hch : ChainWF ch)
    (hcons : Consistent (ch.map toSLevel)) :
    okLiftType t c (ch.map toSLevel) (ans (Prod.fst <$> liftToType t c ch)) = true :=
  liftToType_ok t c ch hc hch hcons

/-- the same for `lift_over_to_sequence` (which may additionally refuse non-contiguous locations) -/
theorem lift_to_sequence (k : SeqKey) (c : Location) (ch : Chain) (hc : WF c) (hch : ChainWF ch)
    (hcons : Consistent (ch.map toSLevel)) :
    okLiftSeq k c (ch.map toSLevel) (ans (Prod.fst <$> liftToSeq k c ch)) = true :=
  liftToSeq_ok k c ch hc hch hcons

/-- T4: lifting a chromosome location onto a sequence chunk returns the empty location exactly when nothing
    of it lies in the chunk; otherwise its blocks, lifted back, are exactly the non-empty clips of the
    location's blocks by the chunk window (block structure kept), on the strand relative to the chunk's. -/
theorem chunk_down (l : Location) (hl : WF l) (w : Blk) (wst : Strand) :
    okChunkDown l w wst (ans (chunkDown l w wst)) = true :=
  chunkDown_ok l hl w wst

-- non-vacuity: a two-level chain with a minus-strand two-block placement and consistent sequences
example : ChainWF [⟨['a'], ['x'], some ['T', 'C', 'A'], none⟩,
                   ⟨['c'], ['c', 'h', 'r'], some ['A', 'A', 'T', 'G', 'A', 'C'], some (.compound ⟨[(2, 4), (4, 5)], .minus⟩)⟩] := by
  intro l hl p hp
  simp at hl
  rcases hl with rfl | rfl
  · simp at hp
  · simp at hp; subst hp; decide
example : Consistent ([⟨['a'], ['x'], some ['T', 'C', 'A'], none⟩,
                       ⟨['c'], ['c', 'h', 'r'], some ['A', 'A', 'T', 'G', 'A', 'C'], some (.compound ⟨[(2, 4), (4, 5)], .minus⟩)⟩].map toSLevel) := by
  simp [Consistent, toSLevel, readSeq, locationBases, bases, basesMinus, blkDesc, blkAsc, strandOf, locationStrand?, complACGT]
  decide

end BioCantor.Props.C04
