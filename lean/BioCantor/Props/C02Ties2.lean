/-
  C02 ties, part 2 — more of the SET ALGEBRA of location_impl.py / location.py is REGENERATED from source on every run
  (tools/translate.py → Gen/Kernels.lean) and proved equal to the hand-written model of Model/Algebra.lean:

    Gen.SingleInterval_union_single_interval     SingleInterval._union_single_interval            ↔ Model.unionSS
    Gen.SingleInterval_intersection              SingleInterval.intersection (SingleInterval arg) ↔ Model.isectSS
    Gen.Location_contains_si                     Location.contains (two SingleIntervals)          ↔ Model.containsBlk
    Gen.SingleInterval_has_overlap_ci            SingleInterval.has_overlap (CompoundInterval arg)↔ Model.hasOverlap
    Gen.SingleInterval_minus (+ _loop1)          SingleInterval.minus (CompoundInterval arg)      ↔ Model.singleMinus / minusWalk
    Gen.CompoundInterval_shift_position          CompoundInterval.shift_position                  ↔ Model.shiftP
    Gen.CompoundInterval_union_single_interval (+ _loop1)
                                                 CompoundInterval._union_single_interval          ↔ Model.unionCS

  Views: every operand is parent-less (`x.parent`, `x.parent_id` are None, `is_empty` is False: checked against the
  classes by the translator's `parentless_guards` / `algebra_guards`); `full_span` and `strict_parent_compare` are at
  their defaults (False); a SingleInterval is `si b st`, a CompoundInterval `toCI l` (stored blocks, each carrying the
  location's strand).  For `minus` the argument is a CompoundInterval (view CI, `other.blocks`); a SingleInterval
  argument takes the other branch of `has_overlap` and is not covered by this kernel.

  Results are `LocOut` (GenPrelude): the object constructions the translator does not compile stay symbolic
  (CONSTRUCTOR CUT) — `compound starts ends strand opt` = the arguments of `CompoundInterval(starts, ends, strand, …)`,
  `fromBlocks bs opt` = the argument of `CompoundInterval._from_single_intervals_no_validation(bs)`, `opt` = followed
  by `.optimize_blocks()`.  `finishLoc` (Proofs/AlgTies2.lean) is the model's reading of them (`mkCompoundLoc`,
  `optimizeLoc true`), and `AgreeK finishLoc g m` says: when the kernel returns `o`, `finishLoc o` IS the model's
  answer; when it raises, the model raises the corresponding class.
  Only theorems and examples here; lemmas are in Proofs/AlgTies2.lean.
-/
import BioCantor.Proofs.AlgTies2
set_option autoImplicit false
namespace BioCantor.Props.C02Ties2
open BioCantor BioCantor.GenP BioCantor.Proofs BioCantor.Proofs.Ties BioCantor.Proofs.LoopTies
open BioCantor.Proofs.AlgTies (optLoc)
open BioCantor.Proofs.AlgTies2 (finishLoc)
open BioCantor.Model

/-- U1: `SingleInterval._union_single_interval` on two constructor-valid intervals of one strand (the method is
    private: `union` has raised ValueError for different strands before calling it) — the zero-length shortcuts, the
    generated `has_overlap`, the `min/max` merge and the final `CompoundInterval((a, b), (c, d), strand, …)` (kept
    symbolic, read by `finishLoc`) — IS `Model.unionSS` with an open parent gate; no path raises. -/
theorem single_union_single_tie (a b : Blk) (ha : a.1 ≤ a.2) (hb : b.1 ≤ b.2) (st : Strand) :
    AgreeK finishLoc (Gen.SingleInterval_union_single_interval (si a st) (si b st)) (unionSS a b st true) := by
  exact AlgTies2.union_ss a b ha hb st

/-- U2: `SingleInterval.intersection(other: SingleInterval, match_strand)` — the generated method (its calls of the
    generated `has_overlap` and `_intersection_single_interval` included) = `Model.isectSS`: EmptyLocation when the
    strand gate or the overlap test fails, `(max starts, min ends)` on self's strand otherwise. -/
theorem single_intersection_single_tie (a b : Blk) (ha : a.1 ≤ a.2) (hb : b.1 ≤ b.2) (sa sb : Strand) (ms : Bool) :
    Agree optLoc (Gen.SingleInterval_intersection (si a sa) (si b sb) ms) (isectSS a sa b sb ms) := by
  exact AlgTies2.intersection_ss a b ha hb sa sb ms

/-- U3: `Location.contains(other, match_strand)` on two parent-less SingleIntervals — `has_overlap`, the two
    `reset_parent(None)`, `len(self ∩ other) == len(other)` through the generated `intersection` — never raises and
    is the strand gate followed by `Model.containsBlk`, the test `Model.minusWalk` uses. -/
theorem contains_single_single_tie (x y : Blk) (hx : x.1 ≤ x.2) (hy : y.1 ≤ y.2) (sx sy : Strand) (ms : Bool) :
    Gen.Location_contains_si (si x sx) (si y sy) ms
      = .ok (if ms = true ∧ sx ≠ sy then false else containsBlk x y) := by
  exact AlgTies2.contains_eq x y hx hy sx sy ms

/-- U4: `SingleInterval.has_overlap(other: CompoundInterval, match_strand)` — the strand gate, then the dispatch to the
    generated `CompoundInterval.has_overlap(self, match_strand, full_span)` — = `Model.hasOverlap`. -/
theorem single_has_overlap_compound_tie (a : Blk) (ha : a.1 ≤ a.2) (sa : Strand) (l : Loc)
    (hl : WF (.compound l)) (ms : Bool) :
    Agree id (Gen.SingleInterval_has_overlap_ci (si a sa) (toCI l) ms)
      (Model.hasOverlap (.single a sa) (.compound l) ms false) := by
  exact AlgTies2.has_overlap_ci a ha sa l hl.2.1 ms

/-- U5: `SingleInterval.minus(other: CompoundInterval, match_strand)` — the `has_overlap` gate (`return self`), the
    moving-window loop over `other.blocks` with `block.contains(self, match_strand)` (`return EmptyLocation()`),
    `continue` / `break`, the two result lists and the final
    `CompoundInterval(result_starts, result_ends, self.strand, …).optimize_blocks()` (symbolic, read by `finishLoc`)
    — IS `Model.singleMinus`, for every constructor-valid interval and location. -/
theorem single_minus_compound_tie (a : Blk) (ha : a.1 ≤ a.2) (sa : Strand) (l : Loc) (hl : WF (.compound l))
    (ms : Bool) :
    AgreeK finishLoc (Gen.SingleInterval_minus (si a sa) (toCI l) ms) (singleMinus a sa (.compound l) ms) := by
  exact AlgTies2.minus_tie a ha sa l hl.2.1 ms

/-- U5b: the loop alone: from any state the generated loop function is `Model.minusWalk` (`walkOut`: `none` ↦
    `EmptyLocation()`, `some bs` ↦ the constructor arguments), once the strand test inside `contains` is decided. -/
theorem single_minus_loop_tie (self : Blk) (hs : self.1 ≤ self.2) (sa st out : Strand) (ms : Bool)
    (hgate : ¬ (ms = true ∧ st ≠ sa)) (bs : List Blk) (hv : blocksValid bs = true) (cs ce : Nat) (acc : List Blk) :
    AlgTies2.afterMinus out (Gen.SingleInterval_minus_loop1 (si self sa) ms (bs.map (fun b => si b st))
        (AlgTies2.accS acc) (AlgTies2.accE acc) (cs : Int) (ce : Int))
      = .ok (AlgTies2.walkOut out (minusWalk self bs cs ce acc)) := by
  exact AlgTies2.minus_loop self hs sa st out ms hgate bs cs ce acc hv

/-- U6: `CompoundInterval._union_single_interval(other)` with `other` on the location's strand (private: `union` has
    checked the strands) — the partition loop over `self._single_intervals` with the generated `has_overlap`,
    `min(other.start, min([...]))` / `max(other.end, max([...]))`, the `SingleInterval(...)` of all overlappers and
    `_from_single_intervals_no_validation(non_overlapping_blocks + [...]).optimize_blocks()` (symbolic) — IS
    `Model.unionCS` with an open parent gate; the ValueError of `min([])` is unreachable. -/
theorem compound_union_single_tie (l : Loc) (hl : WF (.compound l)) (b : Blk) (hb : b.1 ≤ b.2) :
    AgreeK finishLoc (Gen.CompoundInterval_union_single_interval (toCI l) (si b l.strand)) (unionCS l b true) := by
  exact AlgTies2.union_cs l hl.2.1 b hb

/-- U7: `CompoundInterval.shift_position(shift)` — the two `tuple(interval.start/end + shift for …)` and the
    `CompoundInterval(starts, ends, self.strand, self.parent)` call (symbolic), continued by the model's reading of
    the constructor (`finishLocP`: `finishLoc`, no parent) — IS `Model.shiftP` on a parent-less location, for EVERY
    block list and shift (InvalidPosition for a block start below 0 included). -/
theorem compound_shift_position_tie (l : Loc) (k : Int) :
    AgreeK AlgTies2.finishLocP (Gen.CompoundInterval_shift_position (toCI l) k) (shiftP (.compound l, []) k) := by
  exact AlgTies2.shift_cs l k

/-- U7c: the statements of `shift_position` after the cut (they force the per-block SingleInterval constructors — the
    bound checks against a parent's sequence, nothing for a parent-less location); pinned as text. -/
theorem compound_shift_position_tail_pinned :
    Gen.CompoundInterval_shift_position_tail = ["_ = r._single_intervals".toList, "return r".toList] := by
  decide

/-! ### The hypotheses are satisfiable; sanity facts.  Each right-hand side was ALSO obtained from the real library
    (`PYTHONPATH=/repo /venv/bin/python`); for `LocOut.compound` / `fromBlocks` the library's final object is given in
    the comment (`finishLoc` sorts with `List.mergeSort`, which `decide` cannot unfold). -/

def cl : Loc := ⟨[(2, 5), (8, 12), (15, 18)], .plus⟩
def c2 : Loc := ⟨[(2, 5), (8, 12)], .plus⟩
example : WF (.compound cl) ∧ WF (.compound c2) ∧ ((2, 5) : Blk).1 ≤ ((2, 5) : Blk).2 := by decide
example : ¬ (true = true ∧ Strand.plus ≠ Strand.plus) := by decide

-- S(2,5,+)._union_single_interval(S(4,9,+)) = <2-9:+>; with S(7,9,+): CompoundInterval <2-5:+, 7-9:+>;
-- S(5,5,+) with S(7,9,+) = <7-9:+>; adjacent S(2,5,+), S(5,8,+): CompoundInterval <2-5:+, 5-8:+>; other strand: ValueError
example : Gen.SingleInterval_union_single_interval (si (2, 5) .plus) (si (4, 9) .plus) = .ok (.single ⟨2, 9, .plus⟩) := by
  decide
example : Gen.SingleInterval_union_single_interval (si (2, 5) .plus) (si (7, 9) .plus)
    = .ok (.compound [2, 7] [5, 9] .plus false) := by decide
example : Gen.SingleInterval_union_single_interval (si (5, 5) .plus) (si (7, 9) .plus) = .ok (.single ⟨7, 9, .plus⟩) := by
  decide
example : Gen.SingleInterval_union_single_interval (si (2, 5) .plus) (si (5, 8) .plus)
    = .ok (.compound [2, 5] [5, 8] .plus false) := by decide
example : Gen.SingleInterval_union_single_interval (si (2, 5) .plus) (si (7, 9) .minus) = .error .ValueError := by decide

-- S(3,10,+).intersection(S(5,12,-), match_strand=False) = <5-10:+>; match_strand=True: EmptyLocation; S(10,12,+): EmptyLocation
example : Gen.SingleInterval_intersection (si (3, 10) .plus) (si (5, 12) .minus) false = .ok (some ⟨5, 10, .plus⟩) := by
  decide
example : Gen.SingleInterval_intersection (si (3, 10) .plus) (si (5, 12) .minus) true = .ok none := by decide
example : Gen.SingleInterval_intersection (si (3, 10) .plus) (si (10, 12) .plus) true = .ok none := by decide

-- S(3,10,+).contains(S(5,8,-)) = True; .contains(S(5,12,+)) = False; .contains(S(5,8,-), match_strand=True) = False
example : Gen.Location_contains_si (si (3, 10) .plus) (si (5, 8) .minus) false = .ok true := by decide
example : Gen.Location_contains_si (si (3, 10) .plus) (si (5, 12) .plus) false = .ok false := by decide
example : Gen.Location_contains_si (si (3, 10) .plus) (si (5, 8) .minus) true = .ok false := by decide

-- cl = CompoundInterval([2,8,15],[5,12,18],+): S(4,9,+).has_overlap(cl) = True; S(5,8,+): False; S(4,9,-), match_strand: False
example : Gen.SingleInterval_has_overlap_ci (si (4, 9) .plus) (toCI cl) false = .ok true := by decide
example : Gen.SingleInterval_has_overlap_ci (si (5, 8) .plus) (toCI cl) false = .ok false := by decide
example : Gen.SingleInterval_has_overlap_ci (si (4, 9) .minus) (toCI cl) true = .ok false := by decide

-- c2 = CompoundInterval([2,8],[5,12],+): S(0,20,+).minus(c2) = CompoundInterval <0-2:+, 5-8:+, 12-20:+>;
-- S(3,4,+).minus(c2) = EmptyLocation; S(3,10,+).minus(c2) = <5-8:+>;
-- S(6,7,+).minus(c2) = <6-7:+> (no overlap: self); S(3,10,-).minus(c2) = self (strands differ), with
-- match_strand=False <5-8:->;  S(4,20,-).minus(CompoundInterval([2,8,15],[5,12,30],-)) = CompoundInterval <5-8:-, 12-15:->
example : Gen.SingleInterval_minus (si (0, 20) .plus) (toCI c2) true
    = .ok (.compound [0, 5, 12] [2, 8, 20] .plus true) := by decide
example : Gen.SingleInterval_minus (si (3, 4) .plus) (toCI c2) true = .ok .empty := by decide
example : Gen.SingleInterval_minus (si (3, 10) .plus) (toCI c2) true = .ok (.compound [5] [8] .plus true) := by
  decide
example : Gen.SingleInterval_minus (si (6, 7) .plus) (toCI c2) true = .ok (.single ⟨6, 7, .plus⟩) := by decide
example : Gen.SingleInterval_minus (si (3, 10) .minus) (toCI c2) true = .ok (.single ⟨3, 10, .minus⟩) := by decide
example : Gen.SingleInterval_minus (si (3, 10) .minus) (toCI c2) false = .ok (.compound [5] [8] .minus true) := by
  decide
example : Gen.SingleInterval_minus (si (4, 20) .minus) (toCI ⟨[(15, 30), (8, 12), (2, 5)].reverse, .minus⟩) true
    = .ok (.compound [5, 12] [8, 15] .minus true) := by decide

-- cl._union_single_interval(S(4,9,+)) = CompoundInterval <2-12:+, 15-18:+>; with S(6,7,+): <2-5, 6-7, 8-12, 15-18>
-- (blocks appended then sorted by the constructor); with S(0,30,+): <0-30:+>; with S(12,15,+): <2-5:+, 8-18:+>
example : Gen.CompoundInterval_union_single_interval (toCI cl) (si (4, 9) .plus)
    = .ok (.fromBlocks [⟨15, 18, .plus⟩, ⟨2, 12, .plus⟩] true) := by decide
example : Gen.CompoundInterval_union_single_interval (toCI cl) (si (6, 7) .plus)
    = .ok (.fromBlocks [⟨2, 5, .plus⟩, ⟨8, 12, .plus⟩, ⟨15, 18, .plus⟩, ⟨6, 7, .plus⟩] true) := by decide
example : Gen.CompoundInterval_union_single_interval (toCI cl) (si (0, 30) .plus)
    = .ok (.fromBlocks [⟨0, 30, .plus⟩] true) := by decide
example : Gen.CompoundInterval_union_single_interval (toCI cl) (si (12, 15) .plus)
    = .ok (.fromBlocks [⟨2, 5, .plus⟩, ⟨8, 12, .plus⟩, ⟨15, 18, .plus⟩, ⟨12, 15, .plus⟩] true) := by decide

-- cl.shift_position(3) = CompoundInterval <5-8:+, 11-15:+, 18-21:+>; cl.shift_position(-2) = <0-3:+, 6-10:+, 13-16:+>;
-- cl.shift_position(-3) raises InvalidPositionException (the constructor, read by `finishLoc`)
example : Gen.CompoundInterval_shift_position (toCI cl) 3 = .ok (.compound [5, 11, 18] [8, 15, 21] .plus false) := by decide
example : Gen.CompoundInterval_shift_position (toCI cl) (-3) = .ok (.compound [-1, 5, 12] [2, 9, 15] .plus false) := by
  decide
example : finishLoc (.compound [-1, 5, 12] [2, 9, 15] .plus false) = .error .InvalidPosition := by decide

end BioCantor.Props.C02Ties2
