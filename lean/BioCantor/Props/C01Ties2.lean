/-
  C01 ties, part 2 — the BLOCK LOOPS of CompoundInterval.  `tools/translate.py` regenerates, on every run, the
  definitions `Gen.CompoundInterval_scan_blocks`, `…_parent_to_relative_pos` (+ `_loop1`), `…_relative_to_parent_pos`
  (+ `_loop1`), `…_relative_interval_to_parent_location` (+ `_loop1`, cut before
  `_from_single_intervals_no_validation(new_blocks).optimize_blocks()`), `…_is_overlapping`, `…_has_overlap` from
  /repo's location_impl.py (for-loops ↦ structurally recursive functions over the block list with the loop's mutable
  locals as explicit state; try/except ↦ a match on the callee's result).  The theorems below say that, on every
  location the CompoundInterval constructor accepts, these generated definitions return the same values and raise
  the corresponding exception classes as the hand-written model (`Model/Location.lean`) that the C01/C02 theorems
  are about.  Editing one of the Python loops changes the generated definition and breaks the proof here.

  Vocabulary (Proofs/Ties.lean, Proofs/LoopTies.lean): `toCI l : CI` = the blocks of `l` as `SI`s (each with `l`'s
  strand) + the strand; `si b st = ⟨b.1, b.2, st⟩`; `siBlk s = (s.start.toNat, s.end.toNat)`;
  `Agree f g m` ⇔ generated answer `g`, values through `f` and exception classes through `mapExc`, IS the model
  answer `m`; `AgreeK k g m` ⇔ the same when the generated kernel stops at a documented CUT and `k` is the model's
  own continuation from there.  Only `theorem`s and their satisfiability `example`s here; lemmas are in Proofs/.
-/
import BioCantor.Proofs.LoopTies
namespace BioCantor.Props.C01Ties2
open BioCantor BioCantor.GenP BioCantor.Proofs BioCantor.Proofs.Ties BioCantor.Proofs.LoopTies

/-- L1: `CompoundInterval.scan_blocks` — the generated generator (assert_directional, then `yield from self.blocks`
    / `reversed(self.blocks)`) returns the model's 5'→3' block list; InvalidStrandException ↦ InvalidStrand. -/
theorem compound_scan_blocks_tie (l : Loc) :
    Agree (List.map siBlk) (Gen.CompoundInterval_scan_blocks (toCI l)) (Model.scanBlocks l) := by
  exact LoopTies.scan_blocks l

/-- L2: `CompoundInterval.parent_to_relative_pos` — the generated for/try/except loop = `Model.p2r`,
    values and exception classes. -/
theorem compound_parent_to_relative_pos_tie (l : Loc) (hl : WF (.compound l)) (p : Int) :
    Agree id (Gen.CompoundInterval_parent_to_relative_pos (toCI l) p) (Model.p2r (.compound l) p) := by
  exact LoopTies.p2r_tie l hl.2.1 p

/-- L3: `CompoundInterval.relative_to_parent_pos` — the generated zip loop (reversed starts/ends on the minus
    strand, early return, final raise) = `Model.r2p`, values and exception classes. -/
theorem compound_relative_to_parent_pos_tie (l : Loc) (hl : WF (.compound l)) (r : Int) :
    Agree id (Gen.CompoundInterval_relative_to_parent_pos (toCI l) r) (Model.r2p (.compound l) r) := by
  exact LoopTies.r2p_tie l hl.2.1 r

/-- L4: `CompoundInterval.relative_interval_to_parent_location` — validation head, zero-length branch and the
    continue/break/append loop of the generated kernel, continued by the model's own tail `finishRel`
    (`_from_single_intervals_no_validation(new_blocks).optimize_blocks()` + `reset_strand`, i.e.
    `mkCompoundLoc`, `optimizeLoc true`, `resetStrand`), IS `Model.relInterval`; when the generated kernel raises,
    the model raises the corresponding class. -/
theorem compound_relative_interval_tie (l : Loc) (hl : WF (.compound l)) (rs re : Int) (rst : Strand) :
    AgreeK (finishRel l.strand)
      (Gen.CompoundInterval_relative_interval_to_parent_location (toCI l) rs re rst)
      (Model.relInterval (.compound l) rs re rst) := by
  exact LoopTies.rel_tie l hl.2.1 rs re rst

/-- L4b: what the generated kernel holds at the cut, for an in-range non-empty request on a directional location:
    exactly the model's sub-blocks (`Model.relWalk` over the blocks in 5'→3' order), each carrying the location's
    strand, and the model's new strand. -/
theorem compound_relative_interval_blocks (l : Loc) (hl : WF (.compound l)) (hu : l.strand ≠ .unstranded)
    (rs re : Int) (h0 : 0 ≤ rs) (h1 : rs < re) (h2 : re ≤ (l.len : Int)) (rst : Strand) :
    Gen.CompoundInterval_relative_interval_to_parent_location (toCI l) rs re rst
      = .ok (.blocks ((Model.relWalk l.strand (scanList l) rs.toNat (re - rs).toNat).map (fun b => si b l.strand))
          (Model.strandRelativeTo rst l.strand)) := by
  exact LoopTies.rel_blocks_eq l hl.2.1 hu rs re h0 h1 h2 rst

/-- L4c: the statements after the cut, which the translator does not compile, read exactly as the model's
    `finishRel` mirrors them (pinned as text: a change there breaks this theorem). -/
theorem compound_relative_interval_tail_pinned :
    Gen.CompoundInterval_relative_interval_to_parent_location_tail
      = ["relative_interval = CompoundInterval._from_single_intervals_no_validation(new_blocks).optimize_blocks()".toList,
         "if new_strand != self.strand:\n    relative_interval = relative_interval.reset_strand(new_strand)".toList,
         "return relative_interval".toList] := by
  decide

/-- L5: `CompoundInterval.is_overlapping` — `any(end > next_start for next_start, end in
    zip(islice(self._starts, 1, None), self._ends))` is the negation of the model's `nonOverlap` flag
    (`Loc.NonOverlap`), for every block list. -/
theorem compound_is_overlapping_tie (l : Loc) :
    Gen.CompoundInterval_is_overlapping (toCI l) = .ok (!(nonOverlap l.blocks)) := by
  exact LoopTies.is_overlapping_tie l

/-- L6: `CompoundInterval.has_overlap(other)` with a parent-less SingleInterval argument and
    match_strand = full_span = False — `any(block.has_overlap(other, …) for block in blocks)` over the generated
    single-interval overlap kernel = `Model.hasOverlap`. -/
theorem compound_has_overlap_tie (l : Loc) (hl : WF (.compound l)) (b : Blk) (hb : b.1 ≤ b.2) (sb : Strand) :
    Agree id (Gen.CompoundInterval_has_overlap (toCI l) (si b sb))
      (Model.hasOverlap (.compound l) (.single b sb) false false) := by
  exact LoopTies.has_overlap_tie l hl.2.1 b hb sb

/-! ### The hypotheses are satisfiable (three blocks, one of them empty; minus strand) -/

def exLoc : Loc := ⟨[(2, 5), (7, 7), (8, 12)], .minus⟩
def exOv : Loc := ⟨[(2, 5), (4, 9), (10, 12)], .plus⟩

example : WF (.compound exLoc) := by decide
example : WF (.compound exOv) := by decide
example : exLoc.strand ≠ .unstranded ∧ (0 : Int) ≤ 1 ∧ (1 : Int) < 6 ∧ (6 : Int) ≤ (exLoc.len : Int) := by decide
example : ((5, 8) : Blk).1 ≤ ((5, 8) : Blk).2 := by decide

/-! ### Sanity facts about the generated definitions on concrete inputs.  Each right-hand side was ALSO obtained
    from the real library (`/venv/bin/python`, PYTHONPATH=/repo; see the harness's `gp2r/gr2p/grelint` ops for the
    per-run version of this comparison):
      c1 = CompoundInterval([2,7,8],[5,7,12],MINUS); c2 = CompoundInterval([2,4,10],[5,9,12],PLUS) -/

example : Gen.CompoundInterval_scan_blocks (toCI exLoc) = .ok [⟨8, 12, .minus⟩, ⟨7, 7, .minus⟩, ⟨2, 5, .minus⟩] := by decide
example : Gen.CompoundInterval_parent_to_relative_pos (toCI exLoc) 3 = .ok 5 := by decide
example : Gen.CompoundInterval_parent_to_relative_pos (toCI exLoc) 11 = .ok 0 := by decide
example : Gen.CompoundInterval_parent_to_relative_pos (toCI exLoc) 7 = .error .InvalidPositionException := by decide
example : Gen.CompoundInterval_parent_to_relative_pos (toCI ⟨exLoc.blocks, .unstranded⟩) 3
    = .error .InvalidStrandException := by decide
example : Gen.CompoundInterval_relative_to_parent_pos (toCI exLoc) 0 = .ok 11 := by decide
example : Gen.CompoundInterval_relative_to_parent_pos (toCI exLoc) 4 = .ok 4 := by decide
example : Gen.CompoundInterval_relative_to_parent_pos (toCI exLoc) 7 = .error .InvalidPositionException := by decide
example : Gen.CompoundInterval_relative_to_parent_pos (toCI exOv) 3 = .ok 4 := by decide
example : Gen.CompoundInterval_relative_interval_to_parent_location (toCI exLoc) 1 6 .plus
    = .ok (.blocks [⟨8, 11, .minus⟩, ⟨3, 5, .minus⟩] .minus) := by decide
example : Gen.CompoundInterval_relative_interval_to_parent_location (toCI exLoc) 7 7 .minus
    = .ok (.single ⟨2, 2, .plus⟩) := by decide
example : Gen.CompoundInterval_relative_interval_to_parent_location (toCI exOv) 3 9 .minus
    = .ok (.blocks [⟨4, 9, .plus⟩, ⟨10, 11, .plus⟩] .minus) := by decide
example : Gen.CompoundInterval_relative_interval_to_parent_location (toCI exLoc) 3 8 .plus
    = .error .InvalidPositionException := by decide
-- (`finishRel` sorts with `List.mergeSort`, which the kernel cannot unfold: no `decide` fact about it here; the real
--  library answers `CompoundInterval <3-5:-, 8-11:->` for the first request, as the driver op `relint` shows per run)
example : Gen.CompoundInterval_is_overlapping (toCI exLoc) = .ok false := by decide
example : Gen.CompoundInterval_is_overlapping (toCI exOv) = .ok true := by decide
example : Gen.CompoundInterval_has_overlap (toCI exLoc) (si (5, 8) .plus) = .ok false := by decide
example : Gen.CompoundInterval_has_overlap (toCI exLoc) (si (5, 9) .plus) = .ok true := by decide

end BioCantor.Props.C01Ties2
