/-
  C01 ties, part 2 — the BLOCK LOOPS of CompoundInterval.  `tools/translate.py` regenerates, on every run, the
  definitions `Gen.CompoundInterval_scan_blocks`, `…_parent_to_relative_pos` (+ `_loop1`), `…_relative_to_parent_pos`
  (+ `_loop1`), `…_relative_interval_to_parent_location` (+ `_loop1`, cut before
  `_from_single_intervals_no_validation(new_blocks).optimize_blocks()`), `…_is_overlapping`, `…_has_overlap` from
  /repo's location_impl.py (for-loops ↦ structurally recursive functions over the block list with the loop's mutable
  locals as explicit state; try/except ↦ a match on the callee's result).  The theorems below say that, on every
  location the CompoundInterval constructor accepts, these generated definitions return the same values and raise
  the corresponding exception classes as the hand-written model (`Model/Location.lean`) that the C01/C02 theorems
  are about.  Editing one of the Python loops changes the generated definition and breaks the proof here.

  Vocabulary (Proofs/Ties.lean, Proofs/LoopTies.lean): `toCI l : CI` = the blocks of `l` as `SI`s (each with `l`'s
  strand) + the strand; `si b st = ⟨b.1, b.2, st⟩`; `siBlk s = (s.start.toNat, s.end.toNat)`;
  `Agree f g m` ⇔ generated answer `g`, values through `f` and exception classes through `mapExc`, IS the model
  answer `m`; `AgreeK k g m` ⇔ the same when the generated kernel stops at a documented CUT and `k` is the model's
  own continuation from there.  Only `theorem`s and their satisfiability `example`s here; lemmas are in Proofs/.
-/
import BioCantor.Proofs.LoopTies
set_option autoImplicit false
namespace BioCantor.Props.C01Ties2
open BioCantor BioCantor.GenP BioCantor.Proofs BioCantor.Proofs.Ties BioCantor.Proofs.LoopTies
open BioCantor.Model.LoopGlue (siBlk finishRel finishOpt)

/-- L0: the C01 model driver (ops gp2r / gr2p / grelint, executed against the real library on every run) hands
    locations to the generated kernels and reads their answers back through `Model/LoopGlue.lean`; that view is the
    `toCI` / `si` / `siLoc` / `mapExc` view of the theorems in this file and in C01Ties. -/
theorem driver_view (l : Loc) (b : Blk) (st : Strand) (s : SI) (e : PyExc) :
    Model.LoopGlue.toCI l = toCI l ∧ Model.LoopGlue.toSI b st = si b st
      ∧ Model.LoopGlue.siLocation s = siLoc s ∧ Model.LoopGlue.excErr e = mapExc e := by
  exact ⟨LoopTies.glue_toCI l, LoopTies.glue_toSI b st, LoopTies.glue_siLocation s, LoopTies.glue_excErr e⟩

/-- L1: `CompoundInterval.scan_blocks` — the generated generator (assert_directional, then `yield from self.blocks`
    / `reversed(self.blocks)`) returns the model's 5'→3' block list; InvalidStrandException ↦ InvalidStrand. -/
theorem compound_scan_blocks_tie (l : Loc) :
    Agree (List.map siBlk) (Gen.CompoundInterval_scan_blocks (toCI l)) (Model.scanBlocks l) := by
  exact LoopTies.scan_blocks l

/-- L2: `CompoundInterval.parent_to_relative_pos` — the generated for/try/except loop = `Model.p2r`,
    values and exception classes. -/
theorem compound_parent_to_relative_pos_tie (l : Loc) (hl : WF (.compound l)) (p : Int) :
    Agree id (Gen.CompoundInterval_parent_to_relative_pos (toCI l) p) (Model.p2r (.compound l) p) := by
  exact LoopTies.p2r_tie l hl.2.1 p

/-- L3: `CompoundInterval.relative_to_parent_pos` — the generated zip loop (reversed starts/ends on the minus
    strand, early return, final raise) = `Model.r2p`, values and exception classes. -/
theorem compound_relative_to_parent_pos_tie (l : Loc) (hl : WF (.compound l)) (r : Int) :
    Agree id (Gen.CompoundInterval_relative_to_parent_pos (toCI l) r) (Model.r2p (.compound l) r) := by
  exact LoopTies.r2p_tie l hl.2.1 r

/-- L4: `CompoundInterval.relative_interval_to_parent_location` — validation head, zero-length branch and the
    continue/break/append loop of the generated kernel, continued by the model's own tail `finishRel`
    (`_from_single_intervals_no_validation(new_blocks).optimize_blocks()` + `reset_strand`, i.e.
    `mkCompoundLoc`, `optimizeLoc true`, `resetStrand`), IS `Model.relInterval`; when the generated kernel raises,
    the model raises the corresponding class. -/
theorem compound_relative_interval_tie (l : Loc) (hl : WF (.compound l)) (rs re : Int) (rst : Strand) :
    AgreeK (finishRel l.strand)
      (Gen.CompoundInterval_relative_interval_to_parent_location (toCI l) rs re rst)
      (Model.relInterval (.compound l) rs re rst) := by
  exact LoopTies.rel_tie l hl.2.1 rs re rst

/-- L4b: what the generated kernel holds at the cut, for an in-range non-empty request on a directional location:
    exactly the model's sub-blocks (`Model.relWalk` over the blocks in 5'→3' order), each carrying the location's
    strand, and the model's new strand. -/
theorem compound_relative_interval_blocks (l : Loc) (hl : WF (.compound l)) (hu : l.strand ≠ .unstranded)
    (rs re : Int) (h0 : 0 ≤ rs) (h1 : rs < re) (h2 : re ≤ (l.len : Int)) (rst : Strand) :
    Gen.CompoundInterval_relative_interval_to_parent_location (toCI l) rs re rst
      = .ok (.blocks ((Model.relWalk l.strand (scanList l) rs.toNat (re - rs).toNat).map (fun b => si b l.strand))
          (Model.strandRelativeTo rst l.strand)) := by
  exact LoopTies.rel_blocks_eq l hl.2.1 hu rs re h0 h1 h2 rst

/-- L4c: the statements after the cut, which the translator does not compile, read exactly as the model's
    `finishRel` mirrors them (pinned as text: a change there breaks this theorem). -/
theorem compound_relative_interval_tail_pinned :
    Gen.CompoundInterval_relative_interval_to_parent_location_tail
      = ["relative_interval = CompoundInterval._from_single_intervals_no_validation(new_blocks).optimize_blocks()".toList,
         "if new_strand != self.strand:\n    relative_interval = relative_interval.reset_strand(new_strand)".toList,
         "return relative_interval".toList] := by
  decide

/-- L5: `CompoundInterval.is_overlapping` — `any(end > next_start for next_start, end in
    zip(islice(self._starts, 1, None), self._ends))` is the negation of the model's `nonOverlap` flag
    (`Loc.NonOverlap`), for every block list. -/
theorem compound_is_overlapping_tie (l : Loc) :
    Gen.CompoundInterval_is_overlapping (toCI l) = .ok (!(nonOverlap l.blocks)) := by
  exact LoopTies.is_overlapping_tie l

/-- L6a: `SingleInterval.has_overlap(other, match_strand, full_span=False)` on parent-less SingleIntervals — the
    generated method (parent bookkeeping and type dispatch decided statically by the translator's `parentless` view):
    the strand gate, then the generated overlap kernel; never raises. -/
theorem single_has_overlap_tie (a b : Blk) (ha : a.1 ≤ a.2) (hb : b.1 ≤ b.2) (sa sb : Strand) (ms : Bool) :
    Agree id (Gen.SingleInterval_has_overlap (si a sa) (si b sb) ms)
      (Model.hasOverlap (.single a sa) (.single b sb) ms false) := by
  exact LoopTies.si_has_overlap_tie a b ha hb sa sb ms

/-- L6: `CompoundInterval.has_overlap(other, match_strand)` with a parent-less SingleInterval argument and
    full_span = False — `any(block.has_overlap(other, match_strand, full_span=False) for block in blocks)` over the
    generated `SingleInterval.has_overlap` = `Model.hasOverlap`. -/
theorem compound_has_overlap_tie (l : Loc) (hl : WF (.compound l)) (b : Blk) (hb : b.1 ≤ b.2) (sb : Strand)
    (ms : Bool) :
    Agree id (Gen.CompoundInterval_has_overlap (toCI l) (si b sb) ms)
      (Model.hasOverlap (.compound l) (.single b sb) ms false) := by
  exact LoopTies.has_overlap_tie l hl.2.1 b hb sb ms

/-- L7: `CompoundInterval._combine_blocks(preserve_overlappers)` — the generated loop with its running
    `curr_start/curr_end`, `new_starts/new_ends`, `needs_combining` (empty blocks dropped, `curr_end == next_start`
    resp. `curr_end >= next_start`, `new_ends[-1] = max(…)`), continued by the model's `finishOpt`
    (`self` / `EmptyLocation()` / the `CompoundInterval(new_starts, new_ends, self.strand, …)` constructor call,
    then `_to_single_interval_if_one_block`), IS `Model.optimizeLoc preserve`. -/
theorem compound_combine_blocks_tie (l : Loc) (hl : WF (.compound l)) (preserve : Bool) :
    AgreeK (finishOpt l) (Gen.CompoundInterval_combine_blocks (toCI l) preserve) (Model.optimizeLoc preserve l) := by
  exact LoopTies.combine_tie l hl.2.1 preserve

/-- L7b: on a constructor-accepted location the generated `_combine_blocks` never raises: neither the TypeError of
    `None >= int` / `max(None, int)` nor the IndexError of `new_ends[-1] = …` on an empty list is reachable. -/
theorem compound_combine_blocks_total (l : Loc) (hl : WF (.compound l)) (preserve : Bool) :
    ∃ o, Gen.CompoundInterval_combine_blocks (toCI l) preserve = .ok o := by
  exact LoopTies.combine_never_raises l hl.2.1 preserve

/-- L8: `CompoundInterval.optimize_blocks` (generated up to `combined = self._combine_blocks(preserve_overlappers=True)`)
    continued by `finishOpt` IS `Model.optimizeBlocks`. -/
theorem compound_optimize_blocks_tie (l : Loc) (hl : WF (.compound l)) :
    AgreeK (finishOpt l) (Gen.CompoundInterval_optimize_blocks (toCI l)) (Model.optimizeBlocks (.compound l)) := by
  exact LoopTies.optimize_blocks_tie l hl.2.1

/-- L9: `CompoundInterval.optimize_and_combine_blocks` (generated up to
    `combined = self._combine_blocks(preserve_overlappers=False)`) continued by `finishOpt` IS
    `Model.optimizeAndCombine`. -/
theorem compound_optimize_and_combine_blocks_tie (l : Loc) (hl : WF (.compound l)) :
    AgreeK (finishOpt l) (Gen.CompoundInterval_optimize_and_combine_blocks (toCI l))
      (Model.optimizeAndCombine (.compound l)) := by
  exact LoopTies.optimize_and_combine_blocks_tie l hl.2.1

/-- L8c/L9c: the statements of both methods after the cut read as `finishOpt` mirrors them (pinned as text). -/
theorem compound_optimize_tails_pinned :
    Gen.CompoundInterval_optimize_blocks_tail
      = ["if not combined.is_empty:\n    return combined._to_single_interval_if_one_block()\nelse:\n    return combined".toList]
    ∧ Gen.CompoundInterval_optimize_and_combine_blocks_tail = Gen.CompoundInterval_optimize_blocks_tail := by
  decide

/-- L10: `CompoundInterval.gap_list` — the pairwise loop (`block1 = next(block_iter)`, `for block2 in block_iter`,
    `gaps.append(SingleInterval(min(ends), max(starts), self.strand, …))`, `block1 = block2`), generated from the
    statement after `block_iter = optimized.scan_blocks()` on (HEAD CUT: the non-empty scanned block list `b :: rest`
    is an argument), returns exactly the model's `Model.gapPairs` (Model/Algebra.lean, `gapList`), every gap on
    `self.strand`, and raises InvalidPositionException exactly when the model's validity test of the gaps fails. -/
theorem compound_gap_list_tie (l : Loc) (st' : Strand) (b : Blk) (rest : List Blk) :
    Gen.CompoundInterval_gap_list (toCI l) (si b st', rest.map (fun x => si x st'))
      = if (Model.gapPairs (b :: rest)).all (fun g => decide (g.1 ≤ g.2)) = true
        then .ok ((Model.gapPairs (b :: rest)).map (fun g => si g l.strand))
        else .error .InvalidPositionException := by
  exact LoopTies.gap_list_tie l st' b rest

/-- L10c: the skipped head of `gap_list` reads as `Model.gapList` mirrors it (optimize_and_combine_blocks, the
    is_empty early return, scan_blocks of the optimized location); pinned as text. -/
theorem compound_gap_list_head_pinned :
    Gen.CompoundInterval_gap_list_head
      = ["optimized = self.optimize_and_combine_blocks()".toList,
         "if optimized.is_empty:\n    return []".toList,
         "block_iter = optimized.scan_blocks()".toList] := by
  decide

/-! ### The hypotheses are satisfiable (three blocks, one of them empty; minus strand) -/

def exLoc : Loc := ⟨[(2, 5), (7, 7), (8, 12)], .minus⟩
def exOv : Loc := ⟨[(2, 5), (4, 9), (10, 12)], .plus⟩

example : WF (.compound exLoc) := by decide
example : WF (.compound exOv) := by decide
example : exLoc.strand ≠ .unstranded ∧ (0 : Int) ≤ 1 ∧ (1 : Int) < 6 ∧ (6 : Int) ≤ (exLoc.len : Int) := by decide
example : ((5, 8) : Blk).1 ≤ ((5, 8) : Blk).2 := by decide

/-! ### Sanity facts about the generated definitions on concrete inputs.  Each right-hand side was ALSO obtained
    from the real library (`/venv/bin/python`, PYTHONPATH=/repo; see the harness's `gp2r/gr2p/grelint` ops for the
    per-run version of this comparison):
      c1 = CompoundInterval([2,7,8],[5,7,12],MINUS); c2 = CompoundInterval([2,4,10],[5,9,12],PLUS) -/

example : Gen.CompoundInterval_scan_blocks (toCI exLoc) = .ok [⟨8, 12, .minus⟩, ⟨7, 7, .minus⟩, ⟨2, 5, .minus⟩] := by decide
example : Gen.CompoundInterval_parent_to_relative_pos (toCI exLoc) 3 = .ok 5 := by decide
example : Gen.CompoundInterval_parent_to_relative_pos (toCI exLoc) 11 = .ok 0 := by decide
example : Gen.CompoundInterval_parent_to_relative_pos (toCI exLoc) 7 = .error .InvalidPositionException := by decide
example : Gen.CompoundInterval_parent_to_relative_pos (toCI ⟨exLoc.blocks, .unstranded⟩) 3
    = .error .InvalidStrandException := by decide
example : Gen.CompoundInterval_relative_to_parent_pos (toCI exLoc) 0 = .ok 11 := by decide
example : Gen.CompoundInterval_relative_to_parent_pos (toCI exLoc) 4 = .ok 4 := by decide
example : Gen.CompoundInterval_relative_to_parent_pos (toCI exLoc) 7 = .error .InvalidPositionException := by decide
example : Gen.CompoundInterval_relative_to_parent_pos (toCI exOv) 3 = .ok 4 := by decide
example : Gen.CompoundInterval_relative_interval_to_parent_location (toCI exLoc) 1 6 .plus
    = .ok (.blocks [⟨8, 11, .minus⟩, ⟨3, 5, .minus⟩] .minus) := by decide
example : Gen.CompoundInterval_relative_interval_to_parent_location (toCI exLoc) 7 7 .minus
    = .ok (.single ⟨2, 2, .plus⟩) := by decide
example : Gen.CompoundInterval_relative_interval_to_parent_location (toCI exOv) 3 9 .minus
    = .ok (.blocks [⟨4, 9, .plus⟩, ⟨10, 11, .plus⟩] .minus) := by decide
example : Gen.CompoundInterval_relative_interval_to_parent_location (toCI exLoc) 3 8 .plus
    = .error .InvalidPositionException := by decide
-- (`finishRel` sorts with `List.mergeSort`, which the kernel cannot unfold: no `decide` fact about it here; the real
--  library answers `CompoundInterval <3-5:-, 8-11:->` for the first request, as the driver op `relint` shows per run)
example : Gen.CompoundInterval_is_overlapping (toCI exLoc) = .ok false := by decide
example : Gen.CompoundInterval_is_overlapping (toCI exOv) = .ok true := by decide
example : Gen.CompoundInterval_has_overlap (toCI exLoc) (si (5, 8) .plus) false = .ok false := by decide
example : Gen.CompoundInterval_has_overlap (toCI exLoc) (si (5, 9) .plus) false = .ok true := by decide
example : Gen.CompoundInterval_has_overlap (toCI exLoc) (si (5, 9) .plus) true = .ok false := by decide
example : Gen.CompoundInterval_has_overlap (toCI exLoc) (si (5, 9) .minus) true = .ok true := by decide
example : Gen.SingleInterval_has_overlap (si (3, 10) .plus) (si (5, 12) .minus) true = .ok false := by decide
example : Gen.SingleInterval_has_overlap (si (3, 10) .plus) (si (5, 12) .minus) false = .ok true := by decide

/-  c3 = CompoundInterval([2,5,5,10],[5,5,9,12],PLUS); c4 = CompoundInterval([3,7],[3,7],MINUS):
    c2._combine_blocks(True) is c2; c2._combine_blocks(False) = <2-9:+, 10-12:+>; c3._combine_blocks(True) = <2-9:+, 10-12:+>;
    c4._combine_blocks(True) = c4._combine_blocks(False) = EmptyLocation -/
def exAdj : Loc := ⟨[(2, 5), (5, 5), (5, 9), (10, 12)], .plus⟩
def exEmpty : Loc := ⟨[(3, 3), (7, 7)], .minus⟩
example : WF (.compound exAdj) ∧ WF (.compound exEmpty) := by decide
example : Gen.CompoundInterval_combine_blocks (toCI exOv) true = .ok .same := by decide
example : Gen.CompoundInterval_combine_blocks (toCI exOv) false = .ok (.rebuilt [2, 10] [9, 12]) := by decide
example : Gen.CompoundInterval_combine_blocks (toCI exAdj) true = .ok (.rebuilt [2, 10] [9, 12]) := by decide
example : Gen.CompoundInterval_optimize_blocks (toCI exAdj) = .ok (.rebuilt [2, 10] [9, 12]) := by decide
example : Gen.CompoundInterval_optimize_and_combine_blocks (toCI exOv) = .ok (.rebuilt [2, 10] [9, 12]) := by decide
example : Gen.CompoundInterval_optimize_blocks (toCI exOv) = .ok .same := by decide
example : Gen.CompoundInterval_combine_blocks (toCI exEmpty) true = .ok .empty
    ∧ Gen.CompoundInterval_combine_blocks (toCI exEmpty) false = .ok .empty := by decide

/-  c1.gap_list() = [5-8:-] (scan order of the optimized location: 8-12, 2-5); c2.gap_list() = [9-10:+] -/
example : Gen.CompoundInterval_gap_list (toCI exLoc) (si (8, 12) .minus, [si (2, 5) .minus]) = .ok [⟨5, 8, .minus⟩] := by
  decide
example : Gen.CompoundInterval_gap_list (toCI exOv) (si (2, 9) .plus, [si (10, 12) .plus]) = .ok [⟨9, 10, .plus⟩] := by
  decide
example : Gen.CompoundInterval_gap_list (toCI exOv) (si (2, 9) .plus, [si (4, 6) .plus])
    = .error .InvalidPositionException := by decide

end BioCantor.Props.C01Ties2
