import BioCantor.Model.Qualifiers
namespace BioCantor.Props.C18
theorem stub : True := trivial
end BioCantor.Props.C18
