/-
  C18 — identifier / qualifier extraction is order-independent and priority-respecting.

  Property theorems only (helper lemmas: Proofs/Qual*.lean).  `Model.Qual.*` mirrors io/features/__init__.py,
  io/gff3/parser.py and the locus-tag grouping of io/genbank/parser.py; `Gen.featureNameQualifiers` /
  `Gen.featureIdQualifiers` are regenerated from the enums on every run; `Spec.Qual.ok*` are the reference
  predicates the spec driver evaluates on the real library's answers.  `ansQ` = the observable answer
  (`none` = raised).  Quantification is over ALL dictionaries (any length, any keys, any values, any case).

  Two rules are modelled: `Rule.asCoded` (what /repo does today) and `Rule.repaired`
  (`feature_key is None` instead of `not feature_key`; `\Z` instead of `$`).
-/
import BioCantor.Proofs.QualFilter
namespace BioCantor.Props.C18
open BioCantor BioCantor.Spec.Qual BioCantor.Model.Qual BioCantor.Proofs.Qual

/-- TIE: the regenerated enum tables agree with the documented priority order: same keys as the regexes,
    every key a member of its enum, enum values increasing along the documented list, value 0 exactly for
    the first key.  Reordering a priority in /repo makes this (and everything below) fail to compile. -/
theorem gen_tables_match_documented_order :
    famOK nameOrder nameRegexKeys Gen.featureNameQualifiers = true ∧
    famOK idOrder idRegexKeys Gen.featureIdQualifiers = true :=
  ⟨nameFamOK, idFamOK⟩

/-- T1 (repaired rule): for every dictionary with distinct keys whose recognised keys carry a non-empty first
    value, the call does not raise; name and ID are each the first value of a present key of LEAST rank in the
    documented list (keys matched exactly, ignoring case); with no recognised key the `/note` word is used. -/
theorem extract_spec (qs : QDict) (hd : extractDomain qs = true) :
    okExtract qs (ansQ (extractWith Rule.repaired qs)) = true :=
  extract_repaired_ok qs hd

/-- T2 (repaired rule): ORDER INDEPENDENCE — every permutation of the dictionary gives the same (name, id),
    provided no two present keys have the same rank (`gene` next to `GENE` is inherently order dependent). -/
theorem extract_order_independent (qs qs' : QDict) (hp : qs.Perm qs') (hd : extractDomain qs = true)
    (h1 : ranksDistinct nameOrder qs = true) (h2 : ranksDistinct idOrder qs = true) :
    extractWith Rule.repaired qs' = extractWith Rule.repaired qs := by
  have ha := extract_repaired_ok qs hd
  have hb := extract_repaired_ok qs' (extractDomain_perm hp hd)
  have hk : keysDistinct qs = true := by
    simp only [extractDomain, Bool.and_eq_true] at hd; exact hd.1
  rw [← okExtract_perm hp hk] at hb
  have := okExtract_unique h1 h2 hb ha
  apply ansQ_inj _ this
  cases h : ansQ (extractWith Rule.repaired qs') with
  | none => rw [h] at hb; cases hb
  | some _ => rfl

/- FULL STATEMENT for the code as it is (does NOT hold — F-C18a, F-C18b, witnesses below):
     ∀ qs, extractDomain qs → okExtract qs (ansQ (extractWith Rule.asCoded qs)) = true
   Proved part: all dictionaries without a rank-0 key (feature_name / feature_id in any case) and without a
   key ending in a newline.  Missing: exactly the inputs on which the real code deviates. -/

/-- T1 for the code as written, on inputs without a rank-0 key and without newline-terminated keys. -/
theorem extract_spec_asCoded_partial (qs : QDict) (hd : extractDomain qs = true)
    (hz : ∀ e ∈ qs, rank nameOrder e.1 ≠ some 0 ∧ rank idOrder e.1 ≠ some 0 ∧ e.1.getLast? ≠ some '\n') :
    okExtract qs (ansQ (extractWith Rule.asCoded qs)) = true := by
  rw [extract_coded_eq qs (fun e he => noZero_of_rank (hz e he).1 (hz e he).2.1 (hz e he).2.2)]
  exact extract_repaired_ok qs hd

/-- T2 for the code as written, same restriction. -/
theorem extract_order_independent_asCoded_partial (qs qs' : QDict) (hp : qs.Perm qs') (hd : extractDomain qs = true)
    (h1 : ranksDistinct nameOrder qs = true) (h2 : ranksDistinct idOrder qs = true)
    (hz : ∀ e ∈ qs, rank nameOrder e.1 ≠ some 0 ∧ rank idOrder e.1 ≠ some 0 ∧ e.1.getLast? ≠ some '\n') :
    extractWith Rule.asCoded qs' = extractWith Rule.asCoded qs := by
  have hz' : ∀ e ∈ qs', NoZero e := fun e he =>
    let h := hz e (hp.mem_iff.mpr he); noZero_of_rank h.1 h.2.1 h.2.2
  rw [extract_coded_eq qs (fun e he => noZero_of_rank (hz e he).1 (hz e he).2.1 (hz e he).2.2),
    extract_coded_eq qs' hz']
  exact extract_order_independent qs qs' hp hd h1 h2

/-- F-C18a witness: as coded, `{"feature_name": ["A"], "gene": ["B"]}` yields the name `B`; the reference
    predicate rejects it, the reversed dictionary yields `A`, and the repaired rule yields `A` for both. -/
theorem f_c18a_witness :
    ansQ (extractWith Rule.asCoded [("feature_name".toList, ["A".toList]), ("gene".toList, ["B".toList])])
      = some (some "B".toList, none) ∧
    okExtract [("feature_name".toList, ["A".toList]), ("gene".toList, ["B".toList])] (some (some "B".toList, none))
      = false ∧
    ansQ (extractWith Rule.asCoded [("gene".toList, ["B".toList]), ("feature_name".toList, ["A".toList])])
      = some (some "A".toList, none) ∧
    ansQ (extractWith Rule.repaired [("feature_name".toList, ["A".toList]), ("gene".toList, ["B".toList])])
      = some (some "A".toList, none) := by
  decide +kernel

/-- F-C18b witness: as coded, the look-alike key `"gene\n"` passes the `^gene$` regex and the enum lookup of
    `"GENE\n"` raises KeyError; the property demands `(None, None)`, which the repaired rule returns. -/
theorem f_c18b_witness :
    (match extractWith Rule.asCoded [("gene\n".toList, ["x".toList])] with
      | .error .keyError => true
      | _ => false) = true ∧
    okExtract [("gene\n".toList, ["x".toList])] (some (none, none)) = true ∧
    ansQ (extractWith Rule.repaired [("gene\n".toList, ["x".toList])]) = some (none, none) := by
  decide +kernel

/-- T3: `extract_feature_types` — the resulting set is the initial set plus every value of every key that
    contains `_class`, `gbkey` or `_type` (any case); reported sorted, it satisfies the reference predicate. -/
theorem types_spec (init : List Str) (qs : QDict) :
    okTypes init qs (some (sortStrs (extractTypes init qs))) = true := by
  simp only [okTypes, Bool.and_eq_true]
  refine ⟨sortedStrict_of_pairwise (sortStrs_strict (extractTypes_nodup init qs)), ?_⟩
  rw [sameSet_iff]
  intro x
  rw [mem_sortStrs, extractTypes_mem, expectedTypes_mem]

/-- T3b: the type set does not depend on the order of the qualifiers (nor of the initial types). -/
theorem types_order_independent (init init' : List Str) (qs qs' : QDict) (hi : init.Perm init') (hp : qs.Perm qs') :
    sortStrs (extractTypes init qs) = sortStrs (extractTypes init' qs') := by
  apply strict_ext (sortStrs_strict (extractTypes_nodup _ _)) (sortStrs_strict (extractTypes_nodup _ _))
  intro x
  rw [mem_sortStrs, mem_sortStrs, extractTypes_mem, extractTypes_mem]
  constructor
  · rintro (h | ⟨e, he, h⟩)
    · exact Or.inl (hi.mem_iff.mp h)
    · exact Or.inr ⟨e, hp.mem_iff.mp he, h⟩
  · rintro (h | ⟨e, he, h⟩)
    · exact Or.inl (hi.mem_iff.mpr h)
    · exact Or.inr ⟨e, hp.mem_iff.mpr he, h⟩

/-- T4: `merge_qualifiers` is a key-wise set union with sorted values: the result has distinct keys, its key
    set is the union of the two key sets, and every value list is the strictly sorted union of that key's values. -/
theorem merge_spec (a b : QDict) : okMerge a b (some (mergeQualifiers a b)) = true :=
  merge_ok a b

/-- T4b: commutative up to the order of keys. -/
theorem merge_comm (a b : QDict) (k : Str) :
    lookupExact k (mergeQualifiers a b) = lookupExact k (mergeQualifiers b a) :=
  merge_comm_lookup a b k

/-- T4c: idempotent — merging a dictionary with itself only sorts and de-duplicates each value list. -/
theorem merge_idem (a : QDict) (ha : keysDistinct a = true) (k : Str) :
    lookupExact k (mergeQualifiers a a) = (lookupExact k a).map fun vs => sortStrs (setUpdate [] vs) :=
  merge_self_lookup a ha k

/-- T5: locus-tag grouping (the stable sort by tag + `itertools.groupby` + the per-run loop) — for EVERY record:
    it raises exactly when some tag carries two gene features; otherwise there is one group per distinct tag, in
    increasing tag order, holding that tag's gene feature, all its CDS features and all its transcript features
    (one arbitrary transcript when the tag has several transcripts AND several CDSs). -/
theorem group_spec (fs : List Feat) : okGroup fs (ansQ (groupByLocusTag fs)) = true :=
  group_ok fs

/-- T5b: ORDER INDEPENDENCE of the grouping — permuting the feature records of a GenBank record (every tag a
    single transcript-or-CDS chain) changes nothing but the order of the children inside a group: both records
    are refused, or both yield groups that agree element-wise in tag and gene feature and, up to order, in
    transcript and CDS features. -/
theorem group_order_independent (fs fs' : List Feat) (hp : fs.Perm fs')
    (hc : ∀ f ∈ fs, singleChain fs f.tag = true) :
    (ansQ (groupByLocusTag fs) = none ∧ ansQ (groupByLocusTag fs') = none) ∨
    (∃ gs gs', groupByLocusTag fs = .ok gs ∧ groupByLocusTag fs' = .ok gs' ∧ GroupsEquiv gs gs') :=
  group_perm hp hc

/-- T6 (exact matching, the proposed `fullmatch`): `filter_and_sort_qualifiers` drops exactly the reserved
    BioCantor / GFF3 keys, keeps the others in order with sorted values, and reports an empty result as `None`.
    (`terms_perm`, used in the proof, ties the model's regex alternatives to the spec's documented key list.) -/
theorem filter_sort_spec (q : QDict) : okFilterSort q (some (filterSortWith true q)) = true :=
  filterSort_exact_ok q

/- FULL STATEMENT for the code as it is (does NOT hold — F-C11b): ∀ q, okFilterSort q (some (filterSortWith false q)).
   Proved part: dictionaries in which no key merely STARTS with a reserved term. -/

/-- T6 for the code as written (`re.match` = prefix match), when no key has a reserved term as a strict prefix. -/
theorem filter_sort_asCoded_partial (q : QDict)
    (h : ∀ e ∈ q, ∀ t ∈ biocantorQualifierTerms, t.isPrefixOf e.1 = true → t = e.1) :
    okFilterSort q (some (filterSortWith false q)) = true := by
  rw [filterSort_coded_eq q h]; exact filterSort_exact_ok q

/-- F-C11b witness: the user key `identity` is matched by the regex as coded (it starts with `id`) although it is
    not a reserved key. -/
theorem f_c11b_witness :
    reservedMatch false "identity".toList = true ∧ reservedMatch true "identity".toList = false ∧
    reservedKeys.contains "identity".toList = false := by
  decide +kernel

-- non-vacuity of the hypotheses: a dictionary in the domain with distinct ranks, mixed case, look-alikes
-- and a note; and one satisfying the `_partial` restriction
example : extractDomain [("Gene".toList, ["g".toList]), ("ID".toList, ["i".toList, "j".toList]),
    ("genes".toList, []), ("note".toList, ["n".toList]), ("feature_name".toList, ["f".toList])] = true := by decide
example : ranksDistinct nameOrder [("Gene".toList, ["g".toList]), ("LABEL".toList, ["l".toList]),
    ("feature_name".toList, ["f".toList])] = true := by decide
example : ∀ e ∈ ([("Gene".toList, ["g".toList]), ("id".toList, ["i".toList])] : QDict),
    rank nameOrder e.1 ≠ some 0 ∧ rank idOrder e.1 ≠ some 0 ∧ e.1.getLast? ≠ some '\n' := by decide
example : ∀ f ∈ ([⟨"b".toList, .transcript, 0⟩, ⟨"a".toList, .cds, 1⟩, ⟨"b".toList, .gene, 2⟩, ⟨"a".toList, .cds, 3⟩,
    ⟨"b".toList, .transcript, 4⟩] : List Feat),
    singleChain [⟨"b".toList, .transcript, 0⟩, ⟨"a".toList, .cds, 1⟩, ⟨"b".toList, .gene, 2⟩, ⟨"a".toList, .cds, 3⟩,
      ⟨"b".toList, .transcript, 4⟩] f.tag = true := by decide
example : ∀ e ∈ ([("note".toList, ["b".toList, "a".toList]), ("gene_id".toList, []), ("Note".toList, [])] : QDict),
    ∀ t ∈ biocantorQualifierTerms, t.isPrefixOf e.1 = true → t = e.1 := by decide +kernel
example : keysDistinct [("a".toList, ["y".toList, "x".toList]), ("b".toList, [])] = true := by decide

end BioCantor.Props.C18
