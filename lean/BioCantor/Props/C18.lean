/-
  C18 — identifier / qualifier extraction is order-independent and priority-respecting.

  Property theorems only (helper lemmas: Proofs/Qual*.lean).  `Model.Qual.*` mirrors io/features/__init__.py,
  io/gff3/parser.py and the locus-tag grouping / gene biotype of io/genbank/parser.py.  Every constant the model
  reads is a GENERATED table (`Gen.*`, regenerated from /repo on every run): the two priority enums, the two regex
  key sets, FEATURE_TYPE_IDENTIFIERS, the enums behind BIOCANTOR_QUALIFIERS_REGEX, the GenBank feature-type enums.
  `Spec.Qual.ok*` are the reference predicates the spec driver evaluates on the real library's answers.
  `ansQ` = the observable answer (`none` = raised).  Quantification is over ALL dictionaries / records.

  `extract`, `filterSort`, `geneBiotype` are the code AS IT IS NOW (`currentRule = ⟨false, true⟩`: F-C18b repaired in
  5ed9681, F-C18a cannot be repaired — pinned tests encode it; `currentFilterExact = true`: 245297c; biotype
  tie-break by name: 3370634).  The `…_before_repair` theorems pin the old behaviour as regression facts.
-/
import BioCantor.Proofs.QualBiotype
set_option autoImplicit false   -- an unresolved name in a statement must be an error, never a bound variable
namespace BioCantor.Props.C18
open BioCantor BioCantor.Spec.Qual BioCantor.Model.Qual BioCantor.Proofs.Qual

/-! ### ties to the generated constants -/

/-- TIE: the generated priority enums and the generated regex key sets agree with the documented priority order:
    same keys, every key a member of its enum, enum values increasing along the documented list, value 0 exactly
    for the first key.  Reordering a priority or changing a key set in /repo makes this fail to compile. -/
theorem gen_tables_match_documented_order :
    famOK nameOrder Gen.features_FEATURE_INTERVAL_NAME_QUALIFIERS Gen.featureNameQualifiers = true ∧
    famOK idOrder Gen.features_FEATURE_INTERVAL_ID_QUALIFIERS Gen.featureIdQualifiers = true :=
  ⟨nameFamOK, idFamOK⟩

/-- TIE: the generated FEATURE_TYPE_IDENTIFIERS is the documented set `_class`, `gbkey`, `_type`. -/
theorem type_identifiers_tie :
    sameSet Gen.features_FEATURE_TYPE_IDENTIFIERS specTypePatterns = true := typeIds_tie

/-- TIE: the alternatives of BIOCANTOR_QUALIFIERS_REGEX, computed from the generated enums BioCantorQualifiers and
    BioCantorGFF3ReservedQualifiers (`{name.lower(), value}` over the non-alias members), are the documented
    reserved keys. -/
theorem reserved_terms_tie : sameSet biocantorQualifierTerms reservedKeys = true := terms_tie

/-- TIE: the GenBank feature types behind the four kinds of the grouping model (gene / transcript / CDS / other,
    as the harness sends them: gene, mRNA, CDS, exon) are what the generated enums say: all four are gene-like
    features; `gene` is the gene type, `mRNA` a transcript type, `CDS` the CDS type, `exon` none of these. -/
theorem genbank_kinds_tie :
    (["gene".toList, "mRNA".toList, "CDS".toList, "exon".toList].all Gen.genbank_GENBANK_GENE_FEATURES.contains) = true ∧
    Gen.genbank_GeneFeatures.map (·.2) = ["gene".toList] ∧
    (Gen.genbank_TranscriptFeatures.map (·.2)).contains "mRNA".toList = true ∧
    Gen.genbank_GeneIntervalFeatures.lookup "CDS".toList = some "CDS".toList ∧
    (Gen.genbank_GeneFeatures ++ Gen.genbank_TranscriptFeatures).all (fun m => m.2 != "exon".toList && m.2 != "CDS".toList) = true ∧
    Gen.genbank_KnownQualifiers.lookup "LOCUS_TAG".toList = some "locus_tag".toList := by
  decide +kernel

/-! ### extract_feature_name_id -/

/- FULL STATEMENT (does NOT hold for the code as it is — F-C18a, witness below):
     ∀ qs, extractDomain qs → okExtract qs (ansQ (extract qs)) = true
   Proved part: all dictionaries without a rank-0 key (feature_name / feature_id in any letter case).
   Missing: exactly the inputs on which the real code deviates (a rank-0 key followed by another key of its
   family).  F-C18a cannot be repaired in /repo: three pinned upstream tests encode the current answers. -/

/-- T1 (the code as it is): for every dictionary with distinct keys whose recognised keys carry a non-empty first
    value and that holds no rank-0 key, the call does not raise; name and ID are each the first value of a present
    key of LEAST rank in the documented list (keys matched exactly, ignoring case); with no recognised key the
    `/note` word is used. -/
theorem extract_spec_partial (qs : QDict) (hd : extractDomain qs = true)
    (hz : ∀ e ∈ qs, rank nameOrder e.1 ≠ some 0 ∧ rank idOrder e.1 ≠ some 0) :
    okExtract qs (ansQ (extract qs)) = true := by
  unfold extract
  rw [extract_rule_eq currentRule rfl qs (fun e he => noZero_of_rank (hz e he).1 (hz e he).2)]
  exact extract_repaired_ok qs hd

/-- T2 (the code as it is): ORDER INDEPENDENCE — every permutation of such a dictionary gives the same (name, id),
    provided no two present keys have the same rank (`gene` next to `GENE` is inherently order dependent). -/
theorem extract_order_independent_partial (qs qs' : QDict) (hp : qs.Perm qs') (hd : extractDomain qs = true)
    (h1 : ranksDistinct nameOrder qs = true) (h2 : ranksDistinct idOrder qs = true)
    (hz : ∀ e ∈ qs, rank nameOrder e.1 ≠ some 0 ∧ rank idOrder e.1 ≠ some 0) :
    extract qs' = extract qs := by
  have ha := extract_spec_partial qs hd hz
  have hb := extract_spec_partial qs' (extractDomain_perm hp hd) (fun e he => hz e (hp.mem_iff.mpr he))
  have hk : keysDistinct qs = true := by
    simp only [extractDomain, Bool.and_eq_true] at hd; exact hd.1
  rw [← okExtract_perm hp hk] at hb
  have := okExtract_unique h1 h2 hb ha
  apply ansQ_inj _ this
  cases h : ansQ (extract qs') with
  | none => rw [h] at hb; cases hb
  | some _ => rfl

/-- T1 under the one-line patch `feature_key is None` (not applicable upstream, see above): the FULL statement. -/
theorem extract_spec_if_patched (qs : QDict) (hd : extractDomain qs = true) :
    okExtract qs (ansQ (extractWith Rule.repaired qs)) = true :=
  extract_repaired_ok qs hd

/-- T2 under the same patch: full order independence. -/
theorem extract_order_independent_if_patched (qs qs' : QDict) (hp : qs.Perm qs') (hd : extractDomain qs = true)
    (h1 : ranksDistinct nameOrder qs = true) (h2 : ranksDistinct idOrder qs = true) :
    extractWith Rule.repaired qs' = extractWith Rule.repaired qs := by
  have ha := extract_repaired_ok qs hd
  have hb := extract_repaired_ok qs' (extractDomain_perm hp hd)
  have hk : keysDistinct qs = true := by
    simp only [extractDomain, Bool.and_eq_true] at hd; exact hd.1
  rw [← okExtract_perm hp hk] at hb
  have := okExtract_unique h1 h2 hb ha
  apply ansQ_inj _ this
  cases h : ansQ (extractWith Rule.repaired qs') with
  | none => rw [h] at hb; cases hb
  | some _ => rfl

/-- F-C18a witness (the code as it is): `{"feature_name": ["A"], "gene": ["B"]}` yields the name `B`; the reference
    predicate rejects it, the reversed dictionary yields `A`, and the patched rule yields `A` for both. -/
theorem f_c18a_witness :
    ansQ (extract [("feature_name".toList, ["A".toList]), ("gene".toList, ["B".toList])])
      = some (some "B".toList, none) ∧
    okExtract [("feature_name".toList, ["A".toList]), ("gene".toList, ["B".toList])] (some (some "B".toList, none))
      = false ∧
    ansQ (extract [("gene".toList, ["B".toList]), ("feature_name".toList, ["A".toList])])
      = some (some "A".toList, none) ∧
    ansQ (extractWith Rule.repaired [("feature_name".toList, ["A".toList]), ("gene".toList, ["B".toList])])
      = some (some "A".toList, none) := by
  decide +kernel

/-- F-C18b regression fact: before 5ed9681 (`re.match` with `$`) the look-alike key `"gene\n"` passed the regex
    and the enum lookup of `"GENE\n"` raised KeyError; the code as it is returns `(None, None)`, as demanded. -/
theorem f_c18b_before_repair :
    (match extractWith Rule.asCoded [("gene\n".toList, ["x".toList])] with
      | .error .keyError => true
      | _ => false) = true ∧
    ansQ (extract [("gene\n".toList, ["x".toList])]) = some (none, none) ∧
    okExtract [("gene\n".toList, ["x".toList])] (some (none, none)) = true := by
  decide +kernel

/-- T3: `extract_feature_types` — the resulting set is the initial set plus every value of every key that
    contains `_class`, `gbkey` or `_type` (any case); reported sorted, it satisfies the reference predicate. -/
theorem types_spec (init : List Str) (qs : QDict) :
    okTypes init qs (some (sortStrs (extractTypes init qs))) = true := by
  simp only [okTypes, Bool.and_eq_true]
  refine ⟨sortedStrict_of_pairwise (sortStrs_strict (extractTypes_nodup init qs)), ?_⟩
  rw [sameSet_iff]
  intro x
  rw [mem_sortStrs, extractTypes_mem, expectedTypes_mem]

/-- T3b: the type set does not depend on the order of the qualifiers (nor of the initial types). -/
theorem types_order_independent (init init' : List Str) (qs qs' : QDict) (hi : init.Perm init') (hp : qs.Perm qs') :
    sortStrs (extractTypes init qs) = sortStrs (extractTypes init' qs') := by
  apply strict_ext (sortStrs_strict (extractTypes_nodup _ _)) (sortStrs_strict (extractTypes_nodup _ _))
  intro x
  rw [mem_sortStrs, mem_sortStrs, extractTypes_mem, extractTypes_mem]
  constructor
  · rintro (h | ⟨e, he, h⟩)
    · exact Or.inl (hi.mem_iff.mp h)
    · exact Or.inr ⟨e, hp.mem_iff.mp he, h⟩
  · rintro (h | ⟨e, he, h⟩)
    · exact Or.inl (hi.mem_iff.mpr h)
    · exact Or.inr ⟨e, hp.mem_iff.mpr he, h⟩

/-- T4: `merge_qualifiers` is a key-wise set union with sorted values: the result has distinct keys, its key
    set is the union of the two key sets, and every value list is the strictly sorted union of that key's values. -/
theorem merge_spec (a b : QDict) : okMerge a b (some (mergeQualifiers a b)) = true :=
  merge_ok a b

/-- T4b: commutative up to the order of keys. -/
theorem merge_comm (a b : QDict) (k : Str) :
    lookupExact k (mergeQualifiers a b) = lookupExact k (mergeQualifiers b a) :=
  merge_comm_lookup a b k

/-- T4c: idempotent — merging a dictionary with itself only sorts and de-duplicates each value list. -/
theorem merge_idem (a : QDict) (ha : keysDistinct a = true) (k : Str) :
    lookupExact k (mergeQualifiers a a) = (lookupExact k a).map fun vs => sortStrs (setUpdate [] vs) :=
  merge_self_lookup a ha k

/-- T5 (the code as it is, 48a0909): locus-tag grouping (the stable sort by tag + `itertools.groupby` + the per-run
    loop) — for EVERY record: it raises exactly when some tag carries two gene features; otherwise there is one
    group per distinct tag that has a gene, transcript or CDS feature (a tag carried only by features of unknown
    type yields no group), in increasing tag order, holding that tag's gene feature, all its CDS features and all
    its transcript features (one arbitrary transcript when the tag has several transcripts AND several CDSs). -/
theorem group_spec (fs : List Feat) : okGroup fs (ansQ (groupByLocusTag fs)) = true :=
  group_ok fs

/-- T5b: ORDER INDEPENDENCE of the grouping — permuting the feature records of a GenBank record (every tag a
    single transcript-or-CDS chain) changes nothing but the order of the children inside a group: both records
    are refused, or both yield groups that agree element-wise in tag and gene feature and, up to order, in
    transcript and CDS features. -/
theorem group_order_independent (fs fs' : List Feat) (hp : fs.Perm fs')
    (hc : ∀ f ∈ fs, singleChain fs f.tag = true) :
    (ansQ (groupByLocusTag fs) = none ∧ ansQ (groupByLocusTag fs') = none) ∨
    (∃ gs gs', groupByLocusTag fs = .ok gs ∧ groupByLocusTag fs' = .ok gs' ∧ GroupsEquiv gs gs') :=
  group_perm hp hc

/-- regression fact: before 48a0909 a run holding only a feature of unknown type (e.g. a lone `exon`) yielded an
    empty group (on which `_convert_seqfeature_to_gene` later raised IndexError); the code as it is skips it. -/
theorem empty_group_before_fix :
    ansQ (processRunsBefore [("a".toList, [⟨"a".toList, .other, 0⟩])]) = some [⟨"a".toList, none, [], []⟩] ∧
    ansQ (processRuns [("a".toList, [⟨"a".toList, .other, 0⟩])]) = some [] := by
  decide +kernel

/-- T6 (the code as it is, `re.fullmatch` since 245297c): `filter_and_sort_qualifiers` drops exactly the reserved
    BioCantor / GFF3 keys, keeps the others in order with sorted values, and reports an empty result as `None`. -/
theorem filter_sort_spec (q : QDict) : okFilterSort q (some (filterSort q)) = true :=
  filterSort_exact_ok q

/-- F-C11b regression fact: before 245297c (`re.match` = prefix match) the user key `identity` was matched (it
    starts with `id`) although it is not a reserved key; dictionaries without such keys were treated alike. -/
theorem f_c11b_before_repair :
    reservedMatch false "identity".toList = true ∧ reservedMatch true "identity".toList = false ∧
    reservedKeys.contains "identity".toList = false := by
  decide +kernel

/-- T7 (the code as it is, 3370634): the gene biotype of a locus is a transcript biotype of MAXIMAL count and, among
    those, of least name — for every transcript list (`None`/raise only for an empty list). -/
theorem gene_biotype_spec (types : List Str) : okBiotype types (geneBiotype types) = true :=
  geneBiotype_ok types

/-- T7b: … hence it does not depend on the order of the transcript records, for ANY transcript list. -/
theorem gene_biotype_order_independent (types types' : List Str) (hp : types.Perm types') :
    geneBiotype types' = geneBiotype types := by
  have ha := geneBiotype_ok types
  have hb := geneBiotype_ok types'
  rw [← okBiotype_perm hp] at hb
  exact okBiotype_unique hb ha

/-- F-C18c regression fact: `Counter.most_common(1)` (before 3370634) answered tRNA or ncRNA for one tRNA and one
    ncRNA depending on the record order; the code as it is answers ncRNA for both orders. -/
theorem f_c18c_before_repair :
    geneBiotypeOld ["tRNA".toList, "ncRNA".toList] = some "tRNA".toList ∧
    geneBiotypeOld ["ncRNA".toList, "tRNA".toList] = some "ncRNA".toList ∧
    geneBiotype ["tRNA".toList, "ncRNA".toList] = some "ncRNA".toList ∧
    geneBiotype ["ncRNA".toList, "tRNA".toList] = some "ncRNA".toList := by
  decide +kernel

-- non-vacuity of the hypotheses: a dictionary in the domain with distinct ranks, mixed case, look-alikes
-- and a note; and one satisfying the `_partial` restriction
example : extractDomain [("Gene".toList, ["g".toList]), ("ID".toList, ["i".toList, "j".toList]),
    ("genes".toList, []), ("note".toList, ["n".toList]), ("feature_name".toList, ["f".toList])] = true := by decide
example : ranksDistinct nameOrder [("Gene".toList, ["g".toList]), ("LABEL".toList, ["l".toList]),
    ("feature_name".toList, ["f".toList])] = true := by decide
example : ∀ e ∈ ([("Gene".toList, ["g".toList]), ("id".toList, ["i".toList]), ("gene\n".toList, [])] : QDict),
    rank nameOrder e.1 ≠ some 0 ∧ rank idOrder e.1 ≠ some 0 := by decide
example : ∀ f ∈ ([⟨"b".toList, .transcript, 0⟩, ⟨"a".toList, .cds, 1⟩, ⟨"b".toList, .gene, 2⟩, ⟨"a".toList, .cds, 3⟩,
    ⟨"b".toList, .transcript, 4⟩] : List Feat),
    singleChain [⟨"b".toList, .transcript, 0⟩, ⟨"a".toList, .cds, 1⟩, ⟨"b".toList, .gene, 2⟩, ⟨"a".toList, .cds, 3⟩,
      ⟨"b".toList, .transcript, 4⟩] f.tag = true := by decide
example : let d : QDict := [("Gene".toList, ["g".toList]), ("ID".toList, ["i".toList, "j".toList]), ("genes".toList, []),
      ("note".toList, ["n".toList]), ("LABEL".toList, ["f".toList])]
    extractDomain d = true ∧ ranksDistinct nameOrder d = true ∧ ranksDistinct idOrder d = true ∧
      ∀ e ∈ d, rank nameOrder e.1 ≠ some 0 ∧ rank idOrder e.1 ≠ some 0 := by decide
example : ["tRNA".toList, "mRNA".toList, "tRNA".toList].Perm ["mRNA".toList, "tRNA".toList, "tRNA".toList] :=
  (List.Perm.swap _ _ _)
example : keysDistinct [("a".toList, ["y".toList, "x".toList]), ("b".toList, [])] = true := by decide

end BioCantor.Props.C18
