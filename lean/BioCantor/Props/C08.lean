/-
  C08 — serialised forms round-trip; identifiers are deterministic functions of content.

  Property theorems only (helper lemmas: Proofs/Dig*.lean).
  `Model.Digest.*` mirrors util/hashing.py, the `digest_object(...)` call of every constructor, qualifier
  import/export and `to_dict`/`from_dict` of every class; `Spec.Digest.*` holds Python's `str()`/`repr()` of the
  values involved, the reference token stream and the predicates the spec driver evaluates on the real answers.

  OUTSIDE the model (trusted / covered only by the correspondence run, hence "partial" at the level of the
  property): MD5 itself (`md5 : List Str → Str` is an arbitrary function in every statement; collision freeness is
  not claimed), pickle, marshmallow, JSON text, and the interpreter's set iteration order — T1 shows that no such
  order can reach the bytes handed to MD5, the PYTHONHASHSEED sweep confirms it on the real interpreter.
-/
import BioCantor.Proofs.DigClasses
import BioCantor.Proofs.DigDict
import BioCantor.Proofs.DigImage
namespace BioCantor.Props.C08
open BioCantor BioCantor.Spec.Digest BioCantor.Model.Digest BioCantor.Proofs.Dig
open BioCantor.Spec.Qual (Str strLt strLe)

/-! ## T1 — no unordered container reaches MD5 -/

/-- T1a: the token stream `_encode_object_for_digest(*args, **kwargs)` is the same for any two calls whose
    arguments have the SAME CONTENT — they may differ in the iteration order of every set and in the insertion
    order of every dict, at any nesting depth (`SameContent`, an inductive relation; the proof is an induction over
    it) — provided dictionaries have pairwise distinct keys (`wfVal`, which every Python dict satisfies). -/
theorem tokens_invariant_under_reordering (args args' : List PyVal) (kwargs kwargs' : List (Str × PyVal))
    (hargs : Forall₂ SameContent args args') (hkw : SameContent (.dict kwargs) (.dict kwargs'))
    (wa : wfList args = true) (wk : wfVal (.dict kwargs) = true) :
    encodeObjectForDigest args kwargs = encodeObjectForDigest args' kwargs' := by
  unfold encodeObjectForDigest orderDict
  rw [flatMap_memberTokens_sameContent hargs wa, (memberTokens_sameContent hkw wk).1]

/-- T1b: permuting the members of a set never changes what the set contributes. -/
theorem set_order_irrelevant (a b : List PyVal) (h : a.Perm b) : memberTokens (.set a) = memberTokens (.set b) := by
  rw [memberTokens_set, memberTokens_set, orderSet_perm h]

/-- T1c: permuting the entries of a dict (distinct keys) never changes what the dict contributes. -/
theorem dict_order_irrelevant (a b : List (Str × PyVal)) (h : a.Perm b) (w : wfVal (.dict a) = true) :
    orderDict a = orderDict b :=
  (memberTokens_sameContent (SameContent.dictPerm h) w).1

/-- T1d: QUALIFIER INSERTION ORDER — two qualifier dictionaries handed to a constructor that differ in the order of
    the keys and in the order / multiplicity of the values inside each key are imported
    (`_import_qualifiers_from_list`: list → set of `str`) to stored qualifiers that contribute the same tokens. -/
theorem qualifier_order_irrelevant (q q' : RawQuals) (h : SameRawQuals q q') (hk : (q.map (·.1)).Nodup) :
    memberTokens (qualsVal (importQuals (some q))) = memberTokens (qualsVal (importQuals (some q'))) := by
  apply (memberTokens_sameContent (importQuals_same h) ?_).1
  rw [qualsVal, wfDict_iff]
  constructor
  · simpa [importQuals, List.map_map, Function.comp_def] using hk
  · intro e he
    simp only [List.mem_map] at he
    rcases he with ⟨x, _, rfl⟩
    simp only [wfVal, wfList_iff, List.mem_map]
    rintro v ⟨s, _, rfl⟩; rfl

/-- T1e: the hand-written mirror of util/hashing.py produces the REFERENCE stream (written from the docstring:
    members sorted as strings by insertion, keys in ascending order, recursively) for all well-formed arguments;
    this is the predicate the spec driver evaluates on the real `_encode_object_for_digest`. -/
theorem tokens_spec (args : List PyVal) (kwargs : List (Str × PyVal)) (wa : wfList args = true)
    (wk : wfVal (.dict kwargs) = true) : okTokens args kwargs (some (encodeObjectForDigest args kwargs)) = true := by
  simp only [okTokens, refTokens_eq args kwargs wa wk, beq_self_eq_true]

/-- T1f: in the digest call of every class, no list holds a set or a dict (lists are rendered with `str(list)`,
    which would show the iteration order): together with T1a, no unordered container reaches MD5. -/
theorem digest_lists_hold_only_atoms (md5 : List Str → Str) :
    (∀ t : TxArgs, (txDigestArgs md5 t).all listsAtomic = true) ∧
    (∀ c : CdsArgs, (cdsDigestArgs c).all listsAtomic = true) ∧
    (∀ f : FeatArgs, (featDigestArgs f).all listsAtomic = true) ∧
    (∀ v : VarArgs, (varDigestArgs v).all listsAtomic = true) ∧
    (∀ (g : GeneArgs) (cs : Frame) (a : List PyVal), geneDigestArgs md5 g cs = some a → a.all listsAtomic = true) ∧
    (∀ (c : FcArgs) (cs : Frame) (a : List PyVal), fcDigestArgs md5 c cs = some a → a.all listsAtomic = true) ∧
    (∀ (c : VcArgs) (cs : Frame) (a : List PyVal), vcDigestArgs md5 c cs = some a → a.all listsAtomic = true) :=
  ⟨tx_args_atomic md5, cds_args_atomic, feat_args_atomic, var_args_atomic, gene_args_atomic md5, fc_args_atomic md5,
   vc_args_atomic md5⟩

/-! ## T2 — sensitivity: a changed coordinate / strand / frame changes the bytes handed to MD5

  `stream args` = the concatenation (WITHOUT separators, as `hasher.update` sees it) of the tokens of
  `digest_object(*args)`.  The statements do not even fix the other fields: the leading components are a uniquely
  decodable prefix of the stream.  (Whether different byte strings get different MD5 values is outside the model.) -/

/-- T2-tx: equal streams ⇒ equal exon starts, exon ends, strand and CDS frames (`None` for non-coding), whatever
    the remaining digested fields (qualifiers, identifiers, …, the CDS GUID) are. -/
theorem tx_stream_sensitive (md5 : List Str → Str) (t u : TxArgs)
    (h : stream (txDigestArgs md5 t) = stream (txDigestArgs md5 u)) :
    t.starts = u.starts ∧ t.ends = u.ends ∧ t.strand = u.strand ∧ t.cds.map (·.2.2) = u.cds.map (·.2.2) :=
  tx_stream_inj md5 h

/-- T2-cds: equal streams ⇒ equal CDS starts, ends, strand, frames. -/
theorem cds_stream_sensitive (c d : CdsArgs) (h : stream (cdsDigestArgs c) = stream (cdsDigestArgs d)) :
    c.starts = d.starts ∧ c.ends = d.ends ∧ c.strand = d.strand ∧ c.frames = d.frames :=
  cds_stream_inj h

/-- T2-feat: equal streams ⇒ equal interval starts, ends, strand. -/
theorem feat_stream_sensitive (f g : FeatArgs) (h : stream (featDigestArgs f) = stream (featDigestArgs g)) :
    f.starts = g.starts ∧ f.ends = g.ends ∧ f.strand = g.strand :=
  feat_stream_inj h

/- FULL STATEMENT for VariantInterval (does NOT hold — F-C08e, witness below):
     stream (varDigestArgs v) = stream (varDigestArgs w) → v.start = w.start ∧ v.stop = w.stop
   `start` and `end` are digested as two bare decimal numbers with nothing between them.
   Proved part: with the other digested fields fixed the stream is injective in `start` (for a fixed `end`) and in
   `end` (for a fixed `start`).  Missing: joint injectivity in the pair. -/

/-- T2-var (partial): changing ONLY the start, or ONLY the end, of a variant changes the stream. -/
theorem var_stream_sensitive_partial (v : VarArgs) :
    (∀ s s' : Int, stream (varDigestArgs { v with start := s }) = stream (varDigestArgs { v with start := s' }) → s = s') ∧
    (∀ e e' : Int, stream (varDigestArgs { v with stop := e }) = stream (varDigestArgs { v with stop := e' }) → e = e') :=
  ⟨fun _ _ h => var_stream_inj_start h, fun _ _ h => var_stream_inj_stop h⟩

/-- F-C08e witness: the variants `[1, 234)` and `[12, 34)` (all other fields equal) feed the SAME bytes to MD5, hence
    get the same GUID: the two coordinates run together as `1234`. -/
theorem f_c08e_witness :
    let v : VarArgs := ⟨1, 234, [], ['A'], "SNV".toList, none, none, none⟩
    let w : VarArgs := ⟨12, 34, [], ['A'], "SNV".toList, none, none, none⟩
    stream (varDigestArgs v) = stream (varDigestArgs w) ∧ (v.start, v.stop) ≠ (w.start, w.stop) := by
  decide +kernel

/-- T2-collections: GeneInterval / FeatureIntervalCollection / VariantIntervalCollection / AnnotationCollection
    digest their (chunk-relative) span FIRST, rendered `start-end:+`; the rendering of a span with non-negative
    bounds is a uniquely decodable prefix, so a changed span changes the stream.  (A changed coordinate of a child
    that leaves the span alone changes the child's GUID, which enters through MD5 — outside the model.) -/
theorem span_stream_sensitive (a b a' b' : Nat) (rest rest' : List PyVal)
    (h : stream (ofSpan a b :: rest) = stream (ofSpan a' b' :: rest')) : a = a' ∧ b = b' := by
  rw [stream_cons_plain (v := ofSpan a b) rfl, stream_cons_plain (v := ofSpan a' b') rfl] at h
  have := span_inj h
  exact ⟨this.1, this.2.1⟩

/-- the span is the first digested member of every collection class -/
theorem collections_digest_span_first (md5 : List Str → Str) (cs : Frame) :
    (∀ (g : GeneArgs) (a : List PyVal), geneDigestArgs md5 g cs = some a →
      ∃ sp, spanOf (g.transcripts.map TxArgs.bounds) = some sp ∧ a.head? = some (spanVal sp.1 sp.2 cs)) ∧
    (∀ (c : FcArgs) (a : List PyVal), fcDigestArgs md5 c cs = some a →
      ∃ sp, spanOf (c.features.map FeatArgs.bounds) = some sp ∧ a.head? = some (spanVal sp.1 sp.2 cs)) ∧
    (∀ (c : VcArgs) (a : List PyVal), vcDigestArgs md5 c cs = some a →
      ∃ sp, spanOf (c.variants.map fun v => (some v.start, some v.stop)) = some sp ∧
        a.head? = some (spanVal sp.1 sp.2 cs)) := by
  refine ⟨?_, ?_, ?_⟩
  · intro g a h
    unfold geneDigestArgs at h
    cases hs : spanOf (g.transcripts.map TxArgs.bounds) with
    | none => rw [hs] at h; cases h
    | some sp => rw [hs] at h; simp only [Option.map_some, Option.some.injEq] at h; subst h; exact ⟨sp, rfl, rfl⟩
  · intro c a h
    unfold fcDigestArgs at h
    cases hs : spanOf (c.features.map FeatArgs.bounds) with
    | none => rw [hs] at h; cases h
    | some sp => rw [hs] at h; simp only [Option.map_some, Option.some.injEq] at h; subst h; exact ⟨sp, rfl, rfl⟩
  · intro c a h
    unfold vcDigestArgs at h
    cases hs : spanOf (c.variants.map fun v => (some v.start, some v.stop)) with
    | none => rw [hs] at h; cases h
    | some sp => rw [hs] at h; simp only [Option.map_some, Option.some.injEq] at h; subst h; exact ⟨sp, rfl, rfl⟩

/-- F-C07a as it shows in the digest: the same gene content on a chunk starting at `cs ≠ 0` digests another span
    than on the whole chromosome (the collection classes digest `chunk_relative_location`), and yet another one on a
    MINUS-strand chunk (mirrored at the chunk end, strand `-`). -/
theorem f_c07a_witness :
    pyStr (spanVal 20 50 Frame.none) ≠ pyStr (spanVal 20 50 ⟨10, 90, false⟩) ∧
    pyStr (spanVal 20 50 ⟨10, 90, false⟩) ≠ pyStr (spanVal 20 50 ⟨10, 90, true⟩) := by decide +kernel

/-! ## T3 — dictionary export followed by import restores the object -/

/-- T3-q: qualifier import then export satisfies the reference predicate of the `qexport` operation: same keys in
    the same order, every value list strictly ascending with exactly the `str()`-ed members of the input;
    `None` exactly for an empty dictionary. -/
theorem qexport_spec (q : RawQuals) :
    okQExport (q.map fun e => (e.1, e.2.map pyStr)) (some (exportQuals (importQuals (some q)))) = true := by
  cases q with
  | nil => rfl
  | cons e es =>
    simp only [okQExport, exportQuals, importQuals, List.map_cons, List.isEmpty_cons, Bool.false_eq_true, if_false,
      Bool.not_false, Bool.true_and, Bool.and_eq_true, beq_iff_eq, List.all_eq_true]
    refine ⟨by simp [List.map_map, Function.comp_def], ?_⟩
    intro p hp
    have key : ∀ (l : RawQuals), ∀ p ∈ ((l.map fun e => (e.1, strSet e.2)).map fun e => (e.1, sortStrs e.2)).zip
        (l.map fun e => (e.1, e.2.map pyStr)),
        BioCantor.Spec.Qual.sortedStrict p.1.2 = true ∧ BioCantor.Spec.Qual.sameSet p.1.2 p.2.2 = true := by
      intro l
      induction l with
      | nil => intro p hp; cases hp
      | cons x xs ih =>
        intro p hp
        simp only [List.map_cons, List.zip_cons_cons, List.mem_cons] at hp
        rcases hp with rfl | hp
        · simp only
          rw [sortStrs_of_strict (strSet_strict _)]
          exact ⟨BioCantor.Proofs.DigStr.sortedStrict_of_pairwise (strSet_strict _),
            BioCantor.Proofs.DigStr.sameSet_iff.mpr fun y => strSet_mem _ y⟩
        · exact ih p hp
    exact key (e :: es) p (by simpa using hp)

/-- T3-q': export → import is the identity on stored qualifiers (`sorted(set(map str))` is idempotent). -/
theorem qualifier_export_import (q : Option RawQuals) :
    (asRawQuals (qualsExportVal (importQuals q))).map importQuals = .ok (importQuals q) :=
  quals_roundtrip (importQuals_wf q)

/-- T3-tx … T3-vc: `from_dict(to_dict(x)) = x` for every interval class and every child-holding collection, for
    objects in the state the constructors establish (`…WF`: qualifier sets canonical, a CDS part non-empty with
    matching lengths, Biotype a member name, collections non-empty, variants sorted by start).  The GUID is read
    back from the dictionary (transcript / feature / variant / gene / collections) or recomputed (CDS). -/
theorem tx_dict_roundtrip (md5 : List Str → Str) (o : TxObj) (h : TxWF o) : txFromDict md5 (txToDict o) = .ok o :=
  tx_roundtrip md5 o h
theorem cds_dict_roundtrip (md5 : List Str → Str) (o : CdsObj) (h : CdsWF md5 o) :
    cdsFromDict md5 (cdsToDict o) = .ok o := cds_roundtrip md5 o h
theorem feat_dict_roundtrip (md5 : List Str → Str) (o : FeatObj) (h : FeatWF o) :
    featFromDict md5 (featToDict o) = .ok o := feat_roundtrip md5 o h
theorem var_dict_roundtrip (md5 : List Str → Str) (o : VarObj) (h : VarWF o) :
    varFromDict md5 (varToDict o) = .ok o := var_roundtrip md5 o h
theorem gene_dict_roundtrip (md5 : List Str → Str) (cs : Frame) (o : GeneObj) (h : GeneWF o) :
    geneFromDict md5 cs (geneToDict o) = .ok o := gene_roundtrip md5 cs o h
theorem fc_dict_roundtrip (md5 : List Str → Str) (cs : Frame) (o : FcObj) (h : FcWF o) :
    fcFromDict md5 cs (fcToDict o) = .ok o := fc_roundtrip md5 cs o h
theorem vc_dict_roundtrip (md5 : List Str → Str) (cs : Frame) (o : VcObj) (h : VcWF o) :
    vcFromDict md5 cs (vcToDict o) = .ok o := vc_roundtrip md5 cs o h

/-- T3-image: the state assumed above is exactly what the importer establishes — EVERY object `from_dict` accepts,
    from any dictionary whatsoever (alias Biotype names, unsorted / repeated qualifier values, unsorted variants,
    GUIDs given or absent), is restored unchanged by export → import.  (`cs` = frame (start, end, strand) of the chunk parent
    handed to `from_dict`, `Frame.none` otherwise.) -/
theorem imported_objects_survive_export_import (md5 : List Str → Str) (cs : Frame) :
    (∀ d o, txFromDict md5 d = .ok o → txFromDict md5 (txToDict o) = .ok o) ∧
    (∀ d o, cdsFromDict md5 d = .ok o → cdsFromDict md5 (cdsToDict o) = .ok o) ∧
    (∀ d o, featFromDict md5 d = .ok o → featFromDict md5 (featToDict o) = .ok o) ∧
    (∀ d o, varFromDict md5 d = .ok o → varFromDict md5 (varToDict o) = .ok o) ∧
    (∀ d o, geneFromDict md5 cs d = .ok o → geneFromDict md5 cs (geneToDict o) = .ok o) ∧
    (∀ d o, fcFromDict md5 cs d = .ok o → fcFromDict md5 cs (fcToDict o) = .ok o) ∧
    (∀ d o, vcFromDict md5 cs d = .ok o → vcFromDict md5 cs (vcToDict o) = .ok o) :=
  ⟨fun _ _ h => tx_import_stable md5 h, fun _ _ h => cds_import_stable md5 h, fun _ _ h => feat_import_stable md5 h,
   fun _ _ h => var_import_stable md5 h, fun _ _ h => gene_import_stable md5 h, fun _ _ h => fc_import_stable md5 h,
   fun _ _ h => vc_import_stable md5 h⟩

/-- T3-tx': `to_dict(from_dict(d)) = d` on the image of `to_dict`. -/
theorem tx_dict_roundtrip_image (md5 : List Str → Str) (o : TxObj) (h : TxWF o) :
    (txFromDict md5 (txToDict o)).map txToDict = .ok (txToDict o) := by
  rw [tx_roundtrip md5 o h]; rfl

/-- T3-parent: `convert_parent_dict_to_parent(_parent_to_dict())` restores each of the four parent situations
    (none / sequence-less / whole chromosome / sequence chunk), whatever bounds the collection has; for a sequence
    chunk this includes its STRAND (plus, minus or unstranded: `ParentDesc.chunk … strand`), its start, end, name,
    alphabet and sequence. -/
theorem parent_dict_roundtrip (p : ParentDesc) (b : Int × Int) (h : ParentWF p) :
    parentFromDict (parentToDict p b) = .ok p := parent_roundtrip p b h

/-- T3-ac: an AnnotationCollection that can be exported (it has bounds) is restored by `from_dict`, both through
    the exported parent dictionary (`export_parent=True`, the pickle path `__getstate__`/`__setstate__`) and with the
    parent handed to `from_dict`; its GUID is recomputed to the same value. -/
theorem ac_dict_roundtrip (md5 : List Str → Str) (o : AcObj) (h : AcWF md5 o) (exportParent : Bool) (d : PyVal)
    (hd : acToDict o exportParent = .ok d) :
    acFromDict md5 d (if exportParent then .none else o.parent) = .ok o :=
  ac_roundtrip md5 o h exportParent d hd

/- FULL STATEMENT (does NOT hold — F-C19f): every AnnotationCollection can be exported.
   Proved part: `ac_dict_roundtrip` for collections with bounds.  Missing: collections without bounds. -/

/-- F-C19f witness: a collection for which no range could be determined (empty, or holding only variant
    collections, without a parent location) has no `start` attribute; `to_dict` raises AttributeError. -/
theorem f_c19f_witness (md5 : List Str → Str) :
    acToDict ⟨[], [], [], none, none, [], none, none, none, none, none, .none,
      acGuidOf md5 none Frame.none none none [] none []⟩ false = .error .attributeError := rfl

/-- F-C08f regression fact (fixed in d13579b): a whole-chromosome parent WITHOUT sequence id (`seq_to_parent(seq)`,
    the default) is exported with `"sequence_name": None` and imported back as the same parent (the earlier code
    raised KeyError here, so such a collection could not be unpickled). -/
theorem f_c08f_regression :
    parentFromDict (parentToDict (.chrom "ACGT".toList "NT_STRICT".toList none) (0, 4))
      = .ok (.chrom "ACGT".toList "NT_STRICT".toList none) :=
  parent_roundtrip _ _ ⟨by decide, Or.inl rfl⟩

/-! ## non-vacuity of the hypotheses -/

example : SameContent
    (.dict [("b".toList, .set [.str "x".toList, .int 1]), ("a".toList, .dict [("k".toList, .none), ("j".toList, .bool true)])])
    (.dict [("a".toList, .dict [("j".toList, .bool true), ("k".toList, .none)]), ("b".toList, .set [.int 1, .str "x".toList])]) :=
  .trans (.dictVal (p := []) (.set (List.Perm.swap _ _ _)))
    (.trans (.dictVal (p := [("b".toList, _)]) (.dictPerm (List.Perm.swap _ _ _))) (.dictPerm (List.Perm.swap _ _ _)))

example : wfVal (.dict [("b".toList, .set [.str "x".toList, .int 1]),
    ("a".toList, .dict [("k".toList, .none), ("j".toList, .bool true)])]) = true := by decide

example : SameRawQuals [("k".toList, [.str "b".toList, .int 1, .str "b".toList]), ("j".toList, [])]
    [("j".toList, []), ("k".toList, [.str "1".toList, .str "b".toList])] :=
  ⟨[("k".toList, [.str "1".toList, .str "b".toList]), ("j".toList, [])],
   .cons ⟨rfl, by
      intro x
      show x ∈ ["b".toList, Nat.toDigits 10 1, "b".toList] ↔ x ∈ ["1".toList, "b".toList]
      have : Nat.toDigits 10 1 = "1".toList := by decide
      rw [this]; grind⟩ (.cons ⟨rfl, fun _ => Iff.rfl⟩ .nil), List.Perm.swap _ _ _⟩

example : VarWF ⟨⟨3, 5, [("k".toList, ["v".toList])], "AC".toList, "SNV".toList, some 1, none, none⟩, none, "00".toList⟩ where
  quals := by unfold QualsWF; decide
  nonempty := by decide

example : TxWF exTx := exTx_wf
example : FeatWF exFeat := exFeat_wf
example : CdsWF (fun _ => []) exCds := exCds_wf
example : GeneWF exGene := exGene_wf
example : FcWF exFc := exFc_wf
example : VcWF exVc := exVc_wf
/-- an exportable collection on a sequence chunk satisfies every hypothesis of `ac_dict_roundtrip` -/
example : AcWF (fun _ => []) exAc ∧ exAc.bounds = some (10, 14) ∧ exAc.genes ≠ [] := ⟨exAc_wf, rfl, by decide⟩

example : ParentWF (.chrom "ACGT".toList "NT_STRICT".toList (some "chr1".toList)) := ⟨by decide, Or.inr (by decide)⟩
example : ParentWF (.chrom "ACGT".toList "NT_STRICT".toList none) := ⟨by decide, Or.inl rfl⟩
example : ParentWF (.chunk "ACGT".toList "NT_STRICT".toList "chr1".toList 10 14 .plus) := by
  show "ACGT".toList ≠ []; decide
example : ParentWF (.chunk "ACGT".toList "NT_STRICT".toList "chr1".toList 10 14 .minus) := by
  show "ACGT".toList ≠ []; decide
example : ParentWF (.bare (some "chr1".toList) false) := Or.inr ⟨_, rfl, by decide⟩

end BioCantor.Props.C08
