/-
  C08 — serialised forms round-trip; identifiers are deterministic functions of content.

  Property theorems only (helper lemmas: Proofs/Dig*.lean).
  `Model.Digest.*` mirrors util/hashing.py, the `digest_object(...)` call of every constructor, qualifier
  import/export and `to_dict`/`from_dict` of every class; `Spec.Digest.*` holds Python's `str()`/`repr()` of the
  values involved, the reference token stream and the predicates the spec driver evaluates on the real answers.

  OUTSIDE the model (trusted / covered only by the correspondence run, hence "partial" at the level of the
  property): MD5 itself (`md5 : List Str → Str` is an arbitrary function in every statement; collision freeness is
  not claimed), pickle, marshmallow, JSON text, and the interpreter's set iteration order — T1 shows that no such
  order can reach the bytes handed to MD5, the PYTHONHASHSEED sweep confirms it on the real interpreter.
-/
import BioCantor.Proofs.DigClasses
import BioCantor.Proofs.DigDict
import BioCantor.Proofs.DigImage
import BioCantor.Proofs.DigSchema
set_option autoImplicit false   -- an unresolved name in a statement must be an error, never a bound variable
namespace BioCantor.Props.C08
open BioCantor BioCantor.Spec.Digest BioCantor.Model.Digest BioCantor.Proofs.Dig
open BioCantor.Spec.Qual (Str strLt strLe)

/-! ## T1 — no unordered container reaches MD5 -/

/-- T1a: the token stream `_encode_object_for_digest(*args, **kwargs)` is the same for any two calls whose
    arguments have the SAME CONTENT — they may differ in the iteration order of every set and in the insertion
    order of every dict, at any nesting depth (`SameContent`, an inductive relation; the proof is an induction over
    it) — provided dictionaries have pairwise distinct keys (`wfVal`, which every Python dict satisfies). -/
theorem tokens_invariant_under_reordering (args args' : List PyVal) (kwargs kwargs' : List (Str × PyVal))
    (hargs : Forall₂ SameContent args args') (hkw : SameContent (.dict kwargs) (.dict kwargs'))
    (wa : wfList args = true) (wk : wfVal (.dict kwargs) = true) :
    encodeObjectForDigest args kwargs = encodeObjectForDigest args' kwargs' := by
  unfold encodeObjectForDigest orderDict
  rw [flatMap_memberTokens_sameContent hargs wa, (memberTokens_sameContent hkw wk).1]

/-- T1b: permuting the members of a set never changes what the set contributes. -/
theorem set_order_irrelevant (a b : List PyVal) (h : a.Perm b) : memberTokens (.set a) = memberTokens (.set b) := by
  rw [memberTokens_set, memberTokens_set, orderSet_perm h]

/-- T1c: permuting the entries of a dict (distinct keys) never changes what the dict contributes. -/
theorem dict_order_irrelevant (a b : List (Str × PyVal)) (h : a.Perm b) (w : wfVal (.dict a) = true) :
    orderDict a = orderDict b :=
  (memberTokens_sameContent (SameContent.dictPerm h) w).1

/-- T1d: QUALIFIER INSERTION ORDER — two qualifier dictionaries handed to a constructor that differ in the order of
    the keys and in the order / multiplicity of the values inside each key are imported
    (`_import_qualifiers_from_list`: list → set of `str`) to stored qualifiers that contribute the same tokens. -/
theorem qualifier_order_irrelevant (q q' : RawQuals) (h : SameRawQuals q q') (hk : (q.map (·.1)).Nodup) :
    memberTokens (qualsVal (importQuals (some q))) = memberTokens (qualsVal (importQuals (some q'))) :=
  memberTokens_importQuals_same h hk

/-- T1d': hence the GUID of every leaf class is the same for two constructor calls that differ only in the insertion
    order (and multiplicity) of qualifier keys / values — the model-side statement of the `digest2 same` clause. -/
theorem guid_ignores_qualifier_order (md5 : List Str → Str) (q q' : RawQuals) (h : SameRawQuals q q')
    (hk : (q.map (·.1)).Nodup) :
    (∀ t : TxArgs, txGuid md5 { t with quals := importQuals (some q) } = txGuid md5 { t with quals := importQuals (some q') }) ∧
    (∀ c : CdsArgs, cdsGuid md5 { c with quals := importQuals (some q) } = cdsGuid md5 { c with quals := importQuals (some q') }) ∧
    (∀ f : FeatArgs, featGuid md5 { f with quals := importQuals (some q) } = featGuid md5 { f with quals := importQuals (some q') }) ∧
    (∀ v : VarArgs, varGuid md5 { v with quals := importQuals (some q) } = varGuid md5 { v with quals := importQuals (some q') }) :=
  have hm := memberTokens_importQuals_same h hk
  ⟨fun t => tx_guid_quals md5 t hm, fun c => cds_guid_quals md5 c hm, fun f => feat_guid_quals md5 f hm,
   fun v => var_guid_quals md5 v hm⟩

/-- T1d'': feature types are digested as a set, children GUIDs are digested as a set: the GUID of a feature does not
    depend on the order of its types, the GUID of a gene not on the order of its transcripts. -/
theorem guid_ignores_member_order (md5 : List Str → Str) :
    (∀ (f : FeatArgs) (a b : List Str), a.Perm b →
      featGuid md5 { f with featureTypes := a } = featGuid md5 { f with featureTypes := b }) ∧
    (∀ (g : GeneArgs) (cs : Frame) (txs txs' : List TxArgs), txs.Perm txs' →
      (geneDigestArgs md5 { g with transcripts := txs } cs).map (guidOf md5) =
        (geneDigestArgs md5 { g with transcripts := txs' } cs).map (guidOf md5)) :=
  ⟨fun f _ _ h => feat_guid_types md5 f h, fun g cs _ _ h => gene_guid_children md5 g cs h⟩

/-- T1e: the hand-written mirror of util/hashing.py produces the REFERENCE stream (written from the docstring:
    members sorted as strings by insertion, keys in ascending order, recursively) for all well-formed arguments;
    this is the predicate the spec driver evaluates on the real `_encode_object_for_digest`. -/
theorem tokens_spec (args : List PyVal) (kwargs : List (Str × PyVal)) (wa : wfList args = true)
    (wk : wfVal (.dict kwargs) = true) : okTokens args kwargs (some (encodeObjectForDigest args kwargs)) = true := by
  simp only [okTokens, refTokens_eq args kwargs wa wk, beq_self_eq_true]

/-- T1f: in the digest call of every class, no list holds a set or a dict (lists are rendered with `str(list)`,
    which would show the iteration order): together with T1a, no unordered container reaches MD5. -/
theorem digest_lists_hold_only_atoms (md5 : List Str → Str) :
    (∀ t : TxArgs, (txDigestArgs md5 t).all listsAtomic = true) ∧
    (∀ c : CdsArgs, (cdsDigestArgs c).all listsAtomic = true) ∧
    (∀ f : FeatArgs, (featDigestArgs f).all listsAtomic = true) ∧
    (∀ v : VarArgs, (varDigestArgs v).all listsAtomic = true) ∧
    (∀ (g : GeneArgs) (cs : Frame) (a : List PyVal), geneDigestArgs md5 g cs = some a → a.all listsAtomic = true) ∧
    (∀ (c : FcArgs) (cs : Frame) (a : List PyVal), fcDigestArgs md5 c cs = some a → a.all listsAtomic = true) ∧
    (∀ (c : VcArgs) (cs : Frame) (a : List PyVal), vcDigestArgs md5 c cs = some a → a.all listsAtomic = true) :=
  ⟨tx_args_atomic md5, cds_args_atomic, feat_args_atomic, var_args_atomic, gene_args_atomic md5, fc_args_atomic md5,
   vc_args_atomic md5⟩

/-! ## T2 — sensitivity: a changed coordinate / strand / frame changes the bytes handed to MD5

  `stream args` = the concatenation (WITHOUT separators, as `hasher.update` sees it) of the tokens of
  `digest_object(*args)`.  The statements do not even fix the other fields: the leading components are a uniquely
  decodable prefix of the stream.  (Whether different byte strings get different MD5 values is outside the model.) -/

/-- T2-tx: equal streams ⇒ equal exon starts, exon ends, strand and CDS frames (`None` for non-coding), whatever
    the remaining digested fields (qualifiers, identifiers, …, the CDS GUID) are. -/
theorem tx_stream_sensitive (md5 : List Str → Str) (t u : TxArgs)
    (h : stream (txDigestArgs md5 t) = stream (txDigestArgs md5 u)) :
    t.starts = u.starts ∧ t.ends = u.ends ∧ t.strand = u.strand ∧ t.cds.map (·.2.2) = u.cds.map (·.2.2) :=
  tx_stream_inj md5 h

/-- T2-cds: equal streams ⇒ equal CDS starts, ends, strand, frames. -/
theorem cds_stream_sensitive (c d : CdsArgs) (h : stream (cdsDigestArgs c) = stream (cdsDigestArgs d)) :
    c.starts = d.starts ∧ c.ends = d.ends ∧ c.strand = d.strand ∧ c.frames = d.frames :=
  cds_stream_inj h

/-- T2-feat: equal streams ⇒ equal interval starts, ends, strand. -/
theorem feat_stream_sensitive (f g : FeatArgs) (h : stream (featDigestArgs f) = stream (featDigestArgs g)) :
    f.starts = g.starts ∧ f.ends = g.ends ∧ f.strand = g.strand :=
  feat_stream_inj h

/- FULL STATEMENT for VariantInterval (does NOT hold — F-C08e, witness below):
     stream (varDigestArgs v) = stream (varDigestArgs w) → v.start = w.start ∧ v.stop = w.stop
   `start` and `end` are digested as two bare decimal numbers with nothing between them.
   Proved part: with the other digested fields fixed the stream is injective in `start` (for a fixed `end`) and in
   `end` (for a fixed `start`).  Missing: joint injectivity in the pair. -/

/-- T2-var (partial): changing ONLY the start, or ONLY the end, of a variant changes the stream. -/
theorem var_stream_sensitive_partial (v : VarArgs) :
    (∀ s s' : Int, stream (varDigestArgs { v with start := s }) = stream (varDigestArgs { v with start := s' }) → s = s') ∧
    (∀ e e' : Int, stream (varDigestArgs { v with stop := e }) = stream (varDigestArgs { v with stop := e' }) → e = e') :=
  ⟨fun _ _ h => var_stream_inj_start h, fun _ _ h => var_stream_inj_stop h⟩

/-- F-C08e witness: the variants `[1, 234)` and `[12, 34)` (all other fields equal) feed the SAME bytes to MD5, hence
    get the same GUID: the two coordinates run together as `1234`. -/
theorem f_c08e_witness :
    let v : VarArgs := ⟨1, 234, [], ['A'], "SNV".toList, none, none, none⟩
    let w : VarArgs := ⟨12, 34, [], ['A'], "SNV".toList, none, none, none⟩
    stream (varDigestArgs v) = stream (varDigestArgs w) ∧ (v.start, v.stop) ≠ (w.start, w.stop) := by
  decide +kernel

/-- T2-collections: GeneInterval / FeatureIntervalCollection / VariantIntervalCollection / AnnotationCollection
    digest their (chunk-relative) span FIRST, rendered `start-end:+`; the rendering of a span with non-negative
    bounds is a uniquely decodable prefix, so a changed span changes the stream.  (A changed coordinate of a child
    that leaves the span alone changes the child's GUID, which enters through MD5 — outside the model.) -/
theorem span_stream_sensitive (a b a' b' : Nat) (rest rest' : List PyVal)
    (h : stream (ofSpan a b :: rest) = stream (ofSpan a' b' :: rest')) : a = a' ∧ b = b' := by
  rw [stream_cons_plain (v := ofSpan a b) rfl, stream_cons_plain (v := ofSpan a' b') rfl] at h
  have := span_inj h
  exact ⟨this.1, this.2.1⟩

/-- the span is the first digested member of every collection class -/
theorem collections_digest_span_first (md5 : List Str → Str) (cs : Frame) :
    (∀ (g : GeneArgs) (a : List PyVal), geneDigestArgs md5 g cs = some a →
      ∃ sp, spanOf (g.transcripts.map TxArgs.bounds) = some sp ∧ a.head? = some (spanVal sp.1 sp.2 cs)) ∧
    (∀ (c : FcArgs) (a : List PyVal), fcDigestArgs md5 c cs = some a →
      ∃ sp, spanOf (c.features.map FeatArgs.bounds) = some sp ∧ a.head? = some (spanVal sp.1 sp.2 cs)) ∧
    (∀ (c : VcArgs) (a : List PyVal), vcDigestArgs md5 c cs = some a →
      ∃ sp, spanOf (c.variants.map fun v => (some v.start, some v.stop)) = some sp ∧
        a.head? = some (spanVal sp.1 sp.2 cs)) := by
  refine ⟨?_, ?_, ?_⟩
  · intro g a h
    unfold geneDigestArgs at h
    cases hs : spanOf (g.transcripts.map TxArgs.bounds) with
    | none => rw [hs] at h; cases h
    | some sp => rw [hs] at h; simp only [Option.map_some, Option.some.injEq] at h; subst h; exact ⟨sp, rfl, rfl⟩
  · intro c a h
    unfold fcDigestArgs at h
    cases hs : spanOf (c.features.map FeatArgs.bounds) with
    | none => rw [hs] at h; cases h
    | some sp => rw [hs] at h; simp only [Option.map_some, Option.some.injEq] at h; subst h; exact ⟨sp, rfl, rfl⟩
  · intro c a h
    unfold vcDigestArgs at h
    cases hs : spanOf (c.variants.map fun v => (some v.start, some v.stop)) with
    | none => rw [hs] at h; cases h
    | some sp => rw [hs] at h; simp only [Option.map_some, Option.some.injEq] at h; subst h; exact ⟨sp, rfl, rfl⟩

/-- F-C07a as it shows in the digest: the same gene content on a chunk starting at `cs ≠ 0` digests another span
    than on the whole chromosome (the collection classes digest `chunk_relative_location`), and yet another one on a
    MINUS-strand chunk (mirrored at the chunk end, strand `-`). -/
theorem f_c07a_witness :
    pyStr (spanVal 20 50 Frame.none) ≠ pyStr (spanVal 20 50 ⟨10, 90, false⟩) ∧
    pyStr (spanVal 20 50 ⟨10, 90, false⟩) ≠ pyStr (spanVal 20 50 ⟨10, 90, true⟩) := by decide +kernel

/-! ## T3 — dictionary export followed by import restores the object -/

/-- T3-q: qualifier import then export satisfies the reference predicate of the `qexport` operation: same keys in
    the same order, every value list strictly ascending with exactly the `str()`-ed members of the input;
    `None` exactly for an empty dictionary. -/
theorem qexport_spec (q : RawQuals) :
    okQExport (q.map fun e => (e.1, e.2.map pyStr)) (some (exportQuals (importQuals (some q)))) = true := by
  cases q with
  | nil => rfl
  | cons e es =>
    simp only [okQExport, exportQuals, importQuals, List.map_cons, List.isEmpty_cons, Bool.false_eq_true, if_false,
      Bool.not_false, Bool.true_and, Bool.and_eq_true, beq_iff_eq, List.all_eq_true]
    refine ⟨by simp [List.map_map, Function.comp_def], ?_⟩
    intro p hp
    have key : ∀ (l : RawQuals), ∀ p ∈ ((l.map fun e => (e.1, strSet e.2)).map fun e => (e.1, sortStrs e.2)).zip
        (l.map fun e => (e.1, e.2.map pyStr)),
        BioCantor.Spec.Qual.sortedStrict p.1.2 = true ∧ BioCantor.Spec.Qual.sameSet p.1.2 p.2.2 = true := by
      intro l
      induction l with
      | nil => intro p hp; cases hp
      | cons x xs ih =>
        intro p hp
        simp only [List.map_cons, List.zip_cons_cons, List.mem_cons] at hp
        rcases hp with rfl | hp
        · simp only
          rw [sortStrs_of_strict (strSet_strict _)]
          exact ⟨BioCantor.Proofs.DigStr.sortedStrict_of_pairwise (strSet_strict _),
            BioCantor.Proofs.DigStr.sameSet_iff.mpr fun y => strSet_mem _ y⟩
        · exact ih p hp
    exact key (e :: es) p (by simpa using hp)

/-- T3-q': export → import is the identity on stored qualifiers (`sorted(set(map str))` is idempotent). -/
theorem qualifier_export_import (q : Option RawQuals) :
    (asRawQuals (qualsExportVal (importQuals q))).map importQuals = .ok (importQuals q) :=
  quals_roundtrip (importQuals_wf q)

/-- T3-tx … T3-vc: `from_dict(to_dict(x)) = x` for every interval class and every child-holding collection, for
    objects in the state the constructors establish (`…WF`: qualifier sets canonical, a CDS part non-empty with
    matching lengths, Biotype a member name, collections non-empty, variants sorted by start).  The GUID is read
    back from the dictionary (transcript / feature / variant / gene / collections) or recomputed (CDS). -/
theorem tx_dict_roundtrip (md5 : List Str → Str) (o : TxObj) (h : TxWF o) : txFromDict md5 (txToDict o) = .ok o :=
  tx_roundtrip md5 o h
theorem cds_dict_roundtrip (md5 : List Str → Str) (o : CdsObj) (h : CdsWF md5 o) :
    cdsFromDict md5 (cdsToDict o) = .ok o := cds_roundtrip md5 o h
theorem feat_dict_roundtrip (md5 : List Str → Str) (o : FeatObj) (h : FeatWF o) :
    featFromDict md5 (featToDict o) = .ok o := feat_roundtrip md5 o h
theorem var_dict_roundtrip (md5 : List Str → Str) (o : VarObj) (h : VarWF o) :
    varFromDict md5 (varToDict o) = .ok o := var_roundtrip md5 o h
theorem gene_dict_roundtrip (md5 : List Str → Str) (cs : Frame) (o : GeneObj) (h : GeneWF o) :
    geneFromDict md5 cs (geneToDict o) = .ok o := gene_roundtrip md5 cs o h
theorem fc_dict_roundtrip (md5 : List Str → Str) (cs : Frame) (o : FcObj) (h : FcWF o) :
    fcFromDict md5 cs (fcToDict o) = .ok o := fc_roundtrip md5 cs o h
theorem vc_dict_roundtrip (md5 : List Str → Str) (cs : Frame) (o : VcObj) (h : VcWF o) :
    vcFromDict md5 cs (vcToDict o) = .ok o := vc_roundtrip md5 cs o h

/-- T3-image: the state assumed above is exactly what the importer establishes — EVERY object `from_dict` accepts,
    from any dictionary whatsoever (alias Biotype names, unsorted / repeated qualifier values, unsorted variants,
    GUIDs given or absent), is restored unchanged by export → import.  (`cs` = frame (start, end, strand) of the chunk parent
    handed to `from_dict`, `Frame.none` otherwise.) -/
theorem imported_objects_survive_export_import (md5 : List Str → Str) (cs : Frame) :
    (∀ d o, txFromDict md5 d = .ok o → txFromDict md5 (txToDict o) = .ok o) ∧
    (∀ d o, cdsFromDict md5 d = .ok o → cdsFromDict md5 (cdsToDict o) = .ok o) ∧
    (∀ d o, featFromDict md5 d = .ok o → featFromDict md5 (featToDict o) = .ok o) ∧
    (∀ d o, varFromDict md5 d = .ok o → varFromDict md5 (varToDict o) = .ok o) ∧
    (∀ d o, geneFromDict md5 cs d = .ok o → geneFromDict md5 cs (geneToDict o) = .ok o) ∧
    (∀ d o, fcFromDict md5 cs d = .ok o → fcFromDict md5 cs (fcToDict o) = .ok o) ∧
    (∀ d o, vcFromDict md5 cs d = .ok o → vcFromDict md5 cs (vcToDict o) = .ok o) :=
  ⟨fun _ _ h => tx_import_stable md5 h, fun _ _ h => cds_import_stable md5 h, fun _ _ h => feat_import_stable md5 h,
   fun _ _ h => var_import_stable md5 h, fun _ _ h => gene_import_stable md5 h, fun _ _ h => fc_import_stable md5 h,
   fun _ _ h => vc_import_stable md5 h⟩

/-- T3-image-ac: the same for AnnotationCollection: a collection the importer builds (from any dictionary, with any
    parent handed in) whose parent is one of the restorable parent situations (`ParentWF`) and which has bounds is
    restored unchanged, through the exported parent and with the parent handed to `from_dict`. -/
theorem imported_collection_survives_export_import (md5 : List Str → Str) (d : PyVal) (given : ParentDesc)
    (o : AcObj) (h : acFromDict md5 d given = .ok o) (hp : ParentWF o.parent) (exportParent : Bool) (d' : PyVal)
    (hd : acToDict o exportParent = .ok d') :
    acFromDict md5 d' (if exportParent then .none else o.parent) = .ok o :=
  ac_import_stable md5 h hp exportParent d' hd

/-- … and which parent an imported collection has: the one handed in, or — read from the dictionary — a restorable
    one, or a sequence-less parent that is not typed CHROMOSOME (see the witness below). -/
theorem imported_collection_parent (md5 : List Str → Str) (d : PyVal) (given : ParentDesc) (o : AcObj)
    (h : acFromDict md5 d given = .ok o) :
    o.parent = given ∨ (given = .none ∧ (ParentWF o.parent ∨ ∃ id, o.parent = .bare id false)) :=
  ac_image_parent md5 h

/- FULL STATEMENT (does NOT hold): `parent_dict_roundtrip` for every parent.  A sequence-less parent with a custom or
   missing sequence type exports `"type": None` (interval.py:135-157 writes the type only together with a
   sequence); without a name nothing at all is left. -/

/-- witness: a nameless, untyped sequence-less parent is exported as an all-null dictionary and comes back as NO
    parent. -/
theorem untyped_parent_witness :
    parentFromDict (parentToDict (.bare none false) (0, 4)) = .ok .none := rfl

/-- T3-idem: `to_dict ∘ from_dict` is idempotent: re-importing what an imported object exports and exporting again
    gives the same dictionary (all seven child-free / child-holding classes). -/
theorem to_dict_from_dict_idempotent (md5 : List Str → Str) (cs : Frame) :
    (∀ d o, txFromDict md5 d = .ok o → (txFromDict md5 (txToDict o)).map txToDict = .ok (txToDict o)) ∧
    (∀ d o, cdsFromDict md5 d = .ok o → (cdsFromDict md5 (cdsToDict o)).map cdsToDict = .ok (cdsToDict o)) ∧
    (∀ d o, featFromDict md5 d = .ok o → (featFromDict md5 (featToDict o)).map featToDict = .ok (featToDict o)) ∧
    (∀ d o, varFromDict md5 d = .ok o → (varFromDict md5 (varToDict o)).map varToDict = .ok (varToDict o)) ∧
    (∀ d o, geneFromDict md5 cs d = .ok o → (geneFromDict md5 cs (geneToDict o)).map geneToDict = .ok (geneToDict o)) ∧
    (∀ d o, fcFromDict md5 cs d = .ok o → (fcFromDict md5 cs (fcToDict o)).map fcToDict = .ok (fcToDict o)) ∧
    (∀ d o, vcFromDict md5 cs d = .ok o → (vcFromDict md5 cs (vcToDict o)).map vcToDict = .ok (vcToDict o)) :=
  ⟨fun _ _ h => by rw [tx_import_stable md5 h]; rfl, fun _ _ h => by rw [cds_import_stable md5 h]; rfl,
   fun _ _ h => by rw [feat_import_stable md5 h]; rfl, fun _ _ h => by rw [var_import_stable md5 h]; rfl,
   fun _ _ h => by rw [gene_import_stable md5 h]; rfl, fun _ _ h => by rw [fc_import_stable md5 h]; rfl,
   fun _ _ h => by rw [vc_import_stable md5 h]; rfl⟩

/-! ## T5 — export independence (model side of the `indep` operation)

  In the model an export is the VALUE `…ToDict o` of a total Lean function of the stored state `o` and of nothing
  else: there is no call history, no cache and no reference into `o`, so two exports of one state are equal by
  reflexivity, editing an exported value cannot reach the state, and an export taken after the state changed to `o'`
  is `…ToDict o'` — exactly what a fresh object in state `o'` exports.  What the real code must additionally
  guarantee — that `to_dict()` / `__getstate__` / the model dump build NEW containers on every call and read the
  CURRENT attributes — is not expressible without a heap and is decided on the real objects by the `indep` lines
  (`Spec.Digest.okIndep`).  The converse direction is a theorem: -/

/-- T5: the export determines the state — two objects in constructor state with equal exports are equal; hence the
    exported dictionary is a faithful (injective) function of the state and of the state only. -/
theorem export_determines_state (md5 : List Str → Str) (cs : Frame) :
    (∀ o o' : TxObj, TxWF o → TxWF o' → txToDict o = txToDict o' → o = o') ∧
    (∀ o o' : CdsObj, CdsWF md5 o → CdsWF md5 o' → cdsToDict o = cdsToDict o' → o = o') ∧
    (∀ o o' : FeatObj, FeatWF o → FeatWF o' → featToDict o = featToDict o' → o = o') ∧
    (∀ o o' : VarObj, VarWF o → VarWF o' → varToDict o = varToDict o' → o = o') ∧
    (∀ o o' : GeneObj, GeneWF o → GeneWF o' → geneToDict o = geneToDict o' → o = o') ∧
    (∀ o o' : FcObj, FcWF o → FcWF o' → fcToDict o = fcToDict o' → o = o') ∧
    (∀ o o' : VcObj, VcWF o → VcWF o' → vcToDict o = vcToDict o' → o = o') := by
  refine ⟨?_, ?_, ?_, ?_, ?_, ?_, ?_⟩
  · intro o o' h h' e
    have := tx_roundtrip md5 o h; rw [e, tx_roundtrip md5 o' h'] at this; exact (Except.ok.inj this).symm
  · intro o o' h h' e
    have := cds_roundtrip md5 o h; rw [e, cds_roundtrip md5 o' h'] at this; exact (Except.ok.inj this).symm
  · intro o o' h h' e
    have := feat_roundtrip md5 o h; rw [e, feat_roundtrip md5 o' h'] at this; exact (Except.ok.inj this).symm
  · intro o o' h h' e
    have := var_roundtrip md5 o h; rw [e, var_roundtrip md5 o' h'] at this; exact (Except.ok.inj this).symm
  · intro o o' h h' e
    have := gene_roundtrip md5 cs o h; rw [e, gene_roundtrip md5 cs o' h'] at this; exact (Except.ok.inj this).symm
  · intro o o' h h' e
    have := fc_roundtrip md5 cs o h; rw [e, fc_roundtrip md5 cs o' h'] at this; exact (Except.ok.inj this).symm
  · intro o o' h h' e
    have := vc_roundtrip md5 cs o h; rw [e, vc_roundtrip md5 cs o' h'] at this; exact (Except.ok.inj this).symm

/-! ## T4 — the exported dictionary is loadable by the data model (io/models.py as plain data)

  `accepts c d` = `XModel.Schema().load(d)` raises no ValidationError: every key of `d` is a declared field, every
  required field is present, `None` only where `Optional`, declared value shapes, nested models recursively.
  (marshmallow itself is outside the model; the field table is compared with `XModel.Schema().fields` on every run.) -/

/-- T4: for every class with a data model, `to_dict()` of an object in constructor state lies in the accepted domain
    of its model — for the collection also with the parent exported, provided the parent's alphabet is an `Alphabet`
    member.  (This is the clause F-C08b violated: key `guid` vs `variant_interval_guid`.) -/
theorem exported_dict_is_loadable :
    (∀ o : TxObj, TxWF o → accepts .tx (txToDict o) = true) ∧
    (∀ o : FeatObj, accepts .feat (featToDict o) = true) ∧
    (∀ o : VarObj, accepts .var (varToDict o) = true) ∧
    (∀ o : GeneObj, GeneWF o → accepts .gene (geneToDict o) = true) ∧
    (∀ o : FcObj, accepts .fc (fcToDict o) = true) ∧
    (∀ o : VcObj, accepts .vc (vcToDict o) = true) ∧
    (∀ (o : AcObj) (exportParent : Bool) (d : PyVal), (∀ g ∈ o.genes, GeneWF g) → AlphabetOk o.parent →
      acToDict o exportParent = .ok d → accepts .ac d = true) :=
  ⟨tx_accepted, feat_accepted, var_accepted, gene_accepted, fc_accepted, vc_accepted,
   fun o ep d hg ha hd => ac_accepted o hg ha ep d hd⟩

/-- F-C08b regression fact (fixed in 1241fde): ANY dictionary carrying the key `guid` — as variants were exported before the fix —
    is refused by `VariantIntervalModel` (unknown field); `variant_interval_guid` is a declared field. -/
theorem f_c08b_regression :
    (∀ (kvs : List (Str × PyVal)) (v : PyVal), ("guid".toList, v) ∈ kvs → accepts .var (.dict kvs) = false) ∧
    (fieldOf .var "variant_interval_guid".toList).isSome = true :=
  ⟨fun _ _ h => unknown_key_refused .var (by decide +kernel) h, by decide +kernel⟩

/-- T3-tx': `to_dict(from_dict(d)) = d` on the image of `to_dict`. -/
theorem tx_dict_roundtrip_image (md5 : List Str → Str) (o : TxObj) (h : TxWF o) :
    (txFromDict md5 (txToDict o)).map txToDict = .ok (txToDict o) := by
  rw [tx_roundtrip md5 o h]; rfl

/-- T3-parent: `convert_parent_dict_to_parent(_parent_to_dict())` restores each of the four parent situations
    (none / sequence-less / whole chromosome / sequence chunk), whatever bounds the collection has; for a sequence
    chunk this includes its STRAND (plus, minus or unstranded: `ParentDesc.chunk … strand`), its start, end, name,
    alphabet and sequence. -/
theorem parent_dict_roundtrip (p : ParentDesc) (b : Int × Int) (h : ParentWF p) :
    parentFromDict (parentToDict p b) = .ok p := parent_roundtrip p b h

/-- T3-ac: an AnnotationCollection that can be exported (it has bounds) is restored by `from_dict`, both through
    the exported parent dictionary (`export_parent=True`, the pickle path `__getstate__`/`__setstate__`) and with the
    parent handed to `from_dict`; its GUID is recomputed to the same value. -/
theorem ac_dict_roundtrip (md5 : List Str → Str) (o : AcObj) (h : AcWF md5 o) (exportParent : Bool) (d : PyVal)
    (hd : acToDict o exportParent = .ok d) :
    acFromDict md5 d (if exportParent then .none else o.parent) = .ok o :=
  ac_roundtrip md5 o h exportParent d hd

/- FULL STATEMENT (does NOT hold — F-C19f): every AnnotationCollection can be exported.
   Proved part: `ac_dict_roundtrip` for collections with bounds.  Missing: collections without bounds. -/

/-- F-C19f witness: a collection for which no range could be determined (empty, or holding only variant
    collections, without a parent location) has no `start` attribute; `to_dict` raises AttributeError. -/
theorem f_c19f_witness (md5 : List Str → Str) :
    acToDict ⟨[], [], [], none, none, [], none, none, none, none, none, .none,
      acGuidOf md5 none Frame.none none none [] none []⟩ false = .error .attributeError := rfl

/-- F-C08f regression fact (fixed in d13579b): a whole-chromosome parent WITHOUT sequence id (`seq_to_parent(seq)`,
    the default) is exported with `"sequence_name": None` and imported back as the same parent (the earlier code
    raised KeyError here, so such a collection could not be unpickled). -/
theorem f_c08f_regression :
    parentFromDict (parentToDict (.chrom "ACGT".toList "NT_STRICT".toList none) (0, 4))
      = .ok (.chrom "ACGT".toList "NT_STRICT".toList none) :=
  parent_roundtrip _ _ ⟨by decide, Or.inl rfl⟩

/-! ## non-vacuity of the hypotheses -/

example : SameContent
    (.dict [("b".toList, .set [.str "x".toList, .int 1]), ("a".toList, .dict [("k".toList, .none), ("j".toList, .bool true)])])
    (.dict [("a".toList, .dict [("j".toList, .bool true), ("k".toList, .none)]), ("b".toList, .set [.int 1, .str "x".toList])]) :=
  .trans (.dictVal (p := []) (.set (List.Perm.swap _ _ _)))
    (.trans (.dictVal (p := [("b".toList, _)]) (.dictPerm (List.Perm.swap _ _ _))) (.dictPerm (List.Perm.swap _ _ _)))

example : wfVal (.dict [("b".toList, .set [.str "x".toList, .int 1]),
    ("a".toList, .dict [("k".toList, .none), ("j".toList, .bool true)])]) = true := by decide

example : SameRawQuals [("k".toList, [.str "b".toList, .int 1, .str "b".toList]), ("j".toList, [])]
    [("j".toList, []), ("k".toList, [.str "1".toList, .str "b".toList])] :=
  ⟨[("k".toList, [.str "1".toList, .str "b".toList]), ("j".toList, [])],
   .cons ⟨rfl, by
      intro x
      show x ∈ ["b".toList, Nat.toDigits 10 1, "b".toList] ↔ x ∈ ["1".toList, "b".toList]
      have : Nat.toDigits 10 1 = "1".toList := by decide
      rw [this]; grind⟩ (.cons ⟨rfl, fun _ => Iff.rfl⟩ .nil), List.Perm.swap _ _ _⟩

example : VarWF ⟨⟨3, 5, [("k".toList, ["v".toList])], "AC".toList, "SNV".toList, some 1, none, none⟩, none, "00".toList⟩ where
  quals := by unfold QualsWF; decide
  nonempty := by decide

example : TxWF exTx := exTx_wf
example : FeatWF exFeat := exFeat_wf
example : CdsWF (fun _ => []) exCds := exCds_wf
example : GeneWF exGene := exGene_wf
example : FcWF exFc := exFc_wf
example : VcWF exVc := exVc_wf
/-- an exportable collection on a sequence chunk satisfies every hypothesis of `ac_dict_roundtrip` -/
example : AcWF (fun _ => []) exAc ∧ exAc.bounds = some (10, 14) ∧ exAc.genes ≠ [] := ⟨exAc_wf, rfl, by decide⟩

example : AlphabetOk exAc.parent := by
  show (Gen.alphabets.lookup "NT_STRICT".toList).isSome = true; decide +kernel
example : AlphabetOk (.chrom "ACGT".toList "NT_EXTENDED_GAPPED".toList none) := by
  show (Gen.alphabets.lookup "NT_EXTENDED_GAPPED".toList).isSome = true; decide +kernel
example : ParentWF (.chrom "ACGT".toList "NT_STRICT".toList (some "chr1".toList)) := ⟨by decide, Or.inr (by decide)⟩
example : ParentWF (.chrom "ACGT".toList "NT_STRICT".toList none) := ⟨by decide, Or.inl rfl⟩
example : ParentWF (.chunk "ACGT".toList "NT_STRICT".toList "chr1".toList 10 14 .plus) := by
  show "ACGT".toList ≠ []; decide
example : ParentWF (.chunk "ACGT".toList "NT_STRICT".toList "chr1".toList 10 14 .minus) := by
  show "ACGT".toList ≠ []; decide
example : ParentWF (.bare (some "chr1".toList) false) := Or.inr ⟨_, rfl, by decide⟩

end BioCantor.Props.C08
