/-
  C11 — GFF3 export is well-formed and gene models survive export → parse.

  Model  : Model/Gff.lean  (mirror of io/gff3/rows.py, gene/*.py to_gff, collections.py; escape tables = the
           GENERATED `Gen.gffEncodingMap` / `Gen.gffEncodingMapWithComma`, so a changed table entry breaks T1)
  Spec   : Spec/Gff.lean   (percent decoding, line syntax, reference decoder — written from the GFF3 text)
  Helper lemmas: Proofs/GffEscape.lean, Proofs/GffRows.lean (never here).
-/
import BioCantor.Proofs.GffEscape
namespace BioCantor.Props.C11
open BioCantor BioCantor.Spec.Gff BioCantor.Model.Gff BioCantor.Proofs.GffEscape

/-! ## T1 — escaping decodes back, for EVERY string, in both comma modes -/

/-- T1a: `percentDecode (escape s) = s` for every string (table without comma: qualifier keys and values). -/
theorem T1_escape_decodes (s : Str) : percentDecode (escapeStr s) = s :=
  decode_escapeWith gffEncodingMap_good s

/-- T1a': the same for the table with comma (ID / Parent / Name). -/
theorem T1_escapeWithComma_decodes (s : Str) : percentDecode (escapeStrWithComma s) = s :=
  decode_escapeWith gffEncodingMapWithComma_good s

/-- T1b: no tab, LF, CR, `;`, `=`, space or `>` survives escaping and every `%` of the output starts a two-digit
    hex escape — for every string.  (A comma survives in this mode: it is the documented value separator.) -/
theorem T1_escape_wellEscaped (s : Str) :
    wellEscaped ['\t', '\n', '\r', ';', '=', ' ', '>'] (escapeStr s) = true :=
  wellEscaped_escapeWith gffEncodingMap_good' s

/-- T1b': in comma mode the comma does not survive either. -/
theorem T1_escapeWithComma_wellEscaped (s : Str) :
    wellEscaped ['\t', '\n', '\r', ';', '=', ',', ' ', '>'] (escapeStrWithComma s) = true :=
  wellEscaped_escapeWith gffEncodingMapWithComma_good' s

/-- T1c: `escape_value` round-trips every NON-EMPTY value, in both comma modes … -/
theorem T1_escapeValue_roundtrip (v : Str) (comma : Bool) (h : v ≠ []) :
    percentDecode (escapeValue v comma) = v := by
  have hl : v.length > 0 := List.length_pos_iff.mpr h
  unfold escapeValue
  cases comma
  · simp only [hl, if_true, Bool.false_eq_true, if_false]; exact T1_escape_decodes v
  · simp only [hl, if_true]; exact T1_escapeWithComma_decodes v

example : percentDecode (escapeValue ['a', ';', '%', ',', '\t', 'é'] false) = ['a', ';', '%', ',', '\t', 'é'] :=
  T1_escapeValue_roundtrip _ _ (by decide)

/-- … and the empty string is the ONE value that cannot round-trip: it is written `nan`
    (the docstring's "make sure value is also not empty"), which is also what the value `nan` is written as. -/
theorem T1_escapeValue_empty (comma : Bool) :
    escapeValue [] comma = ['n', 'a', 'n'] ∧ escapeValue ['n', 'a', 'n'] comma = ['n', 'a', 'n'] := by
  cases comma <;> decide

/-- T1d: a key is lower-cased AFTER escaping (documented case folding); decoding then yields the lower-cased key —
    on escape sequences lower-casing only touches hex digits.  `lower = false` (reserved GFF3 tags) decodes exactly. -/
theorem T1_escapeKey_decodes (k : Str) (lower : Bool) :
    percentDecode (escapeKey k lower) = (if lower then Model.Gff.lowerStr k else k) := by
  unfold escapeKey
  cases lower
  · simp only [Bool.false_eq_true, if_false]; exact T1_escape_decodes k
  · simp only [if_true]; exact decode_lower_escapeWith gffEncodingMap_good k

/-- T1e: an escaped key — lower-cased or not — contains no structural character. -/
theorem T1_escapeKey_wellEscaped (k : Str) (lower : Bool) :
    wellEscaped structural (escapeKey k lower) = true := by
  unfold escapeKey
  cases lower
  · simp only [Bool.false_eq_true, if_false]; exact wellEscaped_escapeWith gffEncodingMap_good k
  · simp only [if_true]
    exact wellEscaped_lower_escapeWith gffEncodingMap_good structural_lower_closed k

end BioCantor.Props.C11
