/-
  C11 — GFF3 export is well-formed and gene models survive export → parse.

  Model  : Model/Gff.lean  (mirror of io/gff3/rows.py, gene/*.py to_gff, collections.py; escape tables = the
           GENERATED `Gen.gffEncodingMap` / `Gen.gffEncodingMapWithComma`, so a changed table entry breaks T1)
  Spec   : Spec/Gff.lean   (percent decoding, line syntax, reference decoder — written from the GFF3 text)
  Helper lemmas: Proofs/GffEscape.lean (tables), GffRows.lean (rows, sort), GffAttrs.lean (column nine),
                 GffIds.lean (ID scheme, distinct IDs), GffLine.lean (line syntax), GffDecode.lean (grouping by
                 Parent in the sorted output) — never here.

  Scope of the theorems (all quantifiers unbounded):
    * strings are arbitrary `List Char`; ASCII lower-casing models `str.lower()` (non-ASCII cased letters in KEYS
      are outside the model);
    * collections are arbitrary `SColl` values satisfying the decidable `collWF off` (ascending non-empty
      non-overlapping blocks incl. 0-bp gaps, CDS blocks not before the first exon, one non-NONE frame per CDS
      block, every block at or after the chunk offset `off`; `off = 0` in chromosome mode);
    * T4 / T5 need pairwise distinct UUID-shaped GUIDs; T1-column / T5 need non-empty qualifier keys and a sequence
      name without tab / LF / CR (column 1 is not escaped by the writer); T5 complete additionally: distinct keys in
      feature(-collection) qualifier dicts, and in chunk-relative mode no programmed frameshift (`FramesKept`);
    * T0 ties every hard-coded string constant of the model to the regenerated `Gen.gff3_*` tables; T6 covers the
      header / `##sequence-region` / `##FASTA` glue of `collection_to_gff3`.
-/
import BioCantor.Proofs.GffEscape
import BioCantor.Proofs.GffRows
import BioCantor.Proofs.GffAttrs
import BioCantor.Proofs.GffIds
import BioCantor.Proofs.GffLine
import BioCantor.Proofs.GffDecode
import BioCantor.Proofs.GffFix
import BioCantor.Proofs.GffFullFc
import BioCantor.Proofs.GffText
set_option autoImplicit false   -- an unresolved name in a statement must be an error, never a bound variable
namespace BioCantor.Props.C11
open BioCantor BioCantor.Model.Gff BioCantor.Proofs.GffEscape BioCantor.Proofs.GffRows BioCantor.Proofs.GffAttrs
open BioCantor.Proofs.GffIds BioCantor.Proofs.GffLine BioCantor.Proofs.GffDecode BioCantor.Proofs.GffFull
open BioCantor.Proofs.GffFix BioCantor.Proofs.GffText BioCantor.Proofs.GffAttrEq BioCantor.Proofs.GffQuals
open BioCantor.Proofs.GffFullFc BioCantor.Proofs.GffQualsFc
open BioCantor.Spec.Gff (Str Quals SCds STx SGene SFeat SFc SChild SPar SColl GColl percentDecode percentsOk wellEscaped
  structural structuralValue splitOnChar parseAttrs parseLine uuidShaped)

/-! ## T1 — escaping decodes back, for EVERY string, in both comma modes -/

/-- T1a: `percentDecode (escape s) = s` for every string (table without comma: qualifier keys and values). -/
theorem T1_escape_decodes (s : Str) : percentDecode (escapeStr s) = s :=
  decode_escapeWith gffEncodingMap_good s

/-- T1a': the same for the table with comma (ID / Parent / Name). -/
theorem T1_escapeWithComma_decodes (s : Str) : percentDecode (escapeStrWithComma s) = s :=
  decode_escapeWith gffEncodingMapWithComma_good s

/-- T1b: no tab, LF, CR, `;`, `=`, space or `>` survives escaping and every `%` of the output starts a two-digit
    hex escape — for every string.  (A comma survives in this mode: it is the documented value separator.) -/
theorem T1_escape_wellEscaped (s : Str) :
    wellEscaped ['\t', '\n', '\r', ';', '=', ' ', '>'] (escapeStr s) = true :=
  wellEscaped_escapeWith gffEncodingMap_good' s

/-- T1b': in comma mode the comma does not survive either. -/
theorem T1_escapeWithComma_wellEscaped (s : Str) :
    wellEscaped ['\t', '\n', '\r', ';', '=', ',', ' ', '>'] (escapeStrWithComma s) = true :=
  wellEscaped_escapeWith gffEncodingMapWithComma_good' s

/-- T1c: `escape_value` round-trips every NON-EMPTY value, in both comma modes … -/
theorem T1_escapeValue_roundtrip (v : Str) (comma : Bool) (h : v ≠ []) :
    percentDecode (escapeValue v comma) = v := by
  have hl : v.length > 0 := List.length_pos_iff.mpr h
  unfold escapeValue
  cases comma
  · simp only [hl, if_true, Bool.false_eq_true, if_false]; exact T1_escape_decodes v
  · simp only [hl, if_true]; exact T1_escapeWithComma_decodes v

example : percentDecode (escapeValue ['a', ';', '%', ',', '\t', 'é'] false) = ['a', ';', '%', ',', '\t', 'é'] :=
  T1_escapeValue_roundtrip _ _ (by decide)

/-- … and the empty string is the ONE value that cannot round-trip: it is written `nan`
    (the docstring's "make sure value is also not empty"), which is also what the value `nan` is written as. -/
theorem T1_escapeValue_empty (comma : Bool) :
    escapeValue [] comma = ['n', 'a', 'n'] ∧ escapeValue ['n', 'a', 'n'] comma = ['n', 'a', 'n'] := by
  cases comma <;> decide

/-- T1d: a key is lower-cased AFTER escaping (documented case folding); decoding then yields the lower-cased key —
    on escape sequences lower-casing only touches hex digits.  `lower = false` (reserved GFF3 tags) decodes exactly. -/
theorem T1_escapeKey_decodes (k : Str) (lower : Bool) :
    percentDecode (escapeKey k lower) = (if lower then Model.Gff.lowerStr k else k) := by
  unfold escapeKey
  cases lower
  · simp only [Bool.false_eq_true, if_false]; exact T1_escape_decodes k
  · simp only [if_true]; exact decode_lower_escapeWith gffEncodingMap_good k

/-- T1e: an escaped key — lower-cased or not — contains no structural character. -/
theorem T1_escapeKey_wellEscaped (k : Str) (lower : Bool) :
    wellEscaped structural (escapeKey k lower) = true := by
  unfold escapeKey
  cases lower
  · simp only [Bool.false_eq_true, if_false]; exact wellEscaped_escapeWith gffEncodingMap_good k
  · simp only [if_true]
    exact wellEscaped_lower_escapeWith gffEncodingMap_good structural_lower_closed k

/-! ## T1 (column nine) — splitting the rendered attribute column on `;`, `=`, `,` is unambiguous -/

/-- T1f: for EVERY id / parent / name and every qualifier dictionary with non-empty keys, the column written by
    `GFFAttributes.__str__` is read back by the Spec's reader (`split ';'`, `split '='`, `split ','`,
    `percentDecode`) as exactly the writer's (tag, values) pairs: ID, Parent?, Name?, then the qualifier pairs. -/
theorem T1_column_parses (a : Attrs) (s : Str) (h : attrsStr a = .ok s) (hkeys : ∀ kv ∈ a.quals, kv.1 ≠ []) :
    ∃ tail, qualPairs a.raiseOnReserved (sortQuals a.quals) = .ok tail ∧
      parseAttrs s = some ((headPairs a ++ tail).map decodePair) :=
  attrsStr_parses a s h hkeys

/-- the hypotheses are met, e.g. by an adversarial key and values (one empty, one with `=` and `,`) -/
example : (∃ s, attrsStr ⟨['g', '1'], none, some ['A', ' ', 'b'], [(['k', ';'], [['v', '=', ','], []])], false⟩ = .ok s) ∧
    (∀ kv ∈ [((['k', ';'] : Str), ([['v', '=', ','], []] : List Str))], kv.1 ≠ []) :=
  ⟨attrsStr_noraise _ rfl, by decide⟩

/-- T3c: reserved attributes never come from qualifiers: the decoded tag of every pair emitted by the qualifier
    loop differs from `ID`, `Parent` and `Name` (a qualifier so named is refused or dropped; every other key is
    lower-cased unless it is one of the seven GFF3-reserved spellings). -/
theorem T3_reserved_never_from_qualifiers (raise : Bool) (q : Quals) (l : List (Str × Str))
    (h : qualPairs raise q = .ok l) :
    ∀ p ∈ l, percentDecode p.1 ≠ kID ∧ percentDecode p.1 ≠ kParent ∧ percentDecode p.1 ≠ kName :=
  qualPairs_tags raise q l h

/-! ## T2 — every emitted row -/

/-- T2a (text): a rendered row has exactly nine tab-separated columns — its own — and no LF / CR, provided the
    sequence name has none of tab / LF / CR. -/
theorem T2_nine_columns (r : Row) (line : Str) (h : rowStr r = .ok line) (hseq : noSep r.seqid) :
    ∃ a, attrsStr r.attrs = .ok a ∧ noLine line ∧
      splitOnChar '\t' line = [r.seqid, gffSource, r.type.value, natStr r.start, natStr r.stop, nullColumn,
                                strandSymbol r.strand, phaseToGff r.phase, a] :=
  rowStr_nine_columns r line h hseq

/-- T2b (coordinates): every row of the sorted output is the image `(start − off + 1, end − off)` of a source
    interval — a gene / transcript / feature span or an exon / CDS / feature block (`RowOrigin`), with the source's
    strand (`+` for gene and feature-collection rows); `1 ≤ start ≤ end`; the phase column is `.` exactly on non-CDS
    rows, and on a CDS row it is `to_phase` of the frame the export pairs with that block. -/
theorem T2_rows (cx : Ctx) (c : SColl) (hwf : collWF cx.off c = true) :
    ∀ r ∈ sortedRows cx c, RowOrigin cx c r ∧ 1 ≤ r.start ∧ r.start ≤ r.stop ∧ (r.phase = .NONE ↔ r.type ≠ .cds) :=
  fun _ hr => ⟨sortedRows_origin hr, sortedRows_facts hwf hr⟩

/-- the phase of the model is the generated `CDSFrame.to_phase`, the strand symbol the generated
    `Strand.to_symbol`, the chunk-relative frames use the generated `CDSFrame.shift` -/
theorem T2_kernel_ties (f : CDSFrame) (s : Strand) (n : Int) :
    Gen.CDSFrame_to_phase f = .ok (toPhase f) ∧ Gen.Strand_to_symbol s = .ok (strandSymbol s) ∧
    Gen.CDSFrame_shift f n = .ok (shiftFrame f n) ∧ Spec.Gff.phaseOfFrame f = phaseNat (toPhase f) :=
  ⟨toPhase_tie f, strandSymbol_tie s, shiftFrame_tie f n, by cases f <;> rfl⟩

/-! ## T3 — order and Parent resolution in the sorted output -/

/-- T3a: rows are ordered by start. -/
theorem T3_sorted (cx : Ctx) (c : SColl) : (sortedRows cx c).Pairwise (fun a b => a.start ≤ b.start) :=
  sortedRows_sorted cx c

/-- T3b: every `Parent` is the `ID` of a row that comes EARLIER in the sorted output (stability of the sort and
    parent.start ≤ child.start). -/
theorem T3_parent_earlier (cx : Ctx) (c : SColl) (hwf : collWF cx.off c = true) :
    ∀ r ∈ sortedRows cx c, ∀ p, r.attrs.parent = some p →
      ∃ q, [q, r].Sublist (sortedRows cx c) ∧ q.attrs.id = p :=
  sortedRows_parent hwf

/-! ## T4 — IDs -/

/-- T4a: the naming scheme `<guid>` / `exon-<guid>-<i>` / `<guid>-<i>` / `feature-<guid>-<i>` is injective for
    UUID-shaped GUIDs: two IDs are equal only if form, GUID and index agree. -/
theorem T4_id_scheme_injective {f f' : IdForm} {g g' : Str} {i j : Nat}
    (hg : uuidShaped g = true) (hg' : uuidShaped g' = true) (e : idOf f g i = idOf f' g' j) :
    f = f' ∧ g = g' ∧ (f ≠ .plain → i = j) :=
  idOf_injective hg hg' e

/-- T4b: the IDs of the exported rows are pairwise distinct PROVIDED the GUIDs of the collection's genes,
    transcripts, CDSs, feature collections and features are pairwise distinct (and UUID-shaped).  The library
    enforces distinct GUIDs per parent only; F-C11c is an input on which the hypothesis fails. -/
theorem T4_ids_distinct (cx : Ctx) (c : SColl) (hnd : (Spec.Gff.allGuids c).Nodup)
    (hu : ∀ g ∈ Spec.Gff.allGuids c, uuidShaped g = true) : ((sortedRows cx c).map (·.attrs.id)).Nodup :=
  sortedRows_ids_nodup cx c hnd hu

/-! ## T5 — decoding -/

/-- T5 (rows): reading the SORTED output back by Parent — the rows of type exon whose Parent is a
    transcript's ID, in file order and shifted back by the chunk offset, are exactly that transcript's exon blocks;
    the CDS rows naming it are exactly its CDS blocks, each with `to_phase` of the frame the export pairs with it
    (= the stored frame in chromosome mode).  For every well-formed collection with pairwise distinct UUID-shaped
    GUIDs, every gene, every transcript, both coordinate modes.

    (A building block of `T5_decode_complete` below, which states the whole equation.) -/
theorem T5_structure_rows (cx : Ctx) (c : SColl) (hwf : collWF cx.off c = true)
    (hnd : (Spec.Gff.allGuids c).Nodup) (hu : ∀ g ∈ Spec.Gff.allGuids c, uuidShaped g = true)
    (g : SGene) (t : STx) (hg : SChild.gene g ∈ c.children) (ht : t ∈ g.txs) :
    ((sortedRows cx c).filter (isChildOf .exon t.guid)).map (rowBlk cx.off) = t.exons ∧
    ∀ k, t.cds = some k →
      ((sortedRows cx c).filter (isChildOf .cds t.guid)).map (fun r => (rowBlk cx.off r, r.phase)) =
        (k.blocks.zip (exportFrames cx t k)).map (fun bf => (bf.1, toPhase bf.2)) := by
  have h := tx_children_in_sorted hwf hnd hu hg ht
  have htw := geneWF_tx (collWF_gene hwf hg) ht
  refine ⟨?_, ?_⟩
  · rw [h.1]; exact exonRowsOf_blocks _ htw
  · intro k hk
    rw [h.2]; exact cdsRowsOf_blocks _ hk htw

/-- T5 (line): the Spec's line reader applied to a rendered row returns that row's nine columns — seqid,
    source, type, the SAME start and end numbers, strand, phase — and the decoded (tag, values) pairs of its
    attribute column.

    (A building block of `T5_decode_complete` below.) -/
theorem T5_line_roundtrip (r : Row) (line : Str) (h : rowStr r = .ok line)
    (hseq : noSep r.seqid) (hne : r.seqid ≠ []) (h1 : 1 ≤ r.start) (h2 : r.start ≤ r.stop)
    (hkeys : ∀ kv ∈ r.attrs.quals, kv.1 ≠ []) :
    ∃ tail, qualPairs r.attrs.raiseOnReserved (sortQuals r.attrs.quals) = .ok tail ∧
      parseLine line = some ⟨r.seqid, gffSource, r.type.value, r.start, r.stop, nullColumn, r.strand,
                             phaseNat r.phase, (headPairs r.attrs ++ tail).map decodePair⟩ :=
  parseLine_rowStr r line h hseq hne h1 h2 hkeys

/-! ### non-vacuity of the hypotheses: a two-isoform minus-strand gene with a 0-bp-gap CDS in a chunk at 10 -/

def exTx1 : STx :=
  { guid := "00000000-0000-0000-0000-000000000002".toList, strand := .minus, exons := [(12, 20), (20, 31), (40, 45)],
    cds := some ⟨"00000000-0000-0000-0000-000000000003".toList, [(15, 20), (20, 31), (40, 42)], [.ONE, .ZERO, .ZERO]⟩,
    tid := some ['t', '1'], sym := none, ttype := some ['m', 'R', 'N', 'A'], pid := some ['p'], product := none,
    quals := [(['k', ' '], [['v', ';']])] }
def exTx2 : STx :=
  { guid := "00000000-0000-0000-0000-000000000004".toList, strand := .minus, exons := [(14, 18)], cds := none,
    tid := none, sym := none, ttype := none, pid := none, product := none, quals := [] }
def exGene : SGene :=
  { guid := "00000000-0000-0000-0000-000000000001".toList, gid := some ['g'], sym := some ['G'],
    gtype := none, locus := none, quals := [], txs := [exTx1, exTx2] }
def exColl : SColl := { seqName := some ['c', 'h', 'r'], par := .chunk 10 90, children := [.gene exGene] }

example : collWF 10 exColl = true := by decide
example : uuidShaped exTx1.guid = true := by decide
example : (Spec.Gff.allGuids exColl).Nodup ∧ ∀ g ∈ Spec.Gff.allGuids exColl, uuidShaped g = true := by decide
/-- a row of that collection meeting the hypotheses of T2a / T5-line -/
def exRow : Row :=
  ⟨['c', 'h', 'r'], .cds, 6, 10, .minus, .TWO, ⟨exTx1.guid ++ ['-', '1'], some exTx1.guid, some ['p'], exTx1.quals, false⟩⟩
example : (∃ line, rowStr exRow = .ok line) ∧ noSep exRow.seqid ∧ exRow.seqid ≠ [] ∧ 1 ≤ exRow.start ∧
    exRow.start ≤ exRow.stop ∧ (∀ kv ∈ exRow.attrs.quals, kv.1 ≠ []) :=
  ⟨rowStr_noraise _ rfl, by decide, by decide, by decide, by decide, by decide⟩

/-! ## T0 — the constants of the model are the ones regenerated from the source -/

def enumVal (t : List (List Char × List Char)) (name : String) : Option Str := t.lookup name.toList

/-- T0: every string constant the model hard-codes equals the value regenerated from io/gff3/constants.py /
    gene/biotype.py on this run (a changed enum value, key name, source tag, header or placeholder breaks this). -/
theorem T0_constants_tie :
    gffSource = Gen.gff3_GFF_SOURCE ∧ nullColumn = Gen.gff3_NULL_COLUMN ∧ [','] = Gen.gff3_ATTRIBUTE_SEPARATOR ∧
    bioCantorReserved = Gen.gff3_BioCantorGFF3ReservedQualifiers.map (·.2) ∧
    gff3Reserved = (Gen.gff3_BioCantorGFF3ReservedQualifiers ++ Gen.gff3__GFF3ReservedQualifiers).map (·.2) ∧
    [enumVal Gen.gff3_BioCantorFeatureTypes "GENE", enumVal Gen.gff3_BioCantorFeatureTypes "TRANSCRIPT",
     enumVal Gen.gff3_BioCantorFeatureTypes "EXON", enumVal Gen.gff3_BioCantorFeatureTypes "CDS",
     enumVal Gen.gff3_BioCantorFeatureTypes "FEATURE_COLLECTION", enumVal Gen.gff3_BioCantorFeatureTypes "FEATURE_INTERVAL",
     enumVal Gen.gff3_BioCantorFeatureTypes "FEATURE_INTERVAL_REGION"] =
      [RowType.gene, .transcript, .exon, .cds, .featureCollection, .featureInterval, .subregion].map (some ·.value) ∧
    [enumVal Gen.gff3_BioCantorQualifiers "GENE_ID", enumVal Gen.gff3_BioCantorQualifiers "GENE_NAME",
     enumVal Gen.gff3_BioCantorQualifiers "GENE_TYPE", enumVal Gen.gff3_BioCantorQualifiers "LOCUS_TAG",
     enumVal Gen.gff3_BioCantorQualifiers "TRANSCRIPT_ID", enumVal Gen.gff3_BioCantorQualifiers "TRANSCRIPT_NAME",
     enumVal Gen.gff3_BioCantorQualifiers "TRANSCRIPT_TYPE", enumVal Gen.gff3_BioCantorQualifiers "PROTEIN_ID",
     enumVal Gen.gff3_BioCantorQualifiers "PRODUCT", enumVal Gen.gff3_BioCantorQualifiers "FEATURE_ID",
     enumVal Gen.gff3_BioCantorQualifiers "FEATURE_SYMBOL", enumVal Gen.gff3_BioCantorQualifiers "FEATURE_TYPE",
     enumVal Gen.gff3_BioCantorQualifiers "FEATURE_COLLECTION_ID",
     enumVal Gen.gff3_BioCantorQualifiers "FEATURE_COLLECTION_NAME",
     enumVal Gen.gff3_BioCantorQualifiers "FEATURE_COLLETION_TYPE"] =
      [kGeneId, kGeneName, kGeneBiotype, kLocusTag, kTxId, kTxName, kTxBiotype, kProteinId, kProduct, kFeatureId,
       kFeatureName, kFeatureType, kFcId, kFcName, kFcType].map some ∧
    unspecified = Gen.biotype_UNKNOWN_BIOTYPE ∧
    enumVal Gen.gff3_GFF3Headers "HEADER" = some headerLine ∧
    enumVal Gen.gff3_GFF3Headers "FASTA_HEADER" = some fastaHeaderLine ∧
    enumVal Gen.gff3_GFF3Headers "SEQUENCE_HEADER" =
      some (regionPrefix ++ "{symbol}".toList ++ [' ', '1', ' '] ++ "{length}".toList) := by
  decide

/-! ## T5 — attributes: read-back and merge -/

/-- T5a (attributes read back): for every qualifier dictionary that renders, the qualifier part of the column —
    split, percent-decoded and canonicalised by the Spec's reader — is `expectAttrs` of that dictionary: keys folded,
    reserved tags and empty value sets absent, `""` read as `nan`, commas separating values. -/
theorem T5_attrs_read_back (raise : Bool) (Q : Quals) (tail : List (Str × Str))
    (h : qualPairs raise (sortQuals Q) = .ok tail) :
    Spec.Gff.canonAttrs (tail.map decodePair) = Spec.Gff.expectAttrs Q :=
  tail_reads_as raise Q tail h

/-- T5b (merge = union): what a gene / transcript / CDS row must read back as can be computed from the model's
    imperative export dictionaries (`addToSet`, `mergeQuals`) or from the Spec's declarative unions — the same. -/
theorem T5_merge_is_union (g : SGene) (t : STx) :
    Spec.Gff.expectAttrs (geneExportQuals g) = Spec.Gff.expectAttrs (Spec.Gff.geneQuals g) ∧
    Spec.Gff.expectAttrs (txExportQuals t (geneExportQuals g)) = Spec.Gff.expectAttrs (Spec.Gff.txQuals g t) ∧
    Spec.Gff.expectAttrs (cdsExportQuals t (txExportQuals t (geneExportQuals g))) =
      Spec.Gff.expectAttrs (Spec.Gff.cdsQuals g t) :=
  ⟨expectAttrs_congr (gene_quals_rel g), expectAttrs_congr (tx_quals_rel g t), expectAttrs_congr (cds_quals_rel g t)⟩

/-! ## T5 — the complete equation -/

/-- T5 (complete): if `toGffLines c` succeeds, every line parses by the Spec's reader, and decoding the parsed
    lines with the reference decoder gives EXACTLY `expected c` = `normalise (structure c)`: genes and feature
    collections in file order, transcripts / features by start, exon / CDS / sub-region blocks, frames, strands,
    IDs, Names, and the canonical attribute multimap of EVERY row — for every well-formed collection with pairwise
    distinct UUID-shaped GUIDs, both coordinate modes.
    Hypotheses: `collWF` at the export's offset; non-empty qualifier keys; feature(-collection) qualifier dictionaries
    with distinct keys (they are Python dicts); a sequence name without tab / LF / CR; `FramesKept` (automatic in
    chromosome mode, `framesKept_chrom`; in chunk-relative mode it says that no CDS has a programmed frameshift,
    which that mode documents as lost). -/
theorem T5_decode_complete (c : SColl) (chromRel raise : Bool) (lines : List Str) (cx : Ctx)
    (h : toGffLines c chromRel raise = .ok lines) (hne : c.children ≠ []) (hcx : mkCtx c chromRel raise = .ok cx)
    (H : Hyp cx c) (hF : FramesKept cx c) (hk : SrcKeysOk c) (hD : SrcKeysDistinct c) (hseq : noSep cx.seqid) :
    ∃ prows, lines.mapM parseLine = some prows ∧ Spec.Gff.gffDecode cx.off prows = Spec.Gff.expected c :=
  export_decodes_all h hne hcx H hF hk hD hseq

/-- T5 (chromosome mode): there `FramesKept` needs no hypothesis -/
theorem T5_framesKept_chromosome (cx : Ctx) (c : SColl) (h : cx.chunkRel = false) : FramesKept cx c :=
  framesKept_chrom cx c h

/-- T5b' (merge = union, feature collections): the same for `d[feature_type] = types` (Python dict assignment) -/
theorem T5_merge_is_union_fc (c : SFc) (f : SFeat) (hc : KeysDistinct c.quals) (hf : KeysDistinct f.quals) :
    Spec.Gff.expectAttrs (fcExportQuals c) = Spec.Gff.expectAttrs (Spec.Gff.fcQuals c) ∧
    Spec.Gff.expectAttrs (featExportQuals f (fcExportQuals c)) = Spec.Gff.expectAttrs (Spec.Gff.featQuals c f) :=
  ⟨expectAttrs_congr (fc_quals_rel c hc), expectAttrs_congr (feat_quals_rel c f hc hf)⟩

/-- T5c (second round): qualifier inheritance — every transcript additionally carrying its gene's qualifiers, which
    is what a reader of the file hands back — does not change what the file must decode to; so by T5 the export of
    the re-read collection decodes to the same structure as the first export (a fixed point of decode ∘ export). -/
theorem T5_inheritance_fixed_point (c : SColl) : Spec.Gff.expected (inheritQuals c) = Spec.Gff.expected c :=
  expected_inherit c

/-! ## T6 — the file around the rows: header, `##sequence-region`, `##FASTA` -/

/-- T6a: shape of what `collection_to_gff3` prints (see `gff3Lines_shape`): version header; one
    `##sequence-region <name> 1 <len>` per collection; each collection's sorted rows as one block; `##FASTA` and one
    record per collection named like column 1 — all in the same order (by sequence name when `ordered`). -/
theorem T6_file_shape (cs : List GColl) (addSeq ordered chromRel raise : Bool) (lines : List Str)
    (h : gff3Lines cs addSeq ordered chromRel raise = .ok lines) :
    let order := if ordered then sortByName cs else cs
    ∃ (regions : List Str) (blocks : List (List Str)),
      lines = headerLine :: regions ++ blocks.flatten ++
        (if addSeq then fastaHeaderLine :: order.flatMap (fun g => match g.seq with
            | some s => fastaRecord (gNameM g) s | none => []) else []) ∧
      blocks.length = order.length ∧
      (∀ p ∈ order.zip blocks, toGffLines p.1.coll chromRel raise = .ok p.2) ∧
      (addSeq = false → regions = []) ∧
      (addSeq = true → regions.length = order.length ∧
        (∀ g ∈ order, ∃ s, g.seq = some s) ∧
        ∀ p ∈ order.zip regions, ∃ s, p.1.seq = some s ∧ p.2 = regionLine (gNameM p.1) s.length) ∧
      (chromRel = true → addSeq = true → ∀ g ∈ cs, gIsChunk g = false) :=
  gff3Lines_shape cs addSeq ordered chromRel raise lines h

/-- T6b: a FASTA record is `>` + the collection's sequence name, then non-empty lines of at most 60 characters whose
    concatenation is the sequence. -/
theorem T6_fasta_record (name seq : Str) :
    ∃ body, fastaRecord name seq = ('>' :: name) :: body ∧ body.flatten = seq ∧ ∀ l ∈ body, l ≠ [] ∧ l.length ≤ 60 :=
  fastaRecord_spec name seq

/-- T6c: with `ordered=True` the collections are written in code-point order of their sequence names. -/
theorem T6_ordered (cs : List GColl) :
    (sortByName cs).Perm cs ∧
    (sortByName cs).Pairwise (fun a b => Spec.Gff.strLe (gNameM a) (gNameM b) = true) :=
  sortByName_spec cs

/-! ### non-vacuity for T5 complete / T6: the example gene collection in chromosome mode -/

def exFeat : SFeat :=
  { guid := "00000000-0000-0000-0000-000000000006".toList, strand := .unstranded, blocks := [(50, 52), (52, 60)],
    name := some ['F'], fid := none, ftypes := [['p', 'r', 'o', 'm']], quals := [(['n', 'o', 't', 'e'], [['x', ',', 'y']])] }
def exFc : SFc :=
  { guid := "00000000-0000-0000-0000-000000000005".toList, name := none, fcid := some ['f', 'c'], fctype := none,
    locus := none, quals := [(['f', 'e', 'a', 't', 'u', 'r', 'e', '_', 't', 'y', 'p', 'e'], [['o', 'l', 'd']])],
    feats := [exFeat] }
/-- a gene (two isoforms, 0-bp-gap CDS, minus strand) and a feature collection, whole-chromosome parent -/
def exCollChrom : SColl := { seqName := some ['c', 'h', 'r'], par := .chrom, children := [.gene exGene, .fc exFc] }
def exCx : Ctx := ⟨['c', 'h', 'r'], 0, false, false⟩

example : mkCtx exCollChrom true false = .ok exCx := rfl
example : Hyp exCx exCollChrom := ⟨by decide, by decide, by decide⟩
example : FramesKept exCx exCollChrom := framesKept_chrom _ _ rfl
example : exCollChrom.children ≠ [] ∧ noSep exCx.seqid := by decide
example : KeysDistinct exFc.quals ∧ KeysDistinct exFeat.quals := by
  constructor <;> · unfold KeysDistinct; decide
example : SrcKeysDistinct exCollChrom := by
  intro f hf
  have hf' : SChild.fc f = .gene exGene ∨ SChild.fc f = .fc exFc := by
    have : SChild.fc f ∈ [SChild.gene exGene, .fc exFc] := hf
    simpa using this
  rcases hf' with h | h
  · cases h
  · have : f = exFc := SChild.fc.inj h
    subst this
    refine ⟨by unfold KeysDistinct; decide, ?_⟩
    intro t ht
    have : t = exFeat := List.mem_singleton.mp ht
    subst this
    unfold KeysDistinct; decide
example : SrcKeysOk exCollChrom := by
  intro x hx
  have hx' : x = SChild.gene exGene ∨ x = SChild.fc exFc := by
    have : x ∈ [SChild.gene exGene, .fc exFc] := hx
    simpa using this
  rcases hx' with rfl | rfl
  · refine ⟨fun kv h => absurd h (List.not_mem_nil), ?_⟩
    intro t ht
    have ht' : t = exTx1 ∨ t = exTx2 := by
      have : t ∈ [exTx1, exTx2] := ht
      simpa using this
    rcases ht' with rfl | rfl
    · intro kv h
      have : kv = ((['k', ' '] : Str), ([['v', ';']] : List Str)) := List.mem_singleton.mp h
      rw [this]; decide
    · exact fun kv h => absurd h (List.not_mem_nil)
  · refine ⟨?_, ?_⟩
    · intro kv h
      have := List.mem_singleton.mp h
      rw [this]; decide
    · intro t ht
      have : t = exFeat := List.mem_singleton.mp ht
      subst this
      intro kv h
      have := List.mem_singleton.mp h
      rw [this]; decide
example : ∃ lines, toGffLines exCollChrom true false = .ok lines := toGffLines_noraise _ _ exCx rfl

end BioCantor.Props.C11
