/-
  C11 — GFF3 export is well-formed and gene models survive export → parse.

  Model  : Model/Gff.lean  (mirror of io/gff3/rows.py, gene/*.py to_gff, collections.py; escape tables = the
           GENERATED `Gen.gffEncodingMap` / `Gen.gffEncodingMapWithComma`, so a changed table entry breaks T1)
  Spec   : Spec/Gff.lean   (percent decoding, line syntax, reference decoder — written from the GFF3 text)
  Helper lemmas: Proofs/GffEscape.lean (tables), GffRows.lean (rows, sort), GffAttrs.lean (column nine),
                 GffIds.lean (ID scheme, distinct IDs), GffLine.lean (line syntax), GffDecode.lean (grouping by
                 Parent in the sorted output) — never here.

  Scope of the theorems (all quantifiers unbounded):
    * strings are arbitrary `List Char`; ASCII lower-casing models `str.lower()` (non-ASCII cased letters in KEYS
      are outside the model);
    * collections are arbitrary `SColl` values satisfying the decidable `collWF off` (ascending non-empty
      non-overlapping blocks incl. 0-bp gaps, CDS blocks not before the first exon, one non-NONE frame per CDS
      block, every block at or after the chunk offset `off`; `off = 0` in chromosome mode);
    * T4 needs UUID-shaped GUIDs; T1-column / T5-line need non-empty qualifier keys and a sequence name without
      tab / LF / CR (column 1 is not escaped by the writer).
-/
import BioCantor.Proofs.GffEscape
import BioCantor.Proofs.GffRows
import BioCantor.Proofs.GffAttrs
import BioCantor.Proofs.GffIds
import BioCantor.Proofs.GffLine
import BioCantor.Proofs.GffDecode
namespace BioCantor.Props.C11
open BioCantor BioCantor.Model.Gff BioCantor.Proofs.GffEscape BioCantor.Proofs.GffRows BioCantor.Proofs.GffAttrs
open BioCantor.Proofs.GffIds BioCantor.Proofs.GffLine BioCantor.Proofs.GffDecode
open BioCantor.Spec.Gff (Str Quals SCds STx SGene SFeat SFc SChild SPar SColl percentDecode percentsOk wellEscaped
  structural structuralValue splitOnChar parseAttrs parseLine uuidShaped)

/-! ## T1 — escaping decodes back, for EVERY string, in both comma modes -/

/-- T1a: `percentDecode (escape s) = s` for every string (table without comma: qualifier keys and values). -/
theorem T1_escape_decodes (s : Str) : percentDecode (escapeStr s) = s :=
  decode_escapeWith gffEncodingMap_good s

/-- T1a': the same for the table with comma (ID / Parent / Name). -/
theorem T1_escapeWithComma_decodes (s : Str) : percentDecode (escapeStrWithComma s) = s :=
  decode_escapeWith gffEncodingMapWithComma_good s

/-- T1b: no tab, LF, CR, `;`, `=`, space or `>` survives escaping and every `%` of the output starts a two-digit
    hex escape — for every string.  (A comma survives in this mode: it is the documented value separator.) -/
theorem T1_escape_wellEscaped (s : Str) :
    wellEscaped ['\t', '\n', '\r', ';', '=', ' ', '>'] (escapeStr s) = true :=
  wellEscaped_escapeWith gffEncodingMap_good' s

/-- T1b': in comma mode the comma does not survive either. -/
theorem T1_escapeWithComma_wellEscaped (s : Str) :
    wellEscaped ['\t', '\n', '\r', ';', '=', ',', ' ', '>'] (escapeStrWithComma s) = true :=
  wellEscaped_escapeWith gffEncodingMapWithComma_good' s

/-- T1c: `escape_value` round-trips every NON-EMPTY value, in both comma modes … -/
theorem T1_escapeValue_roundtrip (v : Str) (comma : Bool) (h : v ≠ []) :
    percentDecode (escapeValue v comma) = v := by
  have hl : v.length > 0 := List.length_pos_iff.mpr h
  unfold escapeValue
  cases comma
  · simp only [hl, if_true, Bool.false_eq_true, if_false]; exact T1_escape_decodes v
  · simp only [hl, if_true]; exact T1_escapeWithComma_decodes v

example : percentDecode (escapeValue ['a', ';', '%', ',', '\t', 'é'] false) = ['a', ';', '%', ',', '\t', 'é'] :=
  T1_escapeValue_roundtrip _ _ (by decide)

/-- … and the empty string is the ONE value that cannot round-trip: it is written `nan`
    (the docstring's "make sure value is also not empty"), which is also what the value `nan` is written as. -/
theorem T1_escapeValue_empty (comma : Bool) :
    escapeValue [] comma = ['n', 'a', 'n'] ∧ escapeValue ['n', 'a', 'n'] comma = ['n', 'a', 'n'] := by
  cases comma <;> decide

/-- T1d: a key is lower-cased AFTER escaping (documented case folding); decoding then yields the lower-cased key —
    on escape sequences lower-casing only touches hex digits.  `lower = false` (reserved GFF3 tags) decodes exactly. -/
theorem T1_escapeKey_decodes (k : Str) (lower : Bool) :
    percentDecode (escapeKey k lower) = (if lower then Model.Gff.lowerStr k else k) := by
  unfold escapeKey
  cases lower
  · simp only [Bool.false_eq_true, if_false]; exact T1_escape_decodes k
  · simp only [if_true]; exact decode_lower_escapeWith gffEncodingMap_good k

/-- T1e: an escaped key — lower-cased or not — contains no structural character. -/
theorem T1_escapeKey_wellEscaped (k : Str) (lower : Bool) :
    wellEscaped structural (escapeKey k lower) = true := by
  unfold escapeKey
  cases lower
  · simp only [Bool.false_eq_true, if_false]; exact wellEscaped_escapeWith gffEncodingMap_good k
  · simp only [if_true]
    exact wellEscaped_lower_escapeWith gffEncodingMap_good structural_lower_closed k

/-! ## T1 (column nine) — splitting the rendered attribute column on `;`, `=`, `,` is unambiguous -/

/-- T1f: for EVERY id / parent / name and every qualifier dictionary with non-empty keys, the column written by
    `GFFAttributes.__str__` is read back by the Spec's reader (`split ';'`, `split '='`, `split ','`,
    `percentDecode`) as exactly the writer's (tag, values) pairs: ID, Parent?, Name?, then the qualifier pairs. -/
theorem T1_column_parses (a : Attrs) (s : Str) (h : attrsStr a = .ok s) (hkeys : ∀ kv ∈ a.quals, kv.1 ≠ []) :
    ∃ tail, qualPairs a.raiseOnReserved (sortQuals a.quals) = .ok tail ∧
      parseAttrs s = some ((headPairs a ++ tail).map decodePair) :=
  attrsStr_parses a s h hkeys

/-- the hypotheses are met, e.g. by an adversarial key and values (one empty, one with `=` and `,`) -/
example : (∃ s, attrsStr ⟨['g', '1'], none, some ['A', ' ', 'b'], [(['k', ';'], [['v', '=', ','], []])], false⟩ = .ok s) ∧
    (∀ kv ∈ [((['k', ';'] : Str), ([['v', '=', ','], []] : List Str))], kv.1 ≠ []) :=
  ⟨attrsStr_noraise _ rfl, by decide⟩

/-- T3c: reserved attributes never come from qualifiers: the decoded tag of every pair emitted by the qualifier
    loop differs from `ID`, `Parent` and `Name` (a qualifier so named is refused or dropped; every other key is
    lower-cased unless it is one of the seven GFF3-reserved spellings). -/
theorem T3_reserved_never_from_qualifiers (raise : Bool) (q : Quals) (l : List (Str × Str))
    (h : qualPairs raise q = .ok l) :
    ∀ p ∈ l, percentDecode p.1 ≠ kID ∧ percentDecode p.1 ≠ kParent ∧ percentDecode p.1 ≠ kName :=
  qualPairs_tags raise q l h

/-! ## T2 — every emitted row -/

/-- T2a (text): a rendered row has exactly nine tab-separated columns — its own — and no LF / CR, provided the
    sequence name has none of tab / LF / CR. -/
theorem T2_nine_columns (r : Row) (line : Str) (h : rowStr r = .ok line) (hseq : noSep r.seqid) :
    ∃ a, attrsStr r.attrs = .ok a ∧ noLine line ∧
      splitOnChar '\t' line = [r.seqid, gffSource, r.type.value, natStr r.start, natStr r.stop, nullColumn,
                                strandSymbol r.strand, phaseToGff r.phase, a] :=
  rowStr_nine_columns r line h hseq

/-- T2b (coordinates): every row of the sorted output is the image `(start − off + 1, end − off)` of a source
    interval — a gene / transcript / feature span or an exon / CDS / feature block (`RowOrigin`), with the source's
    strand (`+` for gene and feature-collection rows); `1 ≤ start ≤ end`; the phase column is `.` exactly on non-CDS
    rows, and on a CDS row it is `to_phase` of the frame the export pairs with that block. -/
theorem T2_rows (cx : Ctx) (c : SColl) (hwf : collWF cx.off c = true) :
    ∀ r ∈ sortedRows cx c, RowOrigin cx c r ∧ 1 ≤ r.start ∧ r.start ≤ r.stop ∧ (r.phase = .NONE ↔ r.type ≠ .cds) :=
  fun _ hr => ⟨sortedRows_origin hr, sortedRows_facts hwf hr⟩

/-- the phase of the model is the generated `CDSFrame.to_phase`, the strand symbol the generated
    `Strand.to_symbol`, the chunk-relative frames use the generated `CDSFrame.shift` -/
theorem T2_kernel_ties (f : CDSFrame) (s : Strand) (n : Int) :
    Gen.CDSFrame_to_phase f = .ok (toPhase f) ∧ Gen.Strand_to_symbol s = .ok (strandSymbol s) ∧
    Gen.CDSFrame_shift f n = .ok (shiftFrame f n) ∧ Spec.Gff.phaseOfFrame f = phaseNat (toPhase f) :=
  ⟨toPhase_tie f, strandSymbol_tie s, shiftFrame_tie f n, by cases f <;> rfl⟩

/-! ## T3 — order and Parent resolution in the sorted output -/

/-- T3a: rows are ordered by start. -/
theorem T3_sorted (cx : Ctx) (c : SColl) : (sortedRows cx c).Pairwise (fun a b => a.start ≤ b.start) :=
  sortedRows_sorted cx c

/-- T3b: every `Parent` is the `ID` of a row that comes EARLIER in the sorted output (stability of the sort and
    parent.start ≤ child.start). -/
theorem T3_parent_earlier (cx : Ctx) (c : SColl) (hwf : collWF cx.off c = true) :
    ∀ r ∈ sortedRows cx c, ∀ p, r.attrs.parent = some p →
      ∃ q, [q, r].Sublist (sortedRows cx c) ∧ q.attrs.id = p :=
  sortedRows_parent hwf

/-! ## T4 — IDs -/

/-- T4a: the naming scheme `<guid>` / `exon-<guid>-<i>` / `<guid>-<i>` / `feature-<guid>-<i>` is injective for
    UUID-shaped GUIDs: two IDs are equal only if form, GUID and index agree. -/
theorem T4_id_scheme_injective {f f' : IdForm} {g g' : Str} {i j : Nat}
    (hg : uuidShaped g = true) (hg' : uuidShaped g' = true) (e : idOf f g i = idOf f' g' j) :
    f = f' ∧ g = g' ∧ (f ≠ .plain → i = j) :=
  idOf_injective hg hg' e

/-- T4b: the IDs of the exported rows are pairwise distinct PROVIDED the GUIDs of the collection's genes,
    transcripts, CDSs, feature collections and features are pairwise distinct (and UUID-shaped).  The library
    enforces distinct GUIDs per parent only; F-C11c is an input on which the hypothesis fails. -/
theorem T4_ids_distinct (cx : Ctx) (c : SColl) (hnd : (Spec.Gff.allGuids c).Nodup)
    (hu : ∀ g ∈ Spec.Gff.allGuids c, uuidShaped g = true) : ((sortedRows cx c).map (·.attrs.id)).Nodup :=
  sortedRows_ids_nodup cx c hnd hu

/-! ## T5 — decoding -/

/-- T5_structure_partial: reading the SORTED output back by Parent — the rows of type exon whose Parent is a
    transcript's ID, in file order and shifted back by the chunk offset, are exactly that transcript's exon blocks;
    the CDS rows naming it are exactly its CDS blocks, each with `to_phase` of the frame the export pairs with it
    (= the stored frame in chromosome mode).  For every well-formed collection with pairwise distinct UUID-shaped
    GUIDs, every gene, every transcript, both coordinate modes.

    Full statement (kept): `gffDecode off ((toGffLines c …).map parseLine) = expected c`, i.e. additionally
    (i) the transcripts of each gene and the genes themselves grouped the same way (same argument one level up),
    (ii) the decoded attribute multimaps of every row equal the declarative union `expectAttrs (txQuals g t)` of
    Spec/Gff.lean (needs: the model's imperative `mergeQuals`/`addToSet` = that union), (iii) composition with the
    per-line theorem below.  (i)–(iii) rest on the correspondence run, where `Spec.Gff.checkLines` evaluates exactly
    this equation on the real writer's output. -/
theorem T5_structure_partial (cx : Ctx) (c : SColl) (hwf : collWF cx.off c = true)
    (hnd : (Spec.Gff.allGuids c).Nodup) (hu : ∀ g ∈ Spec.Gff.allGuids c, uuidShaped g = true)
    (g : SGene) (t : STx) (hg : SChild.gene g ∈ c.children) (ht : t ∈ g.txs) :
    ((sortedRows cx c).filter (isChildOf .exon t.guid)).map (rowBlk cx.off) = t.exons ∧
    ∀ k, t.cds = some k →
      ((sortedRows cx c).filter (isChildOf .cds t.guid)).map (fun r => (rowBlk cx.off r, r.phase)) =
        (k.blocks.zip (exportFrames cx t k)).map (fun bf => (bf.1, toPhase bf.2)) := by
  have h := tx_children_in_sorted hwf hnd hu hg ht
  have htw := geneWF_tx (collWF_gene hwf hg) ht
  refine ⟨?_, ?_⟩
  · rw [h.1]; exact exonRowsOf_blocks _ htw
  · intro k hk
    rw [h.2]; exact cdsRowsOf_blocks _ hk htw

/-- T5_line_partial: the Spec's line reader applied to a rendered row returns that row's nine columns — seqid,
    source, type, the SAME start and end numbers, strand, phase — and the decoded (tag, values) pairs of its
    attribute column.

    Full statement (kept; the structure-level step rests on the correspondence run, where `Spec.Gff.checkLines`
    evaluates exactly this equation on the real writer's output for every generated collection):
      `gffDecode off ((toGffLines c …).map parseLine) = expected c`   ( = normalise (structure c) ); see
    T5_structure_partial for what is missing. -/
theorem T5_line_roundtrip_partial (r : Row) (line : Str) (h : rowStr r = .ok line)
    (hseq : noSep r.seqid) (hne : r.seqid ≠ []) (h1 : 1 ≤ r.start) (h2 : r.start ≤ r.stop)
    (hkeys : ∀ kv ∈ r.attrs.quals, kv.1 ≠ []) :
    ∃ tail, qualPairs r.attrs.raiseOnReserved (sortQuals r.attrs.quals) = .ok tail ∧
      parseLine line = some ⟨r.seqid, gffSource, r.type.value, r.start, r.stop, nullColumn, r.strand,
                             phaseNat r.phase, (headPairs r.attrs ++ tail).map decodePair⟩ :=
  parseLine_rowStr r line h hseq hne h1 h2 hkeys

/-! ### non-vacuity of the hypotheses: a two-isoform minus-strand gene with a 0-bp-gap CDS in a chunk at 10 -/

def exTx1 : STx :=
  { guid := "00000000-0000-0000-0000-000000000002".toList, strand := .minus, exons := [(12, 20), (20, 31), (40, 45)],
    cds := some ⟨"00000000-0000-0000-0000-000000000003".toList, [(15, 20), (20, 31), (40, 42)], [.ONE, .ZERO, .ZERO]⟩,
    tid := some ['t', '1'], sym := none, ttype := some ['m', 'R', 'N', 'A'], pid := some ['p'], product := none,
    quals := [(['k', ' '], [['v', ';']])] }
def exTx2 : STx :=
  { guid := "00000000-0000-0000-0000-000000000004".toList, strand := .minus, exons := [(14, 18)], cds := none,
    tid := none, sym := none, ttype := none, pid := none, product := none, quals := [] }
def exColl : SColl :=
  { seqName := some ['c', 'h', 'r'], par := .chunk 10 90,
    children := [.gene { guid := "00000000-0000-0000-0000-000000000001".toList, gid := some ['g'], sym := some ['G'],
                         gtype := none, locus := none, quals := [], txs := [exTx1, exTx2] }] }

example : collWF 10 exColl = true := by decide
example : uuidShaped exTx1.guid = true := by decide
example : (Spec.Gff.allGuids exColl).Nodup ∧ ∀ g ∈ Spec.Gff.allGuids exColl, uuidShaped g = true := by decide
/-- a row of that collection meeting the hypotheses of T2a / T5-line -/
def exRow : Row :=
  ⟨['c', 'h', 'r'], .cds, 6, 10, .minus, .TWO, ⟨exTx1.guid ++ ['-', '1'], some exTx1.guid, some ['p'], exTx1.quals, false⟩⟩
example : (∃ line, rowStr exRow = .ok line) ∧ noSep exRow.seqid ∧ exRow.seqid ≠ [] ∧ 1 ≤ exRow.start ∧
    exRow.start ≤ exRow.stop ∧ (∀ kv ∈ exRow.attrs.quals, kv.1 ≠ []) :=
  ⟨rowStr_noraise _ rfl, by decide, by decide, by decide, by decide, by decide⟩

end BioCantor.Props.C11
