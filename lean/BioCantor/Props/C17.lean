import BioCantor.Model.Tbl
import BioCantor.Spec.Tbl
namespace BioCantor.Props.C17
open BioCantor

theorem placeholder : Model.Tbl.locPairs [] .plus = [] := rfl

end BioCantor.Props.C17
