/-
  C17 — NCBI feature-table (.tbl) export lists the model's genes 5'→3', partial marks correct.

  Property theorems only (helper lemmas: Proofs/TblCodec, TblFile, TblRows, TblQuals, TblCDS, TblMain).

    Spec.Tbl.read / readFeatures   an INDEPENDENT reader of the 5-column text (header line, `start<TAB>end<TAB>key`
                                   rows, continuation rows, `<TAB><TAB><TAB>key<TAB>value` qualifier lines)
    Spec.Tbl.okFeat pre w f        the clauses of the property on one feature `f` as read back: key, rows = the maximal
                                   merged source blocks as 1-based inclusive intervals in 5'→3' order (start ≥ end on
                                   the minus strand), `<` / `>` exactly as expected, `pseudo`, `codon_start`,
                                   `locus_tag = pre_<n>`
    Spec.Tbl.CdsIn.*               partial marks / in-frame stop read off the chromosome letters (property wording)
    Model.Tbl.*                    mirror of io/ncbi/tbl_writer.py (on top of Model/CDS.lean, Model/Location.lean)

  Every theorem quantifies over ALL block lists (any number of blocks, unbounded coordinates / decimal rendering),
  both strands, all feature keys / qualifier dictionaries without tab / line break.

  What is proved (everything below), and what stays outside the Lean development:
    proved   text ⇄ reader (rows, marks, qualifiers, header, whole call over several collections); rows denote the
             blocks; block merging = maximal runs; the CDS object `TblGene` builds (merged blocks + regenerated frames
             + `from_location`) is a well-formed CDS in one reading frame starting at the start frame (complement of
             F-C05h) and its `CDSTblFeature` values / `has_in_frame_stop` are the spec's reading of the SOURCE blocks;
             one gene end to end (coding: gene + mRNA + CDS per isoform, non-coding: gene + RNA per transcript, flavour
             filter) against `Spec.Tbl.wantGene`; a whole `collection_to_tbl` call against `Spec.Tbl.okFiles`, locus
             tags running on across collections; `_qualifiers_to_str` selection rules; seeding switch.
    outside  the CONTENT of the qualifier dictionaries other than `locus_tag` / `codon_start` / `pseudo` (gene
             symbols, notes, products, random `gnl|lab|…` identifiers) is data the theorems quantify over; that the
             real dictionaries contain the two entries is checked by the `coll` runs.  Reproducibility for a fixed seed
             is checked by exporting twice.  F-C05h inputs (5'-most merged CDS block shorter than the start frame) and
             CDSs without a complete codon are outside `CodingTxOK` (the former is a finding, the latter is covered by
             the `cdsfeat` / `coll` runs against the spec's "partial at both ends" reading).
-/
import BioCantor.Proofs.TblAll
set_option autoImplicit false   -- an unresolved name in a statement must be an error, never a bound variable
namespace BioCantor.Props.C17
open BioCantor BioCantor.Model BioCantor.Model.Tbl BioCantor.Spec BioCantor.Spec.Tbl BioCantor.Proofs
open BioCantor.Proofs.Tbl
open BioCantor.Model.Bed (natStr)

/-! ### T1 — the text of a feature's location reads back as its rows, and the rows denote the blocks -/

/-- `_location_to_str` against the independent reader: for every non-empty block list, strand, pair of partial
    marks and feature key (no tab / line break), the text holds exactly one feature with the printed rows. -/
theorem location_text_reads_back (key : List Char) (blocks : List Blk) (st : Strand) (si ei : Bool)
    (hb : blocks ≠ []) (hk : key ≠ [] ∧ '\t' ∉ key ∧ '\n' ∉ key) :
    ∃ t, locationToStr key blocks st si ei = some t ∧
      readFeatures t = some [⟨key, rowsOf (locPairs blocks st) si ei, []⟩] :=
  locationToStr_read key blocks st si ei hb hk

/-- the printed rows decode to exactly the blocks as 1-based inclusive intervals in 5'→3' order — ascending with
    `start ≤ end` on the plus strand, descending with `start ≥ end` on the minus strand (`rowsBlocks` refuses
    anything else) — for every list of non-empty blocks. -/
theorem rows_denote_the_blocks (blocks : List Blk) (st : Strand) (si ei : Bool) (hpos : ∀ b ∈ blocks, b.1 < b.2) :
    rowsBlocks st (rowsOf (locPairs blocks st) si ei) = some blocks :=
  rows_denote_blocks blocks st si ei hpos

/-- `<` stands before the first start exactly when the 5' end is flagged incomplete, `>` before the last end exactly
    when the 3' end is; no other mark is written. -/
theorem partial_marks_are_the_flags (blocks : List Blk) (st : Strand) (si ei : Bool) (hb : blocks ≠ []) :
    innerMarksClean (rowsOf (locPairs blocks st) si ei) = true ∧
    firstMark (rowsOf (locPairs blocks st) si ei) = some si ∧
    lastMark (rowsOf (locPairs blocks st) si ei) = some ei :=
  rows_marks _ si ei (locPairs_ne_nil blocks st hb)

/-! ### T2 — block merging in `TblGene` -/

/-- `tx._location.optimize_and_combine_blocks()` on an exon layout (ascending, non-empty, non-overlapping blocks,
    0-bp gaps allowed; any strand) yields the maximal runs of the covered positions. -/
theorem merged_exons_are_maximal_runs (t : Tx) (h : goodBlocks t.exons = true) (hne : t.exons ≠ []) :
    mergeExons t = .ok (mergedBlocks t.exons) :=
  mergeExons_runs t h hne

/-- the merged blocks cover exactly the source positions, read in the same 5'→3' order on either strand; no merged
    block is empty and none ends where the next begins (they are maximal). -/
theorem merged_blocks_same_positions_maximal (src : List Blk) (st : Strand) (h : goodBlocks src = true) :
    bases ⟨mergedBlocks src, st⟩ = bases ⟨src, st⟩ ∧ normalBlocks (mergedBlocks src) = true :=
  ⟨merged_same_bases src st h, merged_normal src h⟩

/-! ### T3 — a printed feature, read back, meets every clause; the whole file reads back -/

/-- for every feature the writer can print (blocks = the merged source blocks, any strand, marks, `pseudo` flag,
    further qualifiers): the feature as the independent reader sees it satisfies `okFeat`. -/
theorem printed_feature_meets_clauses (pre : List Char) (hpre : plainChars pre) (f : Feature) (hok : FeatOK f)
    (src : List Blk) (hgood : goodBlocks src = true) (hblocks : f.blocks = mergedBlocks src)
    (keyOk : List Char → Bool) (hkey : keyOk f.key = true) (cs : Option Nat)
    (hcs : ∀ n, cs = some n → f.key = "CDS".toList ∧
      f.quals.filter (fun kv => kv.1 = "codon_start".toList) = [("codon_start".toList, [some (natStr n)])])
    (tagNo : Nat)
    (hlt : f.quals.filter (fun kv => kv.1 = "locus_tag".toList)
      = [("locus_tag".toList, [some (pre ++ '_' :: natStr tagNo)])]) :
    okFeat pre ⟨keyOk, [f.strand], src, f.si, f.ei, f.pseudo, cs, tagNo⟩ (featOf f) = true :=
  feature_clauses pre hpre f hok src hgood hblocks keyOk hkey cs hcs tagNo hlt

/-- `collection_to_tbl`'s text for one collection (header `>Features <name>`, then every feature) reads back as one
    section named after the sequence holding exactly the printed features, in order. -/
theorem file_reads_back (seqName : List Char) (fs : List Feature)
    (hn : seqName ≠ [] ∧ ' ' ∉ seqName ∧ '\n' ∉ seqName) (hfs : ∀ f ∈ fs, FeatOK f) :
    ∃ t, fileText seqName fs = some t ∧ Spec.Tbl.read t = some [⟨seqName, fs.map featOf⟩] :=
  fileText_read seqName fs hn hfs

/-- the text-level hypothesis `FeatOK` of the two theorems above holds for every feature with at least one block, a
    key and a qualifier dictionary free of tab / line break (keys non-empty): `_qualifiers_to_str` only sorts values
    and strips characters. -/
theorem clean_feature_prints_readable_text (f : Feature) (hb : f.blocks ≠ [])
    (hk : f.key ≠ [] ∧ '\t' ∉ f.key ∧ '\n' ∉ f.key) (hq : QualsClean f.quals) : FeatOK f :=
  featOK_of_clean f hb hk hq

/-- the `pseudo` qualifier line is present exactly when the feature is flagged -/
theorem pseudo_line_iff_flag (f : Feature) :
    ((featOf f).quals.any (fun q => q.1 = "pseudo".toList)) = f.pseudo :=
  pseudo_read_back f

/-! ### T4 — the CDS feature -/

/-- `CDSTblFeature` on a CDS object in one uninterrupted reading frame with at least one codon: `codon_start` is the
    start frame plus one; the 5' end is flagged incomplete exactly when the first codon is not a start codon of the
    chosen table (`Gen.startCodons`, tied to the NCBI tables by C05/C15); the 3' end exactly when the CDS does not
    end in frame on a stop codon. -/
theorem cds_feature_flags (c : CDS) (h : WFCDS c)
    (hshallow : shallowTrim (exonWalk c.loc (specFrames c)) = true)
    (hkept : c.loc.blocks.length = 1 ∨ cdsKept c.loc (specFrames c) ≠ [])
    (chrom : List Char) (hs : SeqOK c chrom) (halpha : ∀ ch ∈ chrom, ch.toUpper ∈ Gen.codonAlphabet)
    (table : Nat) (ht : table = 0 ∨ table = 1 ∨ table = 11)
    (fr : CDSFrame) (rest : List CDSFrame) (hfr : c.frameIter = fr :: rest)
    (f : Nat) (hf : fr.value = (f : Int)) (hplain : PlainFrame c f)
    (hcod : (cdsInOf c f chrom).codons ≠ some []) :
    ∃ si ei, cdsFlags c (table : Int) = .ok (f + 1, si, ei) ∧
      (cdsInOf c f chrom).startPartial table = some si ∧ (cdsInOf c f chrom).endPartial = some ei :=
  cdsFlags_spec c h hshallow hkept chrom hs halpha table ht fr rest hfr f hf hplain hcod

/-- the frames `TblGene` regenerates for the merged CDS (`construct_frames_from_location(merged, first frame)`)
    describe one uninterrupted reading frame from the start frame on (C05-T4) — unless the 5'-most merged block is
    shorter than the start frame (F-C05h, witness below). -/
theorem regenerated_frames_are_one_frame (src : List Blk) (st : Strand) (hst : st = .plus ∨ st = .minus)
    (hgood : goodBlocks src = true) (hne : mergedBlocks src ≠ []) (l : Location)
    (hl : toLoc l = some ⟨mergedBlocks src, st⟩) (f : CDSFrame) (hf : f ≠ .NONE)
    (hfirst : (mergedBlocks src).length = 1 ∨ f.value ≤ (firstLen ⟨mergedBlocks src, st⟩ : Int)) :
    okFrames ⟨mergedBlocks src, st⟩ f.value.toNat ((ans (constructFramesFromLocation l f)).map frameVals) = true :=
  constructFrames_ok l ⟨mergedBlocks src, st⟩ hl hne hst f hf hfirst

/-- the reading-frame clauses read the same letters before and after merging -/
theorem reading_frame_clauses_survive_merging (src : List Blk) (st : Strand) (f : Nat) (g : List Char)
    (h : goodBlocks src = true) (table : Nat) :
    (⟨mergedBlocks src, st, f, g⟩ : CdsIn).startPartial table = (⟨src, st, f, g⟩ : CdsIn).startPartial table ∧
    (⟨mergedBlocks src, st, f, g⟩ : CdsIn).endPartial = (⟨src, st, f, g⟩ : CdsIn).endPartial ∧
    (⟨mergedBlocks src, st, f, g⟩ : CdsIn).inFrameStop = (⟨src, st, f, g⟩ : CdsIn).inFrameStop :=
  cdsIn_merged src st f g h table

/-- **the CDS feature of a coding transcript, end to end** (this discharges the former `_partial`): take the CDS
    object of the transcript (`c0`: source blocks `src`, any frame vector whose 5' frame is `fr`), let `TblGene` merge
    the blocks, regenerate the frames and rebuild the object (`Model.Tbl.mergeCDS`), then compute `CDSTblFeature`'s
    values: the object sits on `mergedBlocks src`, `codon_start = fr + 1`, and the two completeness flags are the
    clauses of the property read off the SOURCE blocks and the chromosome letters.  Guard `hfirst` = complement of
    F-C05h (the 5'-most merged block is at least as long as the start offset). -/
theorem cds_feature_of_merged_transcript (c0 : CDS) (src : List Blk) (st : Strand) (hloc : c0.loc = ⟨src, st⟩)
    (hst : st = .plus ∨ st = .minus) (hg : goodBlocks src = true) (hne : src ≠ [])
    (fr : CDSFrame) (rest0 : List CDSFrame) (hfi : c0.frameIter = fr :: rest0) (hfr : fr ≠ .NONE)
    (hfirst : (mergedBlocks src).length = 1 ∨ fr.value ≤ (firstLen ⟨mergedBlocks src, st⟩ : Int))
    (chrom : List Char) (hseq : c0.seq = some chrom) (hcov : ∀ b ∈ src, b.2 ≤ chrom.length) (hch : ChromOK chrom)
    (table : Nat) (ht : table = 0 ∨ table = 1 ∨ table = 11)
    (hcod : (⟨src, st, fr.value.toNat, chrom⟩ : CdsIn).codons ≠ some []) :
    ∃ c si ei, mergeCDS c0 = .ok c ∧ c.loc = ⟨mergedBlocks src, st⟩ ∧
      cdsFlags c (table : Int) = .ok (fr.value.toNat + 1, si, ei) ∧
      (⟨src, st, fr.value.toNat, chrom⟩ : CdsIn).startPartial table = some si ∧
      (⟨src, st, fr.value.toNat, chrom⟩ : CdsIn).endPartial = some ei :=
  merged_cds_feature c0 src st hloc hst hg hne fr rest0 hfi hfr hfirst chrom hseq hcov hch table ht hcod

/-- the object `mergeCDS` returns: on the merged blocks, same letters, the start frame first, well formed, shallow,
    in ONE uninterrupted reading frame (`MergedCDS`) -/
theorem merged_cds_is_well_formed_one_frame (c0 : CDS) (src : List Blk) (st : Strand) (hloc : c0.loc = ⟨src, st⟩)
    (hst : st = .plus ∨ st = .minus) (hg : goodBlocks src = true) (hne : src ≠ [])
    (fr : CDSFrame) (rest0 : List CDSFrame) (hfi : c0.frameIter = fr :: rest0) (hfr : fr ≠ .NONE)
    (hfirst : (mergedBlocks src).length = 1 ∨ fr.value ≤ (firstLen ⟨mergedBlocks src, st⟩ : Int))
    (chrom : List Char) (hseq : c0.seq = some chrom) (hcov : ∀ b ∈ src, b.2 ≤ chrom.length) :
    ∃ c, mergeCDS c0 = .ok c ∧ MergedCDS (mergedBlocks src) st fr (some chrom) c :=
  mergeCDS_spec c0 src st hloc hst hg hne fr rest0 hfi hfr hfirst chrom hseq hcov

/-- `has_in_frame_stop` of the merged CDS object = "a codon before the last is a stop codon" on the SOURCE blocks -/
theorem in_frame_stop_of_merged_transcript (c0 : CDS) (src : List Blk) (st : Strand) (hloc : c0.loc = ⟨src, st⟩)
    (hst : st = .plus ∨ st = .minus) (hg : goodBlocks src = true) (hne : src ≠ [])
    (fr : CDSFrame) (rest0 : List CDSFrame) (hfi : c0.frameIter = fr :: rest0) (hfr : fr ≠ .NONE)
    (hfirst : (mergedBlocks src).length = 1 ∨ fr.value ≤ (firstLen ⟨mergedBlocks src, st⟩ : Int))
    (chrom : List Char) (hseq : c0.seq = some chrom) (hcov : ∀ b ∈ src, b.2 ≤ chrom.length) (hch : ChromOK chrom)
    (hcod : (⟨src, st, fr.value.toNat, chrom⟩ : CdsIn).codons ≠ some [])
    (hacgt : ∀ cods, (⟨src, st, fr.value.toNat, chrom⟩ : CdsIn).codons = some cods →
      ∀ cod ∈ cods, (standardCode cod).isSome = true) :
    ∃ c b, mergeCDS c0 = .ok c ∧ hasInFrameStop c = .ok b ∧
      (⟨src, st, fr.value.toNat, chrom⟩ : CdsIn).inFrameStop = some b :=
  merged_cds_in_frame_stop c0 src st hloc hst hg hne fr rest0 hfi hfr hfirst chrom hseq hcov hch hcod hacgt

/-! ### T5 — pseudo -/

/-- `has_in_frame_stop` of a CDS object in one reading frame whose codons are plain ACGT is "a codon before the last
    one is a stop codon". -/
theorem in_frame_stop_is_inner_stop_codon (c : CDS) (h : WFCDS c)
    (hshallow : shallowTrim (exonWalk c.loc (specFrames c)) = true)
    (hkept : c.loc.blocks.length = 1 ∨ cdsKept c.loc (specFrames c) ≠ [])
    (chrom : List Char) (hs : SeqOK c chrom) (halpha : ∀ ch ∈ chrom, ch.toUpper ∈ Gen.codonAlphabet)
    (f : Nat) (hplain : PlainFrame c f)
    (hacgt : ∀ cods, (cdsInOf c f chrom).codons = some cods → ∀ cod ∈ cods, (standardCode cod).isSome = true) :
    ∃ b, hasInFrameStop c = .ok b ∧ (cdsInOf c f chrom).inFrameStop = some b :=
  inFrameStop_spec c h hshallow hkept chrom hs halpha f hplain hacgt

/-- `GeneTblFeature.is_pseudo` of a coding gene is "SOME transcript has an in-frame stop" (not the first one, not
    all of them): for any number of transcripts. -/
theorem pseudo_iff_some_transcript_has_in_frame_stop (cbs : List (CDS × Bool))
    (h : ∀ p ∈ cbs, hasInFrameStop p.1 = .ok p.2) :
    anyInFrameStop (cbs.map (fun p => some p.1)) = .ok ((cbs.map (·.2)).any id) :=
  anyInFrameStop_any cbs h

/-! ### T6 — gene feature strand, locus tags, seeding -/

/-- the strand `GeneTblFeature` picks (`max(strands, key=strands.count)`) is carried by a largest number of the
    gene's transcripts. -/
theorem gene_strand_is_a_majority_strand (g : GeneIn) (s : Strand)
    (h : geneStrand (g.txs.map (·.strand)) = some s) : s ∈ g.majorityStrands :=
  geneStrand_majority g s h

/-- the gene feature's single interval: from the smallest exon start to the largest exon end over all transcripts
    (both attained), for any number of transcripts with good exon layouts. -/
theorem gene_feature_spans_all_transcripts (txs : List Tx) (hne : txs ≠ [])
    (hgood : ∀ t ∈ txs, goodBlocks t.exons = true ∧ t.exons ≠ []) :
    ∃ a b, geneSpan txs = some (a, b) ∧
      (∀ t ∈ txs, ∀ e ∈ t.exons, a ≤ e.1 ∧ e.2 ≤ b) ∧
      (∃ t ∈ txs, ∃ e ∈ t.exons, e.1 = a) ∧ (∃ t ∈ txs, ∃ e ∈ t.exons, e.2 = b) :=
  geneSpan_spec txs hne hgood

/-- the RNA feature of a transcript of a non-coding gene (`rRNA` / `tRNA` / `ncRNA` by the gene's biotype): no
    partial marks, no `pseudo`, no `codon_start`; its rows are the merged blocks (`Model.Tbl.rnaRowsMerged = true`:
    the code since /repo 7a2fc3c) — the source blocks AS GIVEN with the switch off (the pinned code, F-C17c). -/
theorem rna_feature_rows (g : Gene) (hnc : g.isCoding = false) (table : Int) (pseudo : Bool) (t : Tx)
    (h : goodBlocks t.exons = true) (hne : t.exons ≠ []) (mc : Option CDS) :
    ∃ key, txFeatures g table pseudo t (mergedBlocks t.exons) mc
        = .ok [⟨key, t.strand, if rnaRowsMerged then mergedBlocks t.exons else t.exons, false, false, false, none⟩] ∧
      (key = "rRNA".toList ∨ key = "tRNA".toList ∨ key = "ncRNA".toList) :=
  rna_feature g hnc table pseudo t h hne mc

/-- F-C17c regression witness (repaired in /repo 7a2fc3c): `transcript.chromosome_location`, which the RNA
    features used to print, keeps the adjacent exons [3,9) [9,12) apart, while the `_location` that `TblGene` merged
    (and that every transcript-level feature prints now) is the single block [3,12). -/
theorem rna_rows_source_unmerged_witness :
    chromosomeBlocks ⟨.minus, [(3, 9), (9, 12)], none, some "lncRNA".toList⟩ = .ok [(3, 9), (9, 12)] ∧
    mergeExons ⟨.minus, [(3, 9), (9, 12)], none, some "lncRNA".toList⟩ = .ok [(3, 12)] := by
  refine ⟨chromosomeBlocks_good _ (by decide) (by decide), ?_⟩
  rw [mergeExons_runs _ (by decide) (by decide)]
  have : mergedBlocks [(3, 9), (9, 12)] = [(3, 12)] := by decide
  simp only [this]

/-- for every prefix, step and number of genes: the tags decode as `prefix_<n>` with `n` increasing by exactly the
    step from the step on, and they are pairwise distinct when the step is positive. -/
theorem locus_tags_increase_by_step_and_are_distinct (pre : List Char) (step n : Nat) :
    okTags pre step (locusTags pre (step : Int) n) = true :=
  locusTags_ok pre step n

/-- the tag handed to gene number `i + 1` is `prefix_<(i+1)·step>` -/
theorem locus_tag_of_gene (pre : List Char) (step n i : Nat) (h : i < n) :
    (locusTags pre (step : Int) n)[i]? = some (pre ++ '_' :: natStr ((i + 1) * step)) :=
  locusTags_get pre step n i h

/-- with the repair of F-C17a (`if random_seed is not None:`) every given seed is applied -/
theorem repaired_seeding_applies_every_seed (seed : Option Int) : seedApplied true seed = seed.isSome := by
  cases seed <;> rfl

/-- F-C17a (the code as it is, `if random_seed:`): every seed except 0 is applied -/
theorem seeding_as_is_partial (s : Int) (h : s ≠ 0) : seedApplied false (some s) = true := by
  simp [seedApplied, h]

/-- F-C17a witness: seed 0 is silently not applied -/
theorem seed_zero_is_ignored_witness : seedApplied false (some 0) = false := by decide

/-! ### T7 — one gene, one collection, one call -/

/-- ONE GENE END TO END: for a gene inside the claim (`GeneOK`: ≥ 1 transcript; all isoforms coding and inside
    `CodingTxOK`, or all non-coding), `Model.Tbl.tblGene` succeeds and its feature objects — after the flavour filter —
    meet, one by one and in order, what `Spec.Tbl.wantGene` expects: gene feature (span, a majority strand, `pseudo` iff
    some isoform has an in-frame stop), then per isoform (mRNA,) CDS with merged blocks / marks / codon_start, or per
    transcript one rRNA / tRNA / ncRNA feature with merged blocks. -/
theorem gene_features_meet_expectation (g : Gene) (c : CollIn) (hch : ChromOK c.genome)
    (ht : c.table = 0 ∨ c.table = 1 ∨ c.table = 11) (tag : Nat) (h : GeneOK c.genome g) :
    ∃ skels ws, tblGene g (some c.genome) (c.table : Int) = .ok skels ∧
      wantGene c tag (specGene g) = some ws ∧ Rel2 (SkelMeets tag) ws (flavourSkels c.prokaryotic skels) :=
  tblGene_ok g c hch ht tag h

/-- prokaryotic flavour: no `mRNA` feature is written and every other one is, order kept; eukaryotic: all of them -/
theorem flavour_selects_features (prok : Bool) (fs : List Feature) :
    flavourFilter prok fs = (if prok then fs.filter (fun f => f.key ≠ "mRNA".toList) else fs) ∧
    (∀ f ∈ flavourFilter prok fs, f ∈ fs ∧ (prok = true → f.key ≠ "mRNA".toList)) ∧
    (∀ f ∈ fs, (prok = false ∨ f.key ≠ "mRNA".toList) → f ∈ flavourFilter prok fs) :=
  flavourFilter_spec prok fs

/-- WHOLE CALL, text level: for collections with the expectations of the property (`wantAll`, gene numbering running
    on) and printed features realising them, the text of the call reads back and meets `okFiles`. -/
theorem staged_call_meets_okFiles (items : List (CollIn × List Want × List Feature)) (h : Staged 1 items) :
    ∃ t secs, filesText (items.map (fun it => (it.1.seqName, it.2.2))) = some t ∧
      Spec.Tbl.read t = some secs ∧ okFiles (items.map (·.1)) secs = true :=
  okFiles_of_staged items h

/-- WHOLE CALL, from the model's genes: any number of collections, each with any number of genes inside the claim and
    qualifier dictionaries that carry the `locus_tag` (numbered on across collections) and `codon_start` entries —
    `Model.Tbl.collectionFeatures` yields the features of every collection, the text of the call
    (`>Features <name>` per collection) reads back, and the sections meet C17 (`Spec.Tbl.okFiles`). -/
theorem collection_to_tbl_meets_property (table : Nat) (ht : table = 0 ∨ table = 1 ∨ table = 11) (prok : Bool)
    (pre : List Char) (hpre : plainChars pre) (step : Nat)
    (colls : List (List Char × List Char × List (Gene × List Quals)))
    (h : CallStaged table prok pre step 1 colls) :
    ∃ items : List (CollIn × List Want × List Feature),
      items.map (·.1) = colls.map (fun x => collInOf x.1 x.2.1 table prok pre step x.2.2) ∧
      Rel2 (fun (x : List Char × List Char × List (Gene × List Quals)) (it : CollIn × List Want × List Feature) =>
        collectionFeatures prok (some x.2.1) (table : Int) x.2.2 = .ok it.2.2) colls items ∧
      ∃ t secs, filesText (items.map (fun it => (it.1.seqName, it.2.2))) = some t ∧
        Spec.Tbl.read t = some secs ∧
        okFiles (colls.map (fun x => collInOf x.1 x.2.1 table prok pre step x.2.2)) secs = true :=
  call_meets_property table ht prok pre hpre step colls h

/-- the hypotheses of the whole-call theorem are satisfiable for EVERY gene inside the claim: dictionaries that fit the
    objects `TblGene` yields exist (the minimal ones: `locus_tag`, plus `codon_start` on objects that carry one) -/
theorem fitting_dictionaries_exist (c : CollIn) (hch : ChromOK c.genome) (ht : c.table = 0 ∨ c.table = 1 ∨ c.table = 11)
    (hp : '\t' ∉ c.tagPrefix ∧ '\n' ∉ c.tagPrefix) (tagNo : Nat) (g : Gene) (h : GeneOK c.genome g) :
    ∃ qs, QualsFit c tagNo g qs :=
  qualsFit_exists c hch ht hp tagNo g h

/-- several collections in one call read back as one section each, in order, under their own headers -/
theorem several_collections_read_back (colls : List (List Char × List Feature)) (h : ∀ c ∈ colls, CollOK c) :
    ∃ t, filesText colls = some t ∧ Spec.Tbl.read t = some (colls.map (fun c => ⟨c.1, c.2.map featOf⟩)) :=
  filesText_read colls h

/-- locus tags across the collections of one call: gene `j` (0-based) of collection `i` gets
    `prefix_<(g + j + 1)·step>` with `g` the number of genes in the collections before it (the offset is not reset per
    collection); together the tags are the one running sequence of `locus_tags_increase_by_step_and_are_distinct`. -/
theorem locus_tags_run_on_across_collections (pre : List Char) (step : Nat) (counts : List Nat) (i j n : Nat)
    (h : counts[i]? = some n) (hj : j < n) :
    ((collectionTags pre (step : Int) counts)[i]?).bind (fun l => l[j]?)
        = some (pre ++ '_' :: natStr (((counts.take i).sum + j + 1) * step)) ∧
    (collectionTags pre (step : Int) counts).flatten = locusTags pre (step : Int) counts.sum :=
  ⟨collectionTags_spec pre step counts i j n h hj, collectionTags_flatten pre step counts⟩

/-! ### T8 — `_qualifiers_to_str` -/

/-- what the reader finds under a key of the feature class's `VALID_KEYS`: for every dictionary entry with that key,
    in dictionary order, its non-`None` values — reordered by `sorted` (`sortStrs_perm`: a permutation) and with the
    characters `[ ] ( ) ;` removed; entries with an empty or all-`None` value list print nothing. -/
theorem valid_key_values_read_back (f : Feature) (k : String)
    (hk : (validKeys f.key).contains k.toList = true) (hnp : k.toList ≠ "pseudo".toList) :
    qualValues (featOf f) k = printedValues k.toList f.quals ∧
    ∀ vals : List (List Char), (sortStrs vals).Perm vals :=
  ⟨qualValues_featOf f k hk hnp, sortStrs_perm⟩

/-- a key outside `VALID_KEYS` of the feature class is never printed (e.g. `codon_start` on an mRNA feature, whose
    dictionary object is shared with the CDS feature) -/
theorem invalid_key_is_dropped (f : Feature) (k : List Char) (hk : (validKeys f.key).contains k = false) :
    (qualPairsOf (validKeys f.key) f.quals).filter (fun p => p.1 = k) = [] :=
  invalid_key_not_printed _ k hk f.quals

/-! ### non-vacuity: concrete inputs satisfying the hypotheses -/

/-- a minus-strand mRNA on three merged blocks, both ends partial, with qualifiers -/
def exampleFeature : Feature :=
  { key := "mRNA".toList, blocks := [(2, 9), (12, 14), (20, 31)], strand := .minus, si := true, ei := true,
    pseudo := true,
    quals := [("gene".toList, [some "abc".toList]), ("locus_tag".toList, [some "LT_10".toList]),
              ("note".toList, [some "z(b)".toList, none, some "a;x".toList]), ("other".toList, [some "dropped".toList])] }

example : goodBlocks [(2, 5), (5, 9), (12, 14), (20, 26), (26, 31)] = true := by decide
example : mergedBlocks [(2, 5), (5, 9), (12, 14), (20, 26), (26, 31)] = exampleFeature.blocks := by decide
example : plainChars "LT".toList := by intro c hc; simp at hc; rcases hc with rfl | rfl <;> decide
example : exampleFeature.quals.filter (fun kv => kv.1 = "locus_tag".toList)
    = [("locus_tag".toList, [some ("LT".toList ++ '_' :: natStr 10)])] := by decide
example : exampleFeature.str = some
    ("<31\t21\tmRNA\t\t\n14\t13\t\t\t\n9\t>3\t\t\t\n\t\t\tgene\tabc\n\t\t\tlocus_tag\tLT_10\n" ++
     "\t\t\tnote\tax\n\t\t\tnote\tzb\n\t\t\tpseudo\t").toList := by decide
example : FeatOK exampleFeature :=
  ⟨by decide, by decide, by decide⟩
example : QualsClean [("note".toList, [some "z(b)".toList, none])] := by
  intro kv hkv
  simp only [List.mem_singleton] at hkv
  subst hkv
  refine ⟨by decide, by decide, by decide, ?_⟩
  intro v hv
  simp only [List.mem_cons, Option.some.injEq, reduceCtorEq, List.not_mem_nil, or_false] at hv
  subst hv
  exact ⟨by decide, by decide⟩
example : readFeatures ("<31\t20\tmRNA\t\t\n14\t13\t\t\t\n9\t>3\t\t\t\n\t\t\tpseudo\t").toList
    = some [⟨"mRNA".toList, [⟨true, 31, false, 20⟩, ⟨false, 14, false, 13⟩, ⟨false, 9, true, 3⟩],
             [("pseudo".toList, [])]⟩] := by decide
example : rowsBlocks .minus [⟨true, 31, false, 20⟩, ⟨false, 14, false, 13⟩, ⟨false, 9, true, 3⟩]
    = some [(2, 9), (12, 14), (19, 31)] := by decide
example : okTags "LT".toList 5 ["LT_5".toList, "LT_10".toList, "LT_15".toList] = true := by decide
example : okTags "LT".toList 5 ["LT_5".toList, "LT_10".toList, "LT_10".toList] = false := by decide

/-- the reading-frame clauses on a small chromosome: CDS `ATG AAA TAG GGG TAA` (plus strand, two adjacent blocks and a
    gap), start frame 0: complete at both ends under every table, with an in-frame stop -/
def exampleCds : CdsIn := ⟨[(2, 6), (6, 11), (13, 19)], .plus, 0, "CCATGAAATAGCCGGGTAACC".toList⟩
example : exampleCds.startPartial 0 = some false ∧ exampleCds.endPartial = some false ∧
    exampleCds.inFrameStop = some true := by decide
/-- the same letters read from frame 1 (`TGA AAT AGG GGT AA`): 5'-partial, 3'-partial, the first codon is a stop
    but no codon BEFORE the last is one after it … `TGA` is: in-frame stop -/
example : ({ exampleCds with frame := 1 } : CdsIn).startPartial 11 = some true ∧
    ({ exampleCds with frame := 1 } : CdsIn).endPartial = some true := by decide
/-- `TTG` starts a CDS under tables 1 and 11 only -/
example : (⟨[(0, 6)], .plus, 0, "TTGTAA".toList⟩ : CdsIn).startPartial 0 = some true ∧
    (⟨[(0, 6)], .plus, 0, "TTGTAA".toList⟩ : CdsIn).startPartial 1 = some false := by decide
/-- minus strand: the reverse complement of `TTACAT` is `ATGTAA` -/
example : (⟨[(0, 6)], .minus, 0, "TTACAT".toList⟩ : CdsIn).startPartial 0 = some false ∧
    (⟨[(0, 6)], .minus, 0, "TTACAT".toList⟩ : CdsIn).endPartial = some false := by decide

/-- the model object of `exampleCds` (frames 0,1,0 = one reading frame from frame 0): the hypotheses of
    `cds_feature_flags` / `in_frame_stop_is_inner_stop_codon` hold for it -/
def exampleCDSObj : CDS :=
  { loc := ⟨[(2, 6), (6, 11), (13, 19)], .plus⟩, start := 2, «end» := 19, frames := [.ZERO, .ONE, .ZERO],
    seq := some "CCATGAAATAGCCGGGTAACC".toList }

example : WFCDS exampleCDSObj := ⟨Or.inl rfl, by decide, by decide, by decide, by decide, by decide⟩
example : shallowTrim (exonWalk exampleCDSObj.loc (specFrames exampleCDSObj)) = true := by decide
example : cdsKept exampleCDSObj.loc (specFrames exampleCDSObj) ≠ [] := by decide
example : SeqOK exampleCDSObj "CCATGAAATAGCCGGGTAACC".toList := ⟨rfl, by decide, by decide⟩
example : ∀ ch ∈ "CCATGAAATAGCCGGGTAACC".toList, ch.toUpper ∈ Gen.codonAlphabet := by decide
example : exampleCDSObj.frameIter = [.ZERO, .ONE, .ZERO] ∧ CDSFrame.ZERO.value = ((0 : Nat) : Int) := by decide
example : PlainFrame exampleCDSObj 0 := by unfold PlainFrame; decide
example : (cdsInOf exampleCDSObj 0 "CCATGAAATAGCCGGGTAACC".toList).codons ≠ some [] := by decide
example : ∀ cods, (cdsInOf exampleCDSObj 0 "CCATGAAATAGCCGGGTAACC".toList).codons = some cods →
    ∀ cod ∈ cods, (standardCode cod).isSome = true := by decide
example : toLoc (.compound ⟨mergedBlocks [(2, 6), (6, 11), (13, 19)], .plus⟩)
    = some ⟨mergedBlocks [(2, 6), (6, 11), (13, 19)], .plus⟩ := by decide
example : (CDSFrame.TWO).value ≤ (firstLen ⟨mergedBlocks [(2, 6), (6, 11), (13, 19)], .plus⟩ : Int) := by decide
example : geneStrand ([Strand.minus, .plus, .minus].map id) = some .minus := by decide
example : geneSpan [⟨.plus, [(5, 9), (9, 12)], none, none⟩, ⟨.minus, [(2, 7), (20, 31)], none, none⟩] = some (2, 31) := by
  decide
example : (⟨some "lncRNA".toList, [⟨.plus, [(5, 9), (9, 12)], none, none⟩]⟩ : Gene).isCoding = false := by decide
/-- a coding transcript inside `CodingTxOK` (minus strand, CDS = two adjacent blocks inside one exon + a third block,
    start frame 0, one codon `ATG` … ) and a gene inside `GeneOK` -/
def exampleTx : Tx :=
  ⟨.plus, [(2, 11), (13, 19)], some ([(2, 6), (6, 11), (13, 19)], [.ZERO, .ONE, .ZERO]), some "protein_coding".toList⟩

example : CodingTxOK "CCATGAAATAGCCGGGTAACC".toList exampleTx :=
  ⟨Or.inl rfl, by decide, by decide, [(2, 6), (6, 11), (13, 19)], [.ZERO, .ONE, .ZERO], .ZERO, [.ONE, .ZERO], rfl,
    by decide, by decide, by decide, by decide, by decide, by decide, Or.inr (by decide), by decide, by decide⟩
example : ChromOK "CCATGAAATAGCCGGGTAACC".toList := ⟨by decide, by decide⟩

def exampleGene : Gene := ⟨some "protein_coding".toList, [exampleTx]⟩

theorem exampleGene_ok : GeneOK "CCATGAAATAGCCGGGTAACC".toList exampleGene := by
  refine ⟨by decide, Or.inl ?_⟩
  intro t ht
  simp only [exampleGene, List.mem_singleton] at ht
  subst ht
  exact ⟨Or.inl rfl, by decide, by decide, [(2, 6), (6, 11), (13, 19)], [.ZERO, .ONE, .ZERO], .ZERO, [.ONE, .ZERO], rfl,
    by decide, by decide, by decide, by decide, by decide, by decide, Or.inr (by decide), by decide, by decide⟩

/-- the whole-call hypothesis holds for a one-collection call with that gene (eukaryotic, table 0, prefix `LT`, step 5) -/
example : ∃ qs, CallStaged 0 false "LT".toList 5 1
    [("chr1".toList, "CCATGAAATAGCCGGGTAACC".toList, [(exampleGene, qs)])] := by
  obtain ⟨qs, hq⟩ := qualsFit_exists (collInOf "chr1".toList "CCATGAAATAGCCGGGTAACC".toList 0 false "LT".toList 5 [])
    ⟨by decide, by decide⟩ (Or.inl rfl) ⟨by decide, by decide⟩ (1 * 5) exampleGene exampleGene_ok
  exact ⟨qs, ⟨by decide, by decide, by decide⟩, ⟨by decide, by decide⟩, ⟨exampleGene_ok, hq, trivial⟩, trivial⟩
example : NoncodingTxOK ⟨.minus, [(3, 9), (9, 12)], none, none⟩ := ⟨by decide, by decide, rfl⟩
example : mergedBlocks [(2, 6), (6, 11), (13, 19)] = [(2, 11), (13, 19)] := by decide
example : (collectionTags "LT".toList 5 [2, 0, 3]).map (·.length) = [2, 0, 3] := by decide
example : (validKeys "mRNA".toList).contains "codon_start".toList = false := by decide

end BioCantor.Props.C17
