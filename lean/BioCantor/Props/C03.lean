/-
  C03 — the extracted sequence is the base-by-base image of the coordinate map; derived sequence objects keep
  their location on the parent consistent with their characters.

  Property theorems only (helper lemmas: `Proofs/Seq*.lean`).  Model: `Model/Sequence.lean` (hand mirror of
  `extract_sequence`, `Sequence.__getitem__ / reverse_complement / append`), with complement maps and alphabet
  flags taken from the REGENERATED `Gen/Tables.lean`.  Reference: `Spec/Sequence.lean` (`Spec.bases` + the IUPAC
  complement of `Spec/Tables.lean`).  Every theorem quantifies over ALL parent sequences `P` (any characters),
  all alphabet names, all well-formed locations (`WF`: any number of blocks, zero-length, adjacent, nested,
  duplicate blocks) unless a hypothesis says otherwise; `ans` = observable answer (`none` = raised).
-/
import BioCantor.Proofs.SeqUnion
set_option autoImplicit false   -- an unresolved name in a statement must be an error, never a bound variable
namespace BioCantor.Props.C03
open BioCantor BioCantor.Spec BioCantor.Model BioCantor.Spec.Sq BioCantor.Model.Sq BioCantor.Proofs
  BioCantor.Proofs.Sq

/-- T1: `location.extract_sequence()` over a nucleotide alphabet is letter by letter
    `comp?_{strand}(P[(bases l)[i]])` — for every layout (self-overlapping ones included), both strands; it
    refuses unstranded and empty locations; a letter without complement on the minus strand is refused. -/
theorem extract_spec (P alph : List Char) (l : Location) (h : WF l) :
    okExtract P alph l (ans (extract P alph l)) = true :=
  extract_ok P alph l h

/-- T1 as an equation (nucleotide alphabet, location inside the parent) -/
theorem extract_is_image (P alph : List Char) (hnt : isNt alph = true) (l : Location) (h : WF l) (hw : Within P l) :
    ans (extract P alph l) = expectExtract P alph l :=
  extract_eq P alph hnt l h hw

-- non-vacuity: minus strand, zero-length block, 0-bp gap, lower case, IUPAC codes
example : isNt "NT_EXTENDED_GAPPED".toList = true ∧
    WF (.compound ⟨[(0, 2), (2, 5), (6, 6), (7, 8)], .minus⟩) ∧
    Within "ACgtRY-nK".toList (.compound ⟨[(0, 2), (2, 5), (6, 6), (7, 8)], .minus⟩) := by decide +kernel
example : ans (extract "ACgtRY-nK".toList "NT_EXTENDED_GAPPED".toList
    (.compound ⟨[(0, 2), (2, 5), (6, 6), (7, 8)], .minus⟩)) = some "nYacGT".toList := by decide +kernel

/-- T2: `l.reverse_strand().extract_sequence()` is (a) the image for the re-stranded location (all layouts) and
    (b) for directional, non-self-overlapping layouts the reverse complement of `l`'s own sequence, provided the
    letters read belong to the alphabet and none is `U`/`u` (on which complementing is not an involution). -/
theorem reverse_strand_spec (P alph : List Char) (l : Location) (h : WF l) :
    okRevStrand P alph l (ans (revStrandExtract P alph l)) = true :=
  revStrand_ok P alph l h

/-- T2 core, reference level: re-sorting a non-self-overlapping layout for the other strand reads the same
    positions in reverse order -/
theorem reversed_layout_reads_backwards (bs : List Blk) (st : Strand) (hd : st ≠ .unstranded)
    (hv : ∀ b ∈ bs, b.1 ≤ b.2) (hno : nonOverlap bs = true) :
    bases ⟨sortBlocks (Spec.Tab.strandReverse st) bs, Spec.Tab.strandReverse st⟩ = (bases ⟨bs, st⟩).reverse :=
  bases_reverse bs st hd hv hno
example : nonOverlap [(0, 2), (2, 5), (6, 6), (7, 8)] = true ∧ Strand.minus ≠ .unstranded := by decide

/-- T3: splitting at any `0 ≤ k ≤ len` (directional, non-self-overlapping, non-empty location inside the
    parent): the sequences of `relint(l, 0, k, +)` and `relint(l, k, len, +)` concatenate to the sequence of
    `l`, and the first has `k` letters. -/
theorem split_spec (P alph : List Char) (l : Location) (h : WF l) (k : Int) :
    okSplit P alph l k (ans (splitExtract P alph l k)) = true :=
  split_ok P alph l h k
example : ans (splitExtract "ACgtRY-nK".toList "NT_EXTENDED_GAPPED".toList (.single (2, 8) .minus) 2) =
    some ("n-".toList, "RYac".toList) := by
  decide +kernel

/-- T3 core: the sequence of an in-range relative sub-interval is the slice of the sequence -/
theorem subinterval_sequence_is_slice (P alph : List Char) (hnt : isNt alph = true) (l : Location) (h : WF l)
    (loc : Loc) (hl : toLoc l = some loc) (hW : Within P l) (hd : loc.strand.isDirectional = true)
    (hno : nonOverlap loc.blocks = true) (hlen : 0 < loc.len) (s e : Nat) (hse : s ≤ e) (he : e ≤ loc.len)
    (d : List Char) (hdta : expectExtract P alph l = some d) :
    ∃ m, relInterval l s e .plus = .ok m ∧ WF m ∧ Within P m ∧ locationStrand? m = some loc.strand ∧
      m ≠ .empty ∧ nonOverlap (locationBlocks m) = true ∧
      ((∀ b ∈ locationBlocks m, b.1 < b.2) ∨ ∃ b t, m = .single b t) ∧
      locationBases m = ((bases loc).drop s).take (e - s) ∧
      ans (extract P alph m) = some ((d.drop s).take (e - s)) :=
  sub_extract P alph hnt l h loc hl hW hd hno hlen s e hse he d hdta

/-- T4a: EVERY unit-step slice `x[a:b]` / `x[a:b:1]` of a consistent located sequence object
    (non-self-overlapping, non-empty location) is answered — whatever the bounds: `None`, negative, past the end,
    reversed.  With the bounds normalised like Python's `slice.indices`
      `rs = normStart n a` (`None ↦ 0`, negative `+ n`, clamped to `[0, n]`),
      `re = normEnd n a b = max rs stop` (`None ↦ n`, same clamp; an empty slice is `[rs, rs)`),
    the result holds `str(x)[rs:re]` and its recorded location extracts exactly those letters. -/
theorem slice_keeps_location_consistent (P alph : List Char) (hnt : isNt alph = true) (x : SeqObj) (l : Location)
    (loc : Loc) (hc : Consistent P alph x l loc) (hlen : 0 < loc.len) (a b c : Option Int)
    (hstep : c = none ∨ c = some 1) :
    ∃ y m pst, getSlice x a b c = .ok y ∧
      y.data = (x.data.drop (normStart x.data.length a)).take
        (normEnd x.data.length a b - normStart x.data.length a) ∧
      y.par = some ⟨pst, some m⟩ ∧ WF m ∧ Within P m ∧
      locationStrand? m = some loc.strand ∧ ans (extract P alph m) = some y.data ∧
      nonOverlap (locationBlocks m) = true ∧
      ((∀ b ∈ locationBlocks m, b.1 < b.2) ∨ ∃ b t, m = .single b t) ∧
      locationBases m = ((bases loc).drop (normStart x.data.length a)).take
        (normEnd x.data.length a b - normStart x.data.length a) :=
  slice_consistent P alph hnt x l loc hc hlen a b c hstep

/-- the normalised bounds are a sub-range of the text, and for in-range bounds they are the bounds themselves -/
theorem slice_normalisation (n : Nat) (a b : Option Int) (s e : Nat) (hse : s ≤ e) (he : e ≤ n) :
    (normStart n a ≤ normEnd n a b ∧ normEnd n a b ≤ n) ∧
    (normStart n (some (s : Int)) = s ∧ normEnd n (some (s : Int)) (some (e : Int)) = e) ∧
    (normStart n none = 0 ∧ normEnd n none none = n) :=
  ⟨norm_bounds n a b, sliceIndices_plain n s e hse he, by
    unfold normEnd normStart startOf stopOf; simp⟩
example : normStart 8 (some (-3)) = 5 ∧ normEnd 8 (some (-3)) (some 100) = 8 ∧ normEnd 8 (some 6) (some 2) = 6 := by
  decide

-- non-vacuity of `Consistent`
example : Consistent "ACgtRY-nK".toList "NT_EXTENDED_GAPPED".toList
    ⟨"nYacGT".toList, some ⟨none, some (.compound ⟨[(0, 2), (2, 5), (6, 6), (7, 8)], .minus⟩)⟩⟩
    (.compound ⟨[(0, 2), (2, 5), (6, 6), (7, 8)], .minus⟩) ⟨[(0, 2), (2, 5), (6, 6), (7, 8)], .minus⟩ :=
  ⟨⟨none, rfl⟩, by decide, rfl, by decide, rfl, by decide, by decide +kernel⟩

/-- T4b: `reverse_complement()` of such an object whose letters are complemented involutively (alphabet
    letters, none of them `U`/`u`): reverse-complemented text, re-stranded location, reversed parent strand,
    and the location extracts exactly the new text. -/
theorem reverse_complement_keeps_location_consistent (P alph : List Char) (hnt : isNt alph = true) (x : SeqObj)
    (l : Location) (loc : Loc) (hc : Consistent P alph x l loc) (hlen : 0 < loc.len)
    (hinv : involutiveLetters P alph loc = true) :
    ∃ d, reverseComplement alph x =
        .ok ⟨d, some ⟨some (Model.strandReverse loc.strand), some (reverseLoc l)⟩⟩ ∧
      revcomp alph x.data = some d ∧ ans (extract P alph (reverseLoc l)) = some d :=
  rc_consistent P alph hnt x l loc hc hlen hinv
example : involutiveLetters "ACgtRY-nK".toList "NT_EXTENDED_GAPPED".toList
    ⟨[(0, 2), (2, 5), (6, 6), (7, 8)], .minus⟩ = true := by decide +kernel

/-- T4c: concatenation.  For two consistent located objects `x`, `y` (single or compound locations, not
    self-overlapping, non-empty) on one directional strand with the span of `x` wholly 5' of the span of `y`
    (`appendCompatible`): `x.append(y)` is answered, holds `str(x) + str(y)`, and records a well-formed,
    non-self-overlapping location inside the parent that covers exactly the positions of both operands and
    extracts exactly the concatenated text.  (Block structure of `CompoundInterval.union`: C02's `unionP_spec`.) -/
theorem append_keeps_location_consistent (P alph : List Char) (hnt : isNt alph = true) (x y : SeqObj)
    (lx ly : Location) (locx locy : Loc) (hx : Consistent P alph x lx locx) (hy : Consistent P alph y ly locy)
    (hcomp : appendCompatible lx ly = true) :
    ∃ z m pst, append P x y = .ok z ∧ z.data = x.data ++ y.data ∧ z.par = some ⟨pst, some m⟩ ∧
      WF m ∧ Within P m ∧ locationStrand? m = some locx.strand ∧ nonOverlap (locationBlocks m) = true ∧
      (∀ q, locationCovers m q = (locationCovers lx q || locationCovers ly q)) ∧
      ans (extract P alph m) = some z.data :=
  append_consistent P alph hnt x y lx ly locx locy hx hy hcomp
-- non-vacuity: two compound minus-strand operands, the first to the right of the second
example : appendCompatible (.compound ⟨[(5, 6), (7, 9)], .minus⟩) (.compound ⟨[(0, 2), (3, 5)], .minus⟩) = true ∧
    Consistent "ACGTACGTA".toList "NT_STRICT".toList
      ⟨"TAG".toList, some ⟨none, some (.compound ⟨[(5, 6), (7, 9)], .minus⟩)⟩⟩
      (.compound ⟨[(5, 6), (7, 9)], .minus⟩) ⟨[(5, 6), (7, 9)], .minus⟩ :=
  ⟨by decide, ⟨⟨none, rfl⟩, by decide, rfl, by decide, rfl, by decide, by decide +kernel⟩⟩

/-- T4c, explicit form for single-interval operands: the recorded location is the two-block location -/
theorem append_of_single_intervals (P alph : List Char) (hnt : isNt alph = true) (a b : Blk)
    (st : Strand) (hd : st = .plus ∨ st = .minus) (ha : a.1 < a.2) (hb : b.1 < b.2)
    (hwa : blkWithin P a) (hwb : blkWithin P b) (hord : if st = .plus then a.2 ≤ b.1 else b.2 ≤ a.1)
    (dx dy : List Char) (px py : Option Strand)
    (hx : expectExtract P alph (.single a st) = some dx) (hy : expectExtract P alph (.single b st) = some dy) :
    ∃ m pst, append P ⟨dx, some ⟨px, some (.single a st)⟩⟩ ⟨dy, some ⟨py, some (.single b st)⟩⟩ =
        .ok ⟨dx ++ dy, some ⟨pst, some m⟩⟩ ∧
      m = .compound ⟨sortBlocks st [a, b], st⟩ ∧ ans (extract P alph m) = some (dx ++ dy) :=
  append_consistent_single P alph hnt a b st hd ha hb hwa hwb hord dx dy px py hx hy
example : blkWithin "ACGTAC".toList (3, 6) ∧ blkWithin "ACGTAC".toList (0, 2) ∧
    (if Strand.minus = .plus then (3 : Nat) ≤ 0 else (2 : Nat) ≤ 3) ∧
    expectExtract "ACGTAC".toList "NT_STRICT".toList (.single (3, 6) .minus) = some "GTA".toList := by
  decide +kernel

/-! ### chains of slices and reverse complements -/

/-- T5a: the model's slice index computation is Python's for EVERY bound and EVERY step (step 0 refused by both) -/
theorem slice_indices_are_pythons (n : Nat) (a b c : Option Int) :
    ans (sliceIndices n a b c) = pyIndices n a b c :=
  sliceIndices_eq_spec n a b c

/-- T5b: closed form of a unit-step slice: `d[a:b] = d[rs:re]` with the normalised bounds -/
theorem unit_slice_closed_form (d : List Char) (a b c : Option Int) (hc : c = none ∨ c = some 1) :
    pySlice d a b c = some ((d.drop (normStart d.length a)).take (normEnd d.length a b - normStart d.length a)) :=
  pySlice_unit d a b c hc
example : pySlice "ACGTAC".toList (some (-4)) none none = some "GTAC".toList := by decide +kernel

/-- T5c: ONE step keeps the chain invariant `Good` (text = sequence of the recorded directional,
    non-self-overlapping location without empty blocks — or a single interval — reading involutively
    complemented letters; or no text and no location): every unit-step slice … -/
theorem slice_step_keeps_invariant (P alph : List Char) (hnt : isNt alph = true) (x : SeqObj) (hg : Good P alph x)
    (a b c : Option Int) (hc : c = none ∨ c = some 1) :
    ∃ y, getSlice x a b c = .ok y ∧
      y.data = (x.data.drop (normStart x.data.length a)).take
        (normEnd x.data.length a b - normStart x.data.length a) ∧ Good P alph y :=
  slice_good P alph hnt x hg a b c hc

/-- … and every reverse complement -/
theorem reverse_complement_step_keeps_invariant (P alph : List Char) (hnt : isNt alph = true) (x : SeqObj)
    (hg : Good P alph x) :
    ∃ y, reverseComplement alph x = .ok y ∧ revcomp alph x.data = some y.data ∧ Good P alph y :=
  rc_good P alph hnt x hg

/-- T5d: ANY chain of unit-step slices (arbitrary bounds) and reverse complements runs to the end, the
    invariant holds for the result, and the text is what pure string semantics gives (no step may refuse) -/
theorem chain_keeps_location_consistent (P alph : List Char) (hnt : isNt alph = true)
    (prog : List Model.Sq.Step) (hprog : ∀ s ∈ prog, UnitStep s) (x : SeqObj) (hg : Good P alph x) :
    ∃ y, runProg alph x prog = .ok y ∧ Good P alph y ∧
      runSteps alph x.data (prog.map toSpecStep) = some (y.data, true) :=
  chain_good P alph hnt prog hprog x hg

/-- T5e (specification form): for every location that is directional, inside the parent, not self-overlapping,
    free of empty blocks (or a single interval) and reads involutively complemented letters, and every chain
    of unit-step slices and reverse complements, what the harness observes of
    `prog(Sequence(extract(l), parent=Parent(location=l)))` passes `okProgram` -/
theorem program_spec (P alph : List Char) (hnt : isNt alph = true) (l : Location) (loc : Loc) (h : WF l)
    (hl : toLoc l = some loc) (hW : Within P l) (hd : loc.strand.isDirectional = true)
    (hno : nonOverlap loc.blocks = true) (hz : (∀ b ∈ loc.blocks, b.1 < b.2) ∨ ∃ b s, l = .single b s)
    (hinv : involutiveLetters P alph loc = true) (prog : List Model.Sq.Step) (hprog : ∀ s ∈ prog, UnitStep s) :
    okProgram P alph l (prog.map toSpecStep) (progAns P alph l prog) = true :=
  program_ok P alph hnt l loc h hl hW hd hno hz hinv prog hprog
-- non-vacuity: a three-block minus-strand location with a 0-bp gap, and a chain slice / rc / open slice / empty slice / rc
example : WF (.compound ⟨[(0, 2), (2, 5), (7, 8)], .minus⟩) ∧
    Within "ACgtRY-nK".toList (.compound ⟨[(0, 2), (2, 5), (7, 8)], .minus⟩) ∧
    nonOverlap [(0, 2), (2, 5), (7, 8)] = true ∧ (∀ b ∈ [((0, 2) : Blk), (2, 5), (7, 8)], b.1 < b.2) ∧
    involutiveLetters "ACgtRY-nK".toList "NT_EXTENDED_GAPPED".toList ⟨[(0, 2), (2, 5), (7, 8)], .minus⟩ = true ∧
    (∀ s ∈ [Model.Sq.Step.sl (some 1) (some (-1)) none, .rc, .sl none (some 2) (some 1), .sl (some 5) (some 1) none, .rc],
      UnitStep s) := by
  decide +kernel

/-- the complement branch of `reverse_complement` that would be a KeyError is unreachable: every alphabet the
    reference calls a nucleotide alphabet is flagged by the library and has a generated complement map, which
    answers like the IUPAC complement on every character -/
theorem complement_map_total (alph : List Char) (hnt : isNt alph = true) :
    ∃ m, rcMap alph = .ok m ∧ ∀ c, m.lookup c = compOf alph c := by
  obtain ⟨m, h1, h2⟩ := rcMap_ok alph hnt
  exact ⟨m, h1, map_lookup_eq alph m h2⟩
example : isNt "NT_STRICT_UNKNOWN".toList = true := by decide +kernel

/-! ### regressions of repaired defects, and the witness of the remaining finding -/

/-- F-C03a (repaired in /repo): `seq[1:]`, `seq[:3]`, `seq[-2:]` on a located sequence are answered with a
    consistent location -/
theorem open_ended_slices_answered :
    progAns "ACGT".toList "NT_STRICT".toList (.single (0, 4) .plus) [.sl (some 1) none none] =
      some ⟨"CGT".toList, some (some .plus, some (.single (1, 4) .plus))⟩ ∧
    progAns "ACGT".toList "NT_STRICT".toList (.single (0, 4) .minus) [.sl (some (-2)) none none] =
      some ⟨"GT".toList, some (some .minus, some (.single (0, 2) .minus))⟩ ∧
    okProgram "ACGT".toList "NT_STRICT".toList (.single (0, 4) .minus) [.sl (some (-2)) none none]
      (progAns "ACGT".toList "NT_STRICT".toList (.single (0, 4) .minus) [.sl (some (-2)) none none]) = true := by
  decide +kernel

/-- F-C03b (repaired in /repo): a stepped slice of a located sequence is refused (it has no contiguous image);
    without a parent location any step is accepted -/
theorem stepped_slice_of_located_sequence_refused :
    progAns "ACGTACGT".toList "NT_STRICT".toList (.single (0, 8) .plus) [.sl (some 0) (some 8) (some 2)] = none ∧
    (match getSlice ⟨"ACGTACGT".toList, none⟩ (some 0) (some 8) (some 2) with
     | .ok y => y.data == "AGAG".toList
     | .error _ => false) = true := by
  decide +kernel

/-- F-C15a seen from C03: with `U` in the parent, the reverse complement of a minus-strand sequence no longer
    matches its recorded location (`U → A → T`) -/
theorem reverse_complement_inconsistent_on_U :
    progAns "GU".toList "NT_EXTENDED".toList (.single (0, 2) .minus) [.rc] =
      some ⟨"GT".toList, some (some .plus, some (.single (0, 2) .plus))⟩ ∧
    okProgram "GU".toList "NT_EXTENDED".toList (.single (0, 2) .minus) [.rc]
      (progAns "GU".toList "NT_EXTENDED".toList (.single (0, 2) .minus) [.rc]) = false := by
  decide +kernel

end BioCantor.Props.C03
