/- C03 — placeholder while the proofs are being written (replaced below). -/
import BioCantor.Spec.Sequence
import BioCantor.Model.Sequence
namespace BioCantor.Props.C03
end BioCantor.Props.C03
