import BioCantor.Model.GenbankWrite
import BioCantor.Model.GenbankParse
namespace BioCantor.Props.C12
theorem placeholder : True := trivial
end BioCantor.Props.C12
