/-
  C12 — GenBank export is faithful to an independent reader and to BioCantor's parsers.

  Model  : Model/GenbankWrite.lean  (writer as data: gene_to_feature, transcripts_to_feature, add_cds_feature,
                                     feature_intervals_to_features, export_qualifiers, to_biopython)
           Model/GenbankParse.lean  (parser as list functions: position/type sort, grouping by type, grouping by locus
                                     tag, Hybrid collision routing, _convert_seqfeature_to_gene, to_gene_model with
                                     find_exon_interval / find_cds_interval / construct_frames)
  Spec   : Spec/Genbank.lean        (clauses (a) written records + independent reader, (b) gene models read back,
                                     (c) agreement of the three strategies; judged on the REAL code's answers by
                                     drivers/SpecC12.lean on every run)
  Proofs : Proofs/Gb*.lean

  Theorems (all about the model, for ANY number of genes / transcripts / blocks):

    T1  write_structure_ok            every gene, transcript, CDS, feature collection and feature interval of a
                                      single-strand collection has a record of the documented type with exactly the
                                      source blocks, the source strand and the source identifiers — for both writer
                                      rules (block order of minus-strand parts does not matter to this clause).
        cds_record_reading_frame      with `/codon_start` written (the code as it is since bc2bc66) an independent
                                      reader assumes exactly the source's start frame for every CDS record.
        cds_record_translation        a `/translation` written on request is C05's `Model.translate` of the source CDS
                                      with table 11 (prokaryotic) / 0 (eukaryotic); C05 (Props/C05.lean, T3b) proves that
                                      this is the standard-code translation of the CDS codons.
    T3  grouping_modes_agree_partial  on feature lists that are fixed points of the parser's own sort and consist of
        parse_modes_agree_partial     one chain per locus tag (gene, then mRNA/CDS records, or one non-coding
                                      transcript), Sorted, LocusTag and Hybrid produce the same groups, hence the same
                                      gene models.  PARTIAL: the chains' tags are assumed to increase along the file
                                      (locus tags numbered along the genome, as in INSDC files), which makes the
                                      locus-tag sort the identity; the general statement (tags in any order, groups
                                      equal up to order) is checked on the real parser by the `gbm` leg.
    T2  (round trip `parseModel (writeModel c) = expected c`) is NOT proved here.  Proved parts: T1 (what is written) and
        T3 (how it is regrouped).  The conversion of one group to a gene model (exon sort, CDS clipping through
        `intersection`, frames through `construct_frames_from_location`, identifiers from qualifiers) is tied to the real
        code by the `gbp`/`gbrt` correspondence and judged by `Spec.Gb.rtViolations` on every run, exhaustively for one
        gene with <= 2 exons on [0,7] x every CDS clip x strand x start frame x flavour x parser mode.
        FULL STATEMENT: for single-strand collections of genes with ONE transcript each, unique effective locus tags
        (locus-tag / hybrid) or a position-sorted written list (sorted), CDS blocks not separated by 0-bp gaps (F-C12c),
        `okRoundTrip fl c (ans (parseModel m (writeModel ⟨fl, true, false, rule⟩ c))) = true` with
        `rule.emitsCodonStart = true`.
-/
import BioCantor.Proofs.GbWriteFc
import BioCantor.Proofs.GbModes
import BioCantor.Proofs.GbRoundTrip
namespace BioCantor.Props.C12
open BioCantor BioCantor.Spec.Qual BioCantor.Spec.Gb BioCantor.Model.Gb BioCantor.Proofs.Gb

/-- the structural clauses of (a) for one item of the collection -/
def itemStructClauses (fl : Flavor) (rs : List Rec) : Item → List String
  | .gene g => geneStructClauses fl rs g
  | .fcoll f => fcClauses rs f

/-- **T1** every gene / transcript / CDS / feature collection / feature interval of a single-strand collection
    (`writeDomain`) is written as a record of the documented type with exactly the source blocks, strand and
    identifiers — whatever the flavour, `force_strand`, `update_translations` and writer rule. -/
theorem write_structure_ok (cfg : Cfg) (c : Coll) (rs : List Rec) (hw : writeModel cfg c = .ok rs)
    (hd : writeDomain c = true) : ∀ it ∈ c.items, itemStructClauses cfg.flavor rs it = [] := by
  intro it hit
  have hwf : itemWF it = true := by
    unfold writeDomain at hd
    exact List.all_eq_true.mp hd it hit
  cases it with
  | gene g => exact gene_struct_ok cfg c rs hw g hit hwf
  | fcoll f => exact fc_struct_ok cfg c rs hw f hit hwf

/-- **T1, reading frame**: a CDS record written with `/codon_start` (writer rule `emitsCodonStart`, the code as it is)
    tells an independent reader exactly the source's start frame. -/
theorem cds_record_reading_frame (cfg : Cfg) (seq : Option Str) (t : Tx) (q : QDict) (strand : Strand) (c : Rec)
    (hc : addCdsFeature cfg seq t q strand = .ok c) (hr : cfg.rule.emitsCodonStart = true) :
    readerFrame c = some (startFrameNat t) := by
  have hq : qualGet Spec.Gb.kCodonStart c.quals = [frameDigit ((startFrame t).getD .ZERO)] := by
    rcases addCds_shape cfg seq t q strand c hc with rfl | ⟨p, _, _, rfl⟩
    · simp only [cdsRecord, cdsBaseQuals, hr, if_true]
      exact qualGet_dictSet_same _ _ _
    · simp only [cdsRecord, cdsBaseQuals, hr, if_true]
      rw [qualGet_dictSet_other _ _ _ _ (by decide)]
      exact qualGet_dictSet_same _ _ _
  unfold readerFrame
  rw [hq]
  unfold startFrameNat
  cases startFrame t with
  | none => rfl
  | some f => cases f <;> rfl

/-- **T1, translation**: when a translation is requested and C05's `translate` of the source CDS succeeds, the value
    of `/translation` is exactly that protein. -/
theorem cds_record_translation (cfg : Cfg) (seq : Option Str) (t : Tx) (q : QDict) (strand : Strand) (c : Rec)
    (hc : addCdsFeature cfg seq t q strand = .ok c) (hu : cfg.updateTranslations = true) (p : Str)
    (hp : proteinOf cfg.flavor seq t = .ok p) : qualGet kTranslation c.quals = [p] := by
  unfold addCdsFeature at hc
  rw [if_pos hu, hp] at hc
  simp only [Except.ok.injEq] at hc
  subst hc
  exact qualGet_dictSet_same _ _ _

/-- **T3** (grouping; PARTIAL, see the header) on tagged chains that are a fixed point of the parser's position sort
    the three strategies form the same groups: one per chain, holding the chain's `gene` record, its transcript
    records (the first one only when there are several transcripts AND several CDSs) and its CDS records. -/
theorem grouping_modes_agree_partial (tch : List (Str × List Rec)) (h : ModesInput tch) (m : Mode) :
    extract m (recsOf tch) = .ok ⟨chainGroups tch, 0⟩ :=
  extract_modes_agree tch h m

/-- **T3** (gene models; PARTIAL): hence the parse does not depend on the strategy, for either parser rule. -/
theorem parse_modes_agree_partial (rule : ParserRule) (tch : List (Str × List Rec)) (h : ModesInput tch) (m m' : Mode) :
    parseModelWith rule m (recsOf tch) = parseModelWith rule m' (recsOf tch) :=
  parse_modes_agree rule tch h m m'

/-- **T2, proved part** (`_partial`): what the writer model produces for a collection of well-formed genes with ONE
    transcript each and an effective locus tag is a list of chains `gene, [mRNA,] CDS` / `gene, <non-coding key>`, one
    per gene, each carrying that gene's tag; when the tags increase along the file, every record passes
    `validate_seqfeature` and the list is a fixed point of the parser's position sort, Sorted, LocusTag and Hybrid all
    regroup it gene by gene (`chainGroups`: the gene record, its transcript record, its CDS record).
    MISSING for the full T2 (see the header): the conversion of one such group into the gene model
    (`convertGroup` / `toGeneModel`: exon sort, CDS clipping, frames, identifiers) equals `Spec.Gb.expectedGene`. -/
theorem written_collection_regrouped_partial (cfg : Cfg) (c : Coll) (rs : List Rec) (hw : writeModel cfg c = .ok rs)
    (hall : ∀ it ∈ c.items, GeneItemOK it)
    (hasc : ((childrenOf c).filterMap itemTag).Pairwise (fun a b => strLt a b = true))
    (hvalid : ∀ r ∈ rs, validFeature r = true) (hsorted : sortByPositionAndType rs = rs) (m : Mode) :
    ∃ tch : List (Str × List Rec), rs = recsOf tch ∧ tch.length = c.items.length ∧
      extract m rs = .ok ⟨chainGroups tch, 0⟩ :=
  written_collection_regrouped cfg c rs hw hall hasc hvalid hsorted m

/-! ### the hypotheses are satisfiable by non-trivial inputs -/

/-- a minus-strand coding gene with two exons, CDS clipped inside them, start frame 1 -/
def exTx : Tx :=
  { strand := .minus, exons := [(10, 20), (30, 42)], cds := [(12, 20), (30, 40)], frames := [.ONE, .ONE],
    txId := some "tx1".toList, txSymbol := some "TS".toList, txType := some "mRNA".toList,
    proteinId := some "p1".toList, product := none, quals := [("note".toList, ["x".toList, "x".toList])] }
def exGene : Gene :=
  { geneId := some "g1".toList, geneSymbol := none, geneType := some "protein_coding".toList, locusTag := none,
    quals := [], txs := [exTx] }
/-- a plus-strand tRNA gene further right -/
def exTx2 : Tx :=
  { strand := .plus, exons := [(50, 60)], cds := [], frames := [], txId := some "tx2".toList, txSymbol := none,
    txType := some "tRNA".toList, proteinId := none, product := none, quals := [] }
def exGene2 : Gene :=
  { geneId := none, geneSymbol := some "trnA".toList, geneType := some "tRNA".toList, locusTag := some "LT_2".toList,
    quals := [], txs := [exTx2] }
/-- the two genes alone (effective tags `g1` < `h_2`) -/
def exGene2' : Gene := { exGene2 with locusTag := some "h_2".toList }
def exColl2 : Coll := ⟨some "ACGTACGT".toList, [.gene exGene, .gene exGene2']⟩
def exCfg2 : Cfg := ⟨.eukaryotic, true, false, currentWriterRule⟩
def exRs2 : List Rec :=
  match mapMR (itemToFeatures exCfg2 exColl2.seq) exColl2.items with
  | .ok rss => rss.flatten
  | .error _ => []
def exFc : FColl :=
  { name := none, id := some "fc1".toList, type := none, locusTag := none, quals := [],
    feats := [{ strand := .plus, blocks := [(70, 72), (75, 80)], featName := some "F".toList, featId := none,
                types := ["promoter".toList], quals := [] }] }
def exColl : Coll := ⟨some "ACGTACGT".toList, [.gene exGene, .gene exGene2, .fcoll exFc]⟩
def exCfg : Cfg := ⟨.eukaryotic, true, false, currentWriterRule⟩

example : writeDomain exColl = true := by decide +kernel

def typesWritten (r : Model.R (List Rec)) : Option (List Str) :=
  match r with | .ok rs => some (rs.map (·.type)) | .error _ => none

/-- the model writes that collection (`hw` of T1 holds for it): gene, mRNA, CDS / gene, tRNA / misc_feature,
    feat_interval -/
example : typesWritten (writeModel exCfg exColl) =
    some ["gene".toList, "mRNA".toList, "CDS".toList, "gene".toList, "tRNA".toList, "misc_feature".toList,
          "feat_interval".toList] := by
  have hch : childrenOf exColl = exColl.items := by
    unfold childrenOf
    rw [List.mergeSort_of_pairwise (by decide +kernel)]
    rfl
  unfold writeModel
  rw [hch]
  decide +kernel

def codonStartWritten (r : Model.R Rec) : Option (List Str) :=
  match r with | .ok c => some (qualGet Spec.Gb.kCodonStart c.quals) | .error _ => none

/-- a CDS record is produced for `exTx`, with `/codon_start=2` under the current rule -/
example : codonStartWritten (addCdsFeature exCfg none exTx [] .minus) = some ["2".toList] ∧
    exCfg.rule.emitsCodonStart = true := by decide +kernel

/-- hypotheses of `written_collection_regrouped_partial` on a minus-strand two-exon coding gene + a tRNA gene -/
example : writeModel exCfg2 exColl2 = .ok exRs2 ∧ (∀ it ∈ exColl2.items, GeneItemOK it) ∧
    ((childrenOf exColl2).filterMap itemTag).Pairwise (fun a b => strLt a b = true) ∧
    (∀ r ∈ exRs2, validFeature r = true) ∧ sortByPositionAndType exRs2 = exRs2 ∧ exRs2.length = 5 := by
  have exColl2_children : childrenOf exColl2 = exColl2.items := by
    unfold childrenOf
    rw [List.mergeSort_of_pairwise (by decide +kernel)]
    rfl
  refine ⟨?_, ?_, ?_, ?_, ?_, ?_⟩
  · unfold writeModel
    rw [exColl2_children]
    have hok : (mapMR (itemToFeatures exCfg2 exColl2.seq) exColl2.items).toBool = true := by decide +kernel
    unfold exRs2
    cases h : mapMR (itemToFeatures exCfg2 exColl2.seq) exColl2.items with
    | error e => rw [h] at hok; exact absurd hok (by simp [Except.toBool])
    | ok rss => simp [exColl2]
  · intro it hit
    simp only [exColl2, List.mem_cons, List.not_mem_nil, or_false] at hit
    rcases hit with rfl | rfl
    · exact ⟨exGene, exTx, "g1".toList, rfl, by decide +kernel, rfl, by decide +kernel⟩
    · exact ⟨exGene2', exTx2, "h_2".toList, rfl, by decide +kernel, rfl, by decide +kernel⟩
  · rw [exColl2_children]; decide +kernel
  · decide +kernel
  · unfold sortByPositionAndType
    exact List.mergeSort_of_pairwise (by decide +kernel)
  · decide +kernel

/-- two tagged chains (gene, mRNA, CDS on the minus strand; gene, tRNA) in file order = tag order -/
def exRec (ty : String) (st : Strand) (parts : List Blk) (tag : String) : Rec :=
  { type := ty.toList, strand := st, parts := parts, quals := [("locus_tag".toList, [tag.toList])] }
def exChains : List (Str × List Rec) :=
  [("LT_1".toList, [exRec "gene" .minus [(10, 42)] "LT_1", exRec "mRNA" .minus [(10, 20), (30, 42)] "LT_1",
                    exRec "CDS" .minus [(12, 20), (30, 40)] "LT_1"]),
   ("LT_2".toList, [exRec "gene" .plus [(50, 60)] "LT_2", exRec "tRNA" .plus [(50, 60)] "LT_2"])]

example : ModesInput exChains where
  tagged :=
    { chains := by
        intro p hp
        simp only [exChains, List.mem_cons, List.not_mem_nil, or_false] at hp
        rcases hp with rfl | rfl
        · exact ⟨by simp, fun g hg => by simp only [List.head?_cons, Option.some.injEq] at hg; subst hg; decide +kernel,
            Or.inl (by
              intro r hr
              simp only [List.tail_cons, List.mem_cons, List.not_mem_nil, or_false] at hr
              rcases hr with rfl | rfl
              · exact Or.inl (by decide +kernel)
              · exact Or.inr (by decide +kernel))⟩
        · exact ⟨by simp, fun g hg => by simp only [List.head?_cons, Option.some.injEq] at hg; subst hg; decide +kernel,
            Or.inr ⟨_, rfl, by decide +kernel⟩⟩
      tags := by
        intro p hp r hr
        simp only [exChains, List.mem_cons, List.not_mem_nil, or_false] at hp
        rcases hp with rfl | rfl <;>
          (simp only [List.mem_cons, List.not_mem_nil, or_false] at hr
           rcases hr with rfl | rfl | rfl <;> rfl) 
      ascending := by decide +kernel }
  valid := by
    intro r hr
    have : ∀ x ∈ recsOf exChains, validFeature x = true := by decide +kernel
    exact this r hr
  sorted := by
    unfold sortByPositionAndType
    exact List.mergeSort_of_pairwise (by decide +kernel)

end BioCantor.Props.C12
