/-
  C12 — GenBank export is faithful to an independent reader and to BioCantor's parsers.

  Model  : Model/GenbankWrite.lean  (writer as data: gene_to_feature, transcripts_to_feature, add_cds_feature,
                                     feature_intervals_to_features, export_qualifiers, to_biopython)
           Model/GenbankParse.lean  (parser as list functions: position/type sort, grouping by type, grouping by locus
                                     tag, Hybrid collision routing, _convert_seqfeature_to_gene, to_gene_model with
                                     find_exon_interval / find_cds_interval / construct_frames)
  Spec   : Spec/Genbank.lean        (clauses (a) written records + independent reader, (b) gene models read back,
                                     (c) agreement of the three strategies; judged on the REAL code's answers by
                                     drivers/SpecC12.lean on every run)
  Proofs : Proofs/Gb*.lean

  Theorems (all about the model, for ANY number of genes / transcripts / blocks):

    T1  write_structure_ok            every gene, transcript, CDS, feature collection and feature interval of a
                                      single-strand collection has a record of the documented type with exactly the
                                      source blocks, the source strand and the source identifiers — for both writer
                                      rules (block order of minus-strand parts does not matter to this clause).
        cds_record_reading_frame      with `/codon_start` written (the code as it is since bc2bc66) an independent
                                      reader assumes exactly the source's start frame for every CDS record.
        cds_record_translation        a `/translation` written on request is C05's `Model.translate` of the source CDS
                                      with table 11 (prokaryotic) / 0 (eukaryotic); C05 (Props/C05.lean, T3b) proves that
                                      this is the standard-code translation of the CDS codons.
    T2  roundtrip_gene_models         `parseModelWith rule m (writeModel c)` satisfies every clause of (b)
        roundtrip_current_code        (`Spec.Gb.okRoundTrip`: count, gene id / symbol / locus tag, strand, exons — CDS blocks as
                                      exons in prokaryotic flavour —, CDS blocks, one reading frame from the source's start
                                      frame through `/codon_start`, transcript id, protein id, biotype, transcript symbol kept
                                      as `/transcript_name`) for single-strand collections of genes with ONE transcript each
                                      and pairwise different effective locus tags, in all three modes (Sorted on a fixed
                                      point of its own sort), for CDSs whose blocks are separated by real gaps (F-C12c is
                                      the recorded exception of the code as it is; no such condition with the block-wise
                                      clip).  Uses C05's T4 (`generated_frames_are_one_reading_frame`, via
                                      `Proofs.constructFrames_ok`) for the frames; the clip is computed directly on the
                                      C02 model `Model.intersection` (C02's `intersection_spec` speaks about covered
                                      positions, the round trip needs the block structure).
    T3  grouping_modes_agree          on feature lists made of one chain per locus tag (gene, then mRNA/CDS records, or one
        parse_modes_agree             non-coding transcript), pairwise different tags IN ANY ORDER, Sorted (on a fixed point
                                      of its own sort), LocusTag and Hybrid form the same groups up to order, hence parse
                                      the same gene models up to order: the tag sort (a stable merge sort) keeps every chain
                                      contiguous (`Proofs.Gb.sortPairs_general`).
        grouping_modes_equal_of_ascending_tags / parse_modes_equal_of_ascending_tags
                                      when the tags increase along the file the three results are EQUAL (same order).
    K   constants_match_generated     the GenBank feature keys / qualifier names hand-copied into the two Model files are
                                      the regenerated `Gen.genbank_*` tables (io/genbank/constants.py).
-/
import BioCantor.Proofs.GbWriteFc
import BioCantor.Proofs.GbModes
import BioCantor.Proofs.GbRoundTrip
import BioCantor.Proofs.GbRtColl
set_option autoImplicit false   -- an unresolved name in a statement must be an error, never a bound variable
namespace BioCantor.Props.C12
open BioCantor BioCantor.Spec.Qual BioCantor.Spec.Gb BioCantor.Model.Gb BioCantor.Proofs.Gb

/-- the structural clauses of (a) for one item of the collection -/
def itemStructClauses (fl : Flavor) (rs : List Rec) : Item → List String
  | .gene g => geneStructClauses fl rs g
  | .fcoll f => fcClauses rs f

/-- **T1** every gene / transcript / CDS / feature collection / feature interval of a single-strand collection
    (`writeDomain`) is written as a record of the documented type with exactly the source blocks, strand and
    identifiers — whatever the flavour, `force_strand`, `update_translations` and writer rule. -/
theorem write_structure_ok (cfg : Cfg) (c : Coll) (rs : List Rec) (hw : writeModel cfg c = .ok rs)
    (hd : writeDomain c = true) : ∀ it ∈ c.items, itemStructClauses cfg.flavor rs it = [] := by
  intro it hit
  have hwf : itemWF it = true := by
    unfold writeDomain at hd
    exact List.all_eq_true.mp hd it hit
  cases it with
  | gene g => exact gene_struct_ok cfg c rs hw g hit hwf
  | fcoll f => exact fc_struct_ok cfg c rs hw f hit hwf

/-- **T1, reading frame**: a CDS record written with `/codon_start` (writer rule `emitsCodonStart`, the code as it is)
    tells an independent reader exactly the source's start frame. -/
theorem cds_record_reading_frame (cfg : Cfg) (seq : Option Str) (t : Tx) (q : QDict) (strand : Strand) (c : Rec)
    (hc : addCdsFeature cfg seq t q strand = .ok c) (hr : cfg.rule.emitsCodonStart = true) :
    readerFrame c = some (startFrameNat t) := by
  have hq : qualGet Spec.Gb.kCodonStart c.quals = [frameDigit ((startFrame t).getD .ZERO)] := by
    rcases addCds_shape cfg seq t q strand c hc with rfl | ⟨p, _, _, rfl⟩
    · simp only [cdsRecord, cdsBaseQuals, hr, if_true]
      exact qualGet_dictSet_same _ _ _
    · simp only [cdsRecord, cdsBaseQuals, hr, if_true]
      rw [qualGet_dictSet_other _ _ _ _ (by decide)]
      exact qualGet_dictSet_same _ _ _
  unfold readerFrame
  rw [hq]
  unfold startFrameNat
  cases startFrame t with
  | none => rfl
  | some f => cases f <;> rfl

/-- **T1, translation**: when a translation is requested and C05's `translate` of the source CDS succeeds, the value
    of `/translation` is exactly that protein. -/
theorem cds_record_translation (cfg : Cfg) (seq : Option Str) (t : Tx) (q : QDict) (strand : Strand) (c : Rec)
    (hc : addCdsFeature cfg seq t q strand = .ok c) (hu : cfg.updateTranslations = true) (p : Str)
    (hp : proteinOf cfg.flavor seq t = .ok p) : qualGet kTranslation c.quals = [p] := by
  unfold addCdsFeature at hc
  rw [if_pos hu, hp] at hc
  simp only [Except.ok.injEq] at hc
  subst hc
  exact qualGet_dictSet_same _ _ _

/-- **T3** (grouping, any tag order): on tagged chains with pairwise different tags every strategy forms exactly one
    group per chain — Sorted (on a fixed point of its own position sort) in file order, LocusTag and Hybrid in tag
    order — each holding the chain's `gene` record, its transcript records (the first one only when there are several
    transcripts AND several CDSs) and its CDS records. -/
theorem grouping_modes_agree (tch : List (Str × List Rec)) (h : ModesInputAny tch) (m : Mode)
    (hsorted : m = .sorted → sortByPositionAndType (recsOf tch) = recsOf tch) :
    ∃ gs, extract m (recsOf tch) = .ok ⟨gs, 0⟩ ∧ gs.Perm (chainGroups tch) :=
  extract_modes_any tch h m hsorted

/-- **T3** (gene models, any tag order): what one strategy parses, every other strategy parses too, and the two lists
    of gene models are permutations of each other — for either parser rule. -/
theorem parse_modes_agree (rule : ParserRule) (tch : List (Str × List Rec)) (h : ModesInputAny tch) (m m' : Mode)
    (hs : m = .sorted → sortByPositionAndType (recsOf tch) = recsOf tch)
    (hs' : m' = .sorted → sortByPositionAndType (recsOf tch) = recsOf tch)
    (a : List PGene) (ha : parseModelWith rule m (recsOf tch) = .ok a) :
    ∃ b, parseModelWith rule m' (recsOf tch) = .ok b ∧ a.Perm b :=
  parse_modes_any rule tch h m m' hs hs' a ha

/-- **T3** when the tags increase along the file: the three strategies form the SAME list of groups. -/
theorem grouping_modes_equal_of_ascending_tags (tch : List (Str × List Rec)) (h : ModesInput tch) (m : Mode) :
    extract m (recsOf tch) = .ok ⟨chainGroups tch, 0⟩ :=
  extract_modes_agree tch h m

/-- **T3** when the tags increase along the file: the parse does not depend on the strategy at all. -/
theorem parse_modes_equal_of_ascending_tags (rule : ParserRule) (tch : List (Str × List Rec)) (h : ModesInput tch)
    (m m' : Mode) : parseModelWith rule m (recsOf tch) = parseModelWith rule m' (recsOf tch) :=
  BioCantor.Proofs.Gb.parse_modes_agree rule tch h m m'

/-- **T2**: `parse (write c)` gives the gene models the documentation promises — for a non-empty collection of
    single-strand genes with ONE transcript each (`RtItem`: well formed, effective locus tag, source qualifiers not using
    the format's reserved keys, coding transcripts not typed as an RNA key, CDS inside the exon span with blocks
    separated by real gaps — or any blocks with the block-wise clip —, start frame inside the 5'-most CDS block),
    pairwise different effective locus tags, `/codon_start` written; in all three modes (Sorted: on a fixed point of
    its own sort); any flavour, `force_strand`, `update_translations`, part order of minus-strand records. -/
theorem roundtrip_gene_models (cfg : Cfg) (c : Coll) (rs : List Rec) (prule : ParserRule) (m : Mode)
    (hw : writeModel cfg c = .ok rs) (hem : cfg.rule.emitsCodonStart = true) (hne : c.items ≠ [])
    (hall : ∀ it ∈ c.items, RtItem prule it)
    (hdist : distinctStrs ((genesOf c).filterMap geneTagWritten) = true)
    (hsorted : m = .sorted → sortByPositionAndType rs = rs) :
    ∃ os, parseModelWith prule m rs = .ok os ∧ okRoundTrip cfg.flavor c (some os) = true := by
  obtain ⟨os, h1, h2⟩ := collection_roundtrip cfg c rs prule m hw hem hne hall hdist hsorted
  exact ⟨os, h1, by unfold okRoundTrip; rw [h2]; rfl⟩

/-- **T2 for the code as it is** (`parseModel` = `find_cds_interval` through `intersection`, writer with
    `/codon_start`): the statement above for CDSs without 0-bp gaps. -/
theorem roundtrip_current_code (fl : Flavor) (force trans : Bool) (c : Coll) (rs : List Rec) (m : Mode)
    (hw : writeModel ⟨fl, force, trans, currentWriterRule⟩ c = .ok rs) (hne : c.items ≠ [])
    (hall : ∀ it ∈ c.items, RtItem currentParserRule it)
    (hdist : distinctStrs ((genesOf c).filterMap geneTagWritten) = true)
    (hsorted : m = .sorted → sortByPositionAndType rs = rs) :
    ∃ os, parseModel m rs = .ok os ∧ okRoundTrip fl c (some os) = true :=
  roundtrip_gene_models ⟨fl, force, trans, currentWriterRule⟩ c rs currentParserRule m hw rfl hne hall hdist hsorted

/-- **K** the constants of io/genbank/constants.py that the two Model files hard-code are the regenerated tables
    (`Gen.genbank_*`, emitted from the source on every run): a changed constant in /repo breaks this proof. -/
theorem constants_match_generated :
    transcriptFeatureValues = Gen.genbank_TranscriptFeatures.map (·.2) ∧
    transcriptTypes = Gen.genbank_TranscriptFeatures.map (·.2) ∧
    nonCodingTypes = Gen.genbank_NonCodingTranscriptFeatures.map (·.2) ∧
    rnaFeatureTypes = Gen.genbank_NonCodingTranscriptFeatures.map (·.2) ∧
    genbankGeneFeatures.isPerm Gen.genbank_GENBANK_GENE_FEATURES = true ∧
    Gen.genbank_GeneFeatures = [("GENE".toList, tyGene)] ∧
    Gen.genbank_MetadataFeatures = [("SOURCE".toList, tySource)] ∧
    Gen.genbank_FeatureCollectionFeatures = [("FEATURE_COLLECTION".toList, sMiscFeature)] ∧
    Gen.genbank_FeatureIntervalFeatures = [("FEATURE_INTERVAL".toList, sFeatInterval)] ∧
    Gen.genbank_GeneIntervalFeatures.lookup "CDS".toList = some tyCDS ∧
    Gen.genbank_TranscriptFeatures.lookup "CODING_TRANSCRIPT".toList = some tyMRNA ∧
    Gen.genbank_TranscriptFeatures.lookup "NONCODING_TRANSCRIPT".toList = some tyNcRNA ∧
    Gen.genbank_TranscriptFeatures.lookup "MISC_RNA".toList = some sMiscRNA ∧
    Gen.genbank_KnownQualifiers.lookup "LOCUS_TAG".toList = some Model.Gb.kLocusTag ∧
    Gen.genbank_KnownQualifiers.lookup "CODON_START".toList = some Model.Gb.kCodonStart ∧
    Gen.genbank_KnownQualifiers.lookup "GENE".toList = some kGene ∧
    Gen.genbank_KnownQualifiers.lookup "GENE_ID".toList = some kGeneId ∧
    Gen.genbank_KnownQualifiers.lookup "TRANSCRIPT_ID".toList = some kTranscriptId ∧
    Gen.genbank_KnownQualifiers.lookup "PROTEIN_ID".toList = some kProteinId ∧
    Gen.genbank_KnownQualifiers.lookup "PRODUCT".toList = some "product".toList ∧
    Gen.genbank_GenbankFlavor.map (·.1) = ["PROKARYOTIC".toList, "EUKARYOTIC".toList] ∧
    Gen.genbank_GenBankParserType.map (·.1) = ["SORTED".toList, "LOCUS_TAG".toList, "HYBRID".toList] := by
  decide +kernel

/-! ### the hypotheses are satisfiable by non-trivial inputs -/

/-- a minus-strand coding gene with two exons, CDS clipped inside them, start frame 1 -/
def exTx : Tx :=
  { strand := .minus, exons := [(10, 20), (30, 42)], cds := [(12, 20), (30, 40)], frames := [.ONE, .ONE],
    txId := some "tx1".toList, txSymbol := some "TS".toList, txType := some "mRNA".toList,
    proteinId := some "p1".toList, product := none, quals := [("note".toList, ["x".toList, "x".toList])] }
def exGene : Gene :=
  { geneId := some "g1".toList, geneSymbol := none, geneType := some "protein_coding".toList, locusTag := none,
    quals := [], txs := [exTx] }
/-- a plus-strand tRNA gene further right -/
def exTx2 : Tx :=
  { strand := .plus, exons := [(50, 60)], cds := [], frames := [], txId := some "tx2".toList, txSymbol := none,
    txType := some "tRNA".toList, proteinId := none, product := none, quals := [] }
def exGene2 : Gene :=
  { geneId := none, geneSymbol := some "trnA".toList, geneType := some "tRNA".toList, locusTag := some "LT_2".toList,
    quals := [], txs := [exTx2] }
/-- the two genes alone (effective tags `g1` < `h_2`) -/
def exGene2' : Gene := { exGene2 with locusTag := some "h_2".toList }
def exColl2 : Coll := ⟨some "ACGTACGT".toList, [.gene exGene, .gene exGene2']⟩
def exCfg2 : Cfg := ⟨.eukaryotic, true, false, currentWriterRule⟩
def exRs2 : List Rec :=
  match mapMR (itemToFeatures exCfg2 exColl2.seq) exColl2.items with
  | .ok rss => rss.flatten
  | .error _ => []
def exFc : FColl :=
  { name := none, id := some "fc1".toList, type := none, locusTag := none, quals := [],
    feats := [{ strand := .plus, blocks := [(70, 72), (75, 80)], featName := some "F".toList, featId := none,
                types := ["promoter".toList], quals := [] }] }
def exColl : Coll := ⟨some "ACGTACGT".toList, [.gene exGene, .gene exGene2, .fcoll exFc]⟩
def exCfg : Cfg := ⟨.eukaryotic, true, false, currentWriterRule⟩

example : writeDomain exColl = true := by decide +kernel

def typesWritten (r : Model.R (List Rec)) : Option (List Str) :=
  match r with | .ok rs => some (rs.map (·.type)) | .error _ => none

/-- the model writes that collection (`hw` of T1 holds for it): gene, mRNA, CDS / gene, tRNA / misc_feature,
    feat_interval -/
example : typesWritten (writeModel exCfg exColl) =
    some ["gene".toList, "mRNA".toList, "CDS".toList, "gene".toList, "tRNA".toList, "misc_feature".toList,
          "feat_interval".toList] := by
  have hch : childrenOf exColl = exColl.items := by
    unfold childrenOf
    rw [List.mergeSort_of_pairwise (by decide +kernel)]
    rfl
  unfold writeModel
  rw [hch]
  decide +kernel

def codonStartWritten (r : Model.R Rec) : Option (List Str) :=
  match r with | .ok c => some (qualGet Spec.Gb.kCodonStart c.quals) | .error _ => none

/-- a CDS record is produced for `exTx`, with `/codon_start=2` under the current rule -/
example : codonStartWritten (addCdsFeature exCfg none exTx [] .minus) = some ["2".toList] ∧
    exCfg.rule.emitsCodonStart = true := by decide +kernel

/-- hypotheses of `written_collection_regrouped_partial` on a minus-strand two-exon coding gene + a tRNA gene -/
example : writeModel exCfg2 exColl2 = .ok exRs2 ∧ (∀ it ∈ exColl2.items, GeneItemOK it) ∧
    ((childrenOf exColl2).filterMap itemTag).Pairwise (fun a b => strLt a b = true) ∧
    (∀ r ∈ exRs2, validFeature r = true) ∧ sortByPositionAndType exRs2 = exRs2 ∧ exRs2.length = 5 := by
  have exColl2_children : childrenOf exColl2 = exColl2.items := by
    unfold childrenOf
    rw [List.mergeSort_of_pairwise (by decide +kernel)]
    rfl
  refine ⟨?_, ?_, ?_, ?_, ?_, ?_⟩
  · unfold writeModel
    rw [exColl2_children]
    have hok : (mapMR (itemToFeatures exCfg2 exColl2.seq) exColl2.items).toBool = true := by decide +kernel
    unfold exRs2
    cases h : mapMR (itemToFeatures exCfg2 exColl2.seq) exColl2.items with
    | error e => rw [h] at hok; exact absurd hok (by simp [Except.toBool])
    | ok rss => simp [exColl2]
  · intro it hit
    simp only [exColl2, List.mem_cons, List.not_mem_nil, or_false] at hit
    rcases hit with rfl | rfl
    · exact ⟨exGene, exTx, "g1".toList, rfl, by decide +kernel, rfl, by decide +kernel⟩
    · exact ⟨exGene2', exTx2, "h_2".toList, rfl, by decide +kernel, rfl, by decide +kernel⟩
  · rw [exColl2_children]; decide +kernel
  · decide +kernel
  · unfold sortByPositionAndType
    exact List.mergeSort_of_pairwise (by decide +kernel)
  · decide +kernel

/-- the two genes of `exColl2` are round-trip genes for the code as it is, with different effective tags -/
example : (∀ it ∈ exColl2.items, RtItem currentParserRule it) ∧ exColl2.items ≠ [] ∧
    distinctStrs ((genesOf exColl2).filterMap geneTagWritten) = true := by
  refine ⟨?_, by simp [exColl2], by decide +kernel⟩
  intro it hit
  simp only [exColl2, List.mem_cons, List.not_mem_nil, or_false] at hit
  rcases hit with rfl | rfl
  · refine ⟨exGene, exTx, "g1".toList, rfl, ⟨by decide +kernel, rfl, by decide +kernel,
      by unfold NoReserved; decide +kernel, by unfold NoReserved; decide +kernel, by decide +kernel, ?_,
      Or.inl (by decide +kernel), by decide +kernel⟩⟩
    intro e0 el h0 hl b hb
    simp only [exTx, List.head?_cons, Option.some.injEq] at h0
    have hl' : el = (30, 42) := by
      have : exTx.exons.getLast? = some (30, 42) := by decide +kernel
      rw [this] at hl; exact (Option.some.inj hl).symm
    subst h0; subst hl'
    simp only [exTx, List.mem_cons, List.not_mem_nil, or_false] at hb
    rcases hb with rfl | rfl <;> exact ⟨by decide, by decide⟩
  · refine ⟨exGene2', exTx2, "h_2".toList, rfl, ⟨by decide +kernel, rfl, by decide +kernel,
      by unfold NoReserved; decide +kernel, by unfold NoReserved; decide +kernel, by decide +kernel, ?_,
      Or.inl (by decide +kernel), by decide +kernel⟩⟩
    intro e0 el _ _ b hb
    simp [exTx2] at hb

/-- two tagged chains (gene, mRNA, CDS on the minus strand; gene, tRNA) in file order = tag order -/
def exRec (ty : String) (st : Strand) (parts : List Blk) (tag : String) : Rec :=
  { type := ty.toList, strand := st, parts := parts, quals := [("locus_tag".toList, [tag.toList])] }
def exChains : List (Str × List Rec) :=
  [("LT_1".toList, [exRec "gene" .minus [(10, 42)] "LT_1", exRec "mRNA" .minus [(10, 20), (30, 42)] "LT_1",
                    exRec "CDS" .minus [(12, 20), (30, 40)] "LT_1"]),
   ("LT_2".toList, [exRec "gene" .plus [(50, 60)] "LT_2", exRec "tRNA" .plus [(50, 60)] "LT_2"])]

example : ModesInput exChains where
  tagged :=
    { chains := by
        intro p hp
        simp only [exChains, List.mem_cons, List.not_mem_nil, or_false] at hp
        rcases hp with rfl | rfl
        · exact ⟨by simp, fun g hg => by simp only [List.head?_cons, Option.some.injEq] at hg; subst hg; decide +kernel,
            Or.inl (by
              intro r hr
              simp only [List.tail_cons, List.mem_cons, List.not_mem_nil, or_false] at hr
              rcases hr with rfl | rfl
              · exact Or.inl (by decide +kernel)
              · exact Or.inr (by decide +kernel))⟩
        · exact ⟨by simp, fun g hg => by simp only [List.head?_cons, Option.some.injEq] at hg; subst hg; decide +kernel,
            Or.inr ⟨_, rfl, by decide +kernel⟩⟩
      tags := by
        intro p hp r hr
        simp only [exChains, List.mem_cons, List.not_mem_nil, or_false] at hp
        rcases hp with rfl | rfl <;>
          (simp only [List.mem_cons, List.not_mem_nil, or_false] at hr
           rcases hr with rfl | rfl | rfl <;> rfl) 
      ascending := by decide +kernel }
  valid := by
    intro r hr
    have : ∀ x ∈ recsOf exChains, validFeature x = true := by decide +kernel
    exact this r hr
  sorted := by
    unfold sortByPositionAndType
    exact List.mergeSort_of_pairwise (by decide +kernel)

/-- the same chains with the tags in DEcreasing file order satisfy the hypotheses of the order-free T3 -/
def exChainsRev : List (Str × List Rec) :=
  [("LT_9".toList, [exRec "gene" .minus [(10, 42)] "LT_9", exRec "mRNA" .minus [(10, 20), (30, 42)] "LT_9",
                    exRec "CDS" .minus [(12, 20), (30, 40)] "LT_9"]),
   ("LT_2".toList, [exRec "gene" .plus [(50, 60)] "LT_2", exRec "tRNA" .plus [(50, 60)] "LT_2"])]

example : ModesInputAny exChainsRev ∧ sortByPositionAndType (recsOf exChainsRev) = recsOf exChainsRev where
  left :=
    { tagged :=
        { chains := by
            intro p hp
            simp only [exChainsRev, List.mem_cons, List.not_mem_nil, or_false] at hp
            rcases hp with rfl | rfl
            · exact ⟨by simp, fun g hg => by simp only [List.head?_cons, Option.some.injEq] at hg; subst hg; decide +kernel,
                Or.inl (by
                  intro r hr
                  simp only [List.tail_cons, List.mem_cons, List.not_mem_nil, or_false] at hr
                  rcases hr with rfl | rfl
                  · exact Or.inl (by decide +kernel)
                  · exact Or.inr (by decide +kernel))⟩
            · exact ⟨by simp, fun g hg => by simp only [List.head?_cons, Option.some.injEq] at hg; subst hg; decide +kernel,
                Or.inr ⟨_, rfl, by decide +kernel⟩⟩
          tags := by
            intro p hp r hr
            simp only [exChainsRev, List.mem_cons, List.not_mem_nil, or_false] at hp
            rcases hp with rfl | rfl <;>
              (simp only [List.mem_cons, List.not_mem_nil, or_false] at hr
               rcases hr with rfl | rfl | rfl <;> rfl)
          distinct := by decide +kernel }
      valid := by
        intro r hr
        have : ∀ x ∈ recsOf exChainsRev, validFeature x = true := by decide +kernel
        exact this r hr }
  right := by
    unfold sortByPositionAndType
    exact List.mergeSort_of_pairwise (by decide +kernel)

end BioCantor.Props.C12
