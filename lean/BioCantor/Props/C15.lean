/-
  C15 — built-in biological tables and enumerated algebras are correct (finite domains, decided completely).

  Every theorem is about definitions of `Gen/Tables.lean` / `Gen/Kernels.lean`, which tools/translate.py
  REGENERATES from /repo on every run (or about `Model/Tables.lean`, a thin look-up layer over them), against
  the independently written reference tables of `Spec/Tables.lean`.  A changed table entry, enum value or
  comparison in the library makes this file fail to compile.  Helper lemmas: `Proofs/Tab*.lean`.

  Statements "for every key" really quantify over all `List Char` / `Char` / `Int` values, listed in a table or
  not (`lookup t k = some v → (k, v) ∈ t` lifts the `decide`d check over a table's entries).
-/
import BioCantor.Proofs.TabCodon
import BioCantor.Proofs.TabAlgebra
import BioCantor.Proofs.TabHist
set_option autoImplicit false   -- an unresolved name in a statement must be an error, never a bound variable
namespace BioCantor.Props.C15
open BioCantor BioCantor.GenP BioCantor.Spec.Tab BioCantor.Model.Tab BioCantor.Proofs.Tab

/-! ### 1. genetic code -/

/-- T1: `gencode` IS NCBI table 1 — same answer for EVERY text (64 hits, nothing else) -/
theorem gencode_is_standard_code (c : List Char) : Gen.gencode.lookup c = stdTranslate c :=
  gencode_lookup c

/-- T1b: 64 entries, no duplicate key -/
theorem gencode_has_64_distinct_codons :
    Gen.gencode.length = 64 ∧ nodupB (Gen.gencode.map (·.1)) = true :=
  ⟨gencode_length, gencode_keys_nodup⟩

/-- T2: every ambiguous triplet the library agrees to translate is not a strict codon and ALL its IUPAC
    expansions code the listed residue -/
theorem extended_codons_are_sound (c : List Char) (a : Char) (h : Gen.extendedGencode.lookup c = some a) :
    stdTranslate c = none ∧ allExpansionsCode c a = true :=
  extended_sound c a h
example : Gen.extendedGencode.lookup "CTN".toList = some 'L' := by decide +kernel

/-- T3: `Codon.translate` (both modes) on every valid codon text satisfies the specification:
    standard code on the 64, otherwise `X` or (non-strict only) a residue coded by every expansion -/
theorem translate_spec (val : List Char) (strict : Bool) (hv : (expansions val).isSome = true) :
    okTranslate val strict (some (translate val strict)) = true :=
  translate_ok val strict hv
example : (expansions "GGN".toList).isSome = true ∧ translate "GGN".toList false = 'G' ∧
    translate "GGN".toList true = 'X' := by decide +kernel

/-- T3b: construction + translation on ANY text: non-codons are refused, codons translated per T3 -/
theorem translate_raw_spec (s : List Char) (strict : Bool) :
    okTranslate (upper s) strict (ansP ((mkCodon s).map (fun v => translate v strict))) = true :=
  translate_raw_ok s strict

/-- T3c: whatever non-`X` residue is returned, every expansion of the codon codes it -/
theorem translate_never_guesses (val : List Char) (strict : Bool) (hx : translate val strict ≠ 'X') :
    allExpansionsCode val (translate val strict) = true :=
  translate_sound val strict hx
example : translate "ATG".toList true ≠ 'X' := by decide +kernel

/-- T4: each row of `aacodons` holds exactly the strict codons of its residue, each once -/
theorem aacodons_rows_exact (aa : Char) (cs : List (List Char)) (h : Gen.aacodons.lookup aa = some cs) :
    okAaCodons aa (some cs) = true ∧ ∀ c, c ∈ cs ↔ stdTranslate c = some aa :=
  ⟨aacodons_row aa cs h, aacodons_row_mem aa cs h⟩
example : (Gen.aacodons.lookup 'L').isSome = true := by decide +kernel

/-- T4b: the rows partition the 64 codons: every strict codon is in the row of its residue (and by T4 in no
    other), residues are listed once, row sizes add up to 64 -/
theorem aacodons_partition :
    (∀ c a, stdTranslate c = some a → ∃ cs, Gen.aacodons.lookup a = some cs ∧ c ∈ cs) ∧
    (∀ a b cs ds c, Gen.aacodons.lookup a = some cs → Gen.aacodons.lookup b = some ds → c ∈ cs → c ∈ ds → a = b) ∧
    nodupC (Gen.aacodons.map (·.1)) = true ∧
    (Gen.aacodons.map (·.2.length)).foldl (· + ·) 0 = 64 := by
  refine ⟨aacodons_covers, ?_, aacodons_keys_nodup, aacodons_total_count⟩
  intro a b cs ds c ha hb hc hd
  have h1 := (aacodons_row_mem a cs ha c).1 hc
  have h2 := (aacodons_row_mem b ds hb c).1 hd
  rw [h1] at h2; exact Option.some.inj h2

/-- T5: `synonymous_codons` on every valid codon text -/
theorem synonymous_codons_spec (val : List Char) (incl : Bool) (hv : (expansions val).isSome = true) :
    okSynonymous val incl (ansP (synonymousCodons val incl)) = true :=
  synonymous_ok val incl hv
example : (expansions "TCN".toList).isSome = true ∧
    (ansP (synonymousCodons "TCN".toList false)).map List.length = some 6 := by decide +kernel

/-- T6: stop codons = {TAA, TAG, TGA} = the codons coding `*` -/
theorem stop_codons_spec (val : List Char) (hv : (expansions val).isSome = true) :
    okIsStop val (ansP (isStopCodon val)) = true ∧
    (stopCodons.contains val = true ↔ stdTranslate val = some '*') :=
  ⟨isStop_ok val hv, stop_iff_star val⟩
example : (expansions "TGA".toList).isSome = true := by decide +kernel

/-- T7: start-codon sets = NCBI table 1, table 11, ATG-only default; unknown table numbers have no entry -/
theorem start_codons_spec (val : List Char) (t : Int) (hv : (expansions val).isSome = true) :
    okIsStart val t (ansP (isStartCodon val t)) = true :=
  isStart_ok val t hv
theorem translation_tables_spec : Gen.translationTables = Spec.Tab.translationTables ∧
    Gen.startCodons.map (·.1) = [0, 1, 11] := ⟨by decide +kernel, startKeys_nodup⟩
example : ansP (isStartCodon "GTG".toList 11) = some true ∧ ansP (isStartCodon "GTG".toList 1) = some false := by
  decide +kernel

theorem strict_codon_spec (val : List Char) (hv : (expansions val).isSome = true) :
    okIsStrict val (some (isStrictCodon val)) = true := isStrict_ok val hv

/-- `Codon.__init__` accepts exactly the IUPAC letters -/
theorem codon_alphabet_is_iupac (c : Char) : Gen.codonAlphabet.contains c = iupacLetters.contains c :=
  codonAlphabet_contains c

/-! ### 1b. histories: a held codon object is a function of its value -/

/-- T7b: `Codon(s)` — acceptance and value — depends only on the upper-cased text (one singleton per value) -/
theorem codon_depends_only_on_upper_text (s s' : List Char) (h : upper s = upper s') : mkCodon s = mkCodon s' :=
  mkCodon_congr s s' h
example : upper "aTg".toList = upper "ATG".toList := by decide

/-- T7c: every answer a codon object gives (str, translate strict / non-strict, stop, strict, canonical start,
    start membership in tables 0 / 1 / 11, synonymous codons with and without self) is the table answer of its
    value — the answer record is a function of the value alone -/
theorem codon_answers_are_table_answers (v : List Char) (hv : (expansions v).isSome = true) :
    okCodonAnswers v (toSpecAnswers (answers v)) = true :=
  answers_ok v hv
example : (expansions "TGA".toList).isSome = true ∧ (answers "TGA".toList).stop = some true := by decide +kernel

/-- T7d (history): hold `Codon(held)`, construct ANY list of other spellings (accepted or refused), ask again:
    answers before = answers after = table answers of `upper(held)`; a spelling is accepted iff it is an IUPAC
    triplet and returns the held object iff it upper-cases to the held value; identity, `==` and hash hold.
    (The model has no state because the library files and stores a codon under the same upper-cased text; the
    history leg of the harness checks exactly that on the real objects.) -/
theorem codon_history_spec (held : List Char) (sps : List (List Char)) :
    okHist held sps ((ansP (hist held sps)).map toSpecHist) = true :=
  hist_ok held sps

/-! ### 2. complement maps and alphabets -/

/-- T8: for EVERY alphabet name and EVERY character: the library's complement entry is the IUPAC complement
    when the name is a nucleotide alphabet and the character one of its letters (either case), and there is
    no entry otherwise -/
theorem complement_is_iupac (name : List Char) (c : Char) : complementChar name c = expectComplement name c :=
  complement_spec name c

/-- T8b: for EVERY alphabet name and EVERY text (any length): `Sequence(text, alphabet).reverse_complement()` is the
    IUPAC complement of every letter, last letter first; refused exactly when some letter has no complement. -/
theorem reverse_complement_spec (name s : List Char) : okRevComp name s (reverseComplement name s) = true :=
  revcomp_ok name s
example : reverseComplement "NT_EXTENDED".toList "AUg".toList = some "cAT".toList := by decide +kernel

/-- T9: complementing is an involution on every letter except `U`/`u` … -/
theorem complement_involution (name : List Char) (c d : Char) (hU : c ≠ 'U') (hu : c ≠ 'u')
    (h : complementChar name c = some d) : complementChar name d = some c :=
  complement_involutive name c d hU hu h
example : complementChar "NT_EXTENDED_GAPPED".toList 'k' = some 'm' := by decide +kernel

theorem complement_twice_spec (name : List Char) (c : Char) (hU : c ≠ 'U') (hu : c ≠ 'u') :
    okComplementTwice name c (complementTwice name c) = true :=
  complementTwice_ok name c hU hu

/-- … and is closed (the complement of a letter can be complemented again) -/
theorem complement_closed_spec (name : List Char) (c d : Char) (h : complementChar name c = some d) :
    (complementChar name d).isSome = true := complement_closed name c d h

/-- F-C15a (finding, inherent to complementing RNA letters into a DNA alphabet; Biopython does the same):
    `U → A → T`, so the property's "involution for every letter" fails exactly on `U`/`u`. -/
theorem complement_not_involutive_on_U :
    complementTwice "NT_EXTENDED".toList 'U' = some 'T' ∧ complementTwice "NT_EXTENDED".toList 'u' = some 't' ∧
    complementTwice "NT_EXTENDED_GAPPED".toList 'U' = some 'T' ∧
    okComplementTwice "NT_EXTENDED".toList 'U' (complementTwice "NT_EXTENDED".toList 'U') = false := by
  decide +kernel

/-- T10: alphabets: nucleotide alphabets have the IUPAC letter sets and are flagged as such; the others are
    not; a complement map exists exactly for the flagged ones; the set of names is the expected one -/
theorem alphabets_spec (name letters : List Char) (f : Bool) (h : alphabetInfo name = .ok (letters, f)) :
    okAlphabet name letters f = true := alphabet_ok name letters f h
example : alphabetInfo "NT_STRICT".toList = .ok ("ACGT".toList, true) := rfl

theorem alphabets_complete :
    sameKeys (Gen.alphabets.map (·.1)) (ntAlphabets.map (·.1) ++ otherAlphabets) = true ∧
    (Gen.nucleotideAlphabetFlags.all fun p => (Gen.complementMaps.lookup p.1).isSome == p.2) = true :=
  ⟨alphabet_names, complement_iff_nucleotide⟩

/-! ### 3. frame / phase (generated kernels) -/

/-- T11: `CDSFrame.shift(n)` = `(frame + n) mod 3` for EVERY integer n, `NONE` fixed; never raises -/
theorem shift_is_mod3 (f : CDSFrame) (n : Int) : Gen.CDSFrame_shift f n = .ok (shift f n) := shift_spec f n

/-- T11b: hence the group laws: shifts compose additively, 0 is neutral, multiples of 3 do nothing,
    and every shift is undone by the opposite one -/
theorem shift_group_laws (f : CDSFrame) (a b k : Int) :
    (Gen.CDSFrame_shift f a >>= fun g => Gen.CDSFrame_shift g b) = Gen.CDSFrame_shift f (a + b) ∧
    Gen.CDSFrame_shift f 0 = .ok f ∧
    Gen.CDSFrame_shift f (a + 3 * k) = Gen.CDSFrame_shift f a ∧
    (Gen.CDSFrame_shift f a >>= fun g => Gen.CDSFrame_shift g (-a)) = .ok f := by
  refine ⟨?_, ?_, ?_, ?_⟩
  · simp only [shift_spec, bind, Except.bind, shift_add]
  · rw [shift_spec, shift_zero]
  · rw [shift_spec, shift_spec, shift_period]
  · simp only [shift_spec, bind, Except.bind, shift_add]
    rw [show a + -a = 0 by omega, shift_zero]

/-- T12: phase ↔ frame conversions are the GFF3 relation `phase = (3 − frame) mod 3` and are mutually inverse -/
theorem frame_phase_round_trip (f : CDSFrame) (p : CDSPhase) :
    Gen.CDSFrame_to_phase f = .ok (phaseOfFrame f) ∧ Gen.CDSPhase_to_frame p = .ok (frameOfPhase p) ∧
    (Gen.CDSFrame_to_phase f >>= Gen.CDSPhase_to_frame) = .ok f ∧
    (Gen.CDSPhase_to_frame p >>= Gen.CDSFrame_to_phase) = .ok p := by
  refine ⟨to_phase_spec f, to_frame_spec p, ?_, ?_⟩
  · cases f <;> rfl
  · cases p <;> rfl

theorem phase_is_three_minus_frame (f : CDSFrame) (h : f ≠ .NONE) :
    (phaseOfFrame f).value = (3 - f.value) % 3 := by
  cases f <;> first | exact absurd rfl h | decide
example : CDSFrame.ONE ≠ .NONE := by decide

/-- ints ↔ members: `CDSFrame(value)` / `CDSPhase(value)` round trip and refuse other ints -/
theorem frame_int_round_trip (f : CDSFrame) (p : CDSPhase) (v : Int) :
    frameOfInt f.value = .ok f ∧ phaseOfInt p.value = .ok p ∧
    ansP (frameOfInt v) = frameOfInt? v ∧ ansP (phaseOfInt v) = phaseOfInt? v := by
  refine ⟨by cases f <;> rfl, by cases p <;> rfl, ?_, ?_⟩
  · unfold frameOfInt frameOfInt?; repeat' split
    all_goals rfl
  · unfold phaseOfInt phaseOfInt?; repeat' split
    all_goals rfl

/-! ### 4. strand (generated kernels) -/

/-- T13: reverse is the documented swap and an involution; never raises -/
theorem strand_reverse_involution (s : Strand) :
    Gen.Strand_reverse s = .ok (strandReverse s) ∧ (Gen.Strand_reverse s >>= Gen.Strand_reverse) = .ok s := by
  refine ⟨strand_reverse_spec s, ?_⟩
  cases s <;> rfl

/-- T14: `relative_to` is strand composition: agrees with `Spec.compose`, commutative, associative,
    PLUS is neutral, UNSTRANDED absorbs, composing with MINUS is `reverse`, each directional strand is its
    own inverse -/
theorem strand_relative_to_laws (a b c : Strand) :
    Gen.Strand_relative_to a b = .ok (Spec.compose a b) ∧
    Gen.Strand_relative_to a b = Gen.Strand_relative_to b a ∧
    (Gen.Strand_relative_to a b >>= fun x => Gen.Strand_relative_to x c) =
      (Gen.Strand_relative_to b c >>= fun y => Gen.Strand_relative_to a y) ∧
    Gen.Strand_relative_to a .plus = .ok a ∧
    Gen.Strand_relative_to a .unstranded = .ok .unstranded ∧
    Gen.Strand_relative_to a .minus = Gen.Strand_reverse a ∧
    (a ≠ .unstranded → Gen.Strand_relative_to a a = .ok .plus) := by
  refine ⟨strand_relative_to_spec a b, ?_, ?_, ?_, ?_, ?_, ?_⟩
  · cases a <;> cases b <;> rfl
  · cases a <;> cases b <;> cases c <;> rfl
  · cases a <;> rfl
  · cases a <;> rfl
  · cases a <;> rfl
  · cases a <;> first | (intro h; exact absurd rfl h) | (intro _; rfl)
example : Strand.minus ≠ .unstranded := by decide

/-- T15: symbols and ints round-trip; everything else is refused -/
theorem strand_symbol_int_round_trip (s : Strand) (x : List Char) (v : Int) :
    (Gen.Strand_to_symbol s >>= Gen.Strand_from_symbol) = .ok s ∧
    Gen.Strand_to_symbol s = .ok (strandSymbol s) ∧
    ansP (Gen.Strand_from_symbol x) = strandOfSymbol? x ∧
    (∀ t, Gen.Strand_from_symbol x = .ok t → Gen.Strand_to_symbol t = .ok x) ∧
    strandOfInt s.value = .ok s ∧
    ansP (strandOfInt v) = strandOfInt? v ∧
    (∀ t, strandOfInt v = .ok t → t.value = v) := by
  refine ⟨by cases s <;> rfl, strand_to_symbol_spec s, strand_from_symbol_spec x, ?_, by cases s <;> rfl,
    strand_from_int_spec v, ?_⟩
  · intro t h
    unfold Gen.Strand_from_symbol at h
    repeat' split at h
    all_goals first
      | (cases h; subst_vars; rfl)
      | cases h
  · intro t h
    unfold strandOfInt at h
    repeat' split at h
    all_goals first
      | (cases h; subst_vars; rfl)
      | cases h
example : Gen.Strand_from_symbol ['-'] = .ok .minus ∧ strandOfInt (-1) = .ok .minus := ⟨rfl, rfl⟩

/-- T16: ordering table: PLUS < MINUS < UNSTRANDED, a strict total order -/
theorem strand_order_spec (a b : Strand) :
    Model.Tab.strandLt a b = .ok (Spec.Tab.strandLt a b) ∧
    Gen.strandOrder = [("PLUS".toList, 1), ("MINUS".toList, 2), ("UNSTRANDED".toList, 3)] ∧
    (Spec.Tab.strandLt a b = true ∨ a = b ∨ Spec.Tab.strandLt b a = true) ∧
    ¬ (Spec.Tab.strandLt a b = true ∧ Spec.Tab.strandLt b a = true) := by
  refine ⟨strandLt_spec a b, by decide +kernel, ?_, ?_⟩
  · cases a <;> cases b <;> decide
  · cases a <;> cases b <;> decide

/-! ### 5. enum layouts and biotypes -/

/-- T17: the enum member tables are the layouts `Base.lean` mirrors (names, values, order) -/
theorem enum_layouts :
    Gen.strandMembers = Spec.Tab.strandMembers ∧
    Gen.strandMembers.map (·.2) = [Strand.plus.value, Strand.minus.value, Strand.unstranded.value] ∧
    Gen.cdsFrameMembers = frameMembers ∧ Gen.cdsPhaseMembers = frameMembers ∧
    Gen.cdsFrameMembers.map (·.2) = [CDSFrame.NONE.value, CDSFrame.ZERO.value, CDSFrame.ONE.value, CDSFrame.TWO.value] ∧
    Gen.cdsPhaseMembers.map (·.2) = [CDSPhase.NONE.value, CDSPhase.ZERO.value, CDSPhase.ONE.value, CDSPhase.TWO.value] := by
  decide +kernel

/-- T18: for EVERY pair of names: both are biotype names iff both look-ups succeed, and then the values are
    equal exactly when the names are synonyms (same class) — synonyms share a value, distinct classes differ -/
theorem biotype_synonyms_spec (a b : List Char) : okBiotypePair a b (ansP (biotypePair a b)) = true :=
  biotype_pair_ok a b

theorem biotype_names_complete : sameKeys (Gen.biotypes.map (·.1)) biotypeNames = true := biotype_names

end BioCantor.Props.C15
