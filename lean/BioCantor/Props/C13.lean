/-
  C13 — variant haplotypes: alternative sequence and lift-over match the edit model.

  Property theorems only (helper lemmas: Proofs/VarKernel.lean, Proofs/VarAlt.lean, Proofs/VarLift.lean).
    Spec.Variants   position-wise semantics of edits: `piece`, `image ref es lo hi` (edited image of a reference
                    range), `altOf` (literal substitution of every edit), `newPos`/`imageBlock` (where a position /
                    a block sits on the haplotype), verdict functions `okAltSeq`, `okLift`, `okIncorporate`, `okVcf`
    Model.Variants  mirror of gene/variants.py (`Ver.current` = the code as it is; `Ver.before` = the text before the
                    repairs of F-C13b/F-C13c, regression facts only; `Ver.descending` = hypothetical repair of the open
                    finding F-C13a); its single-interval kernel IS the definition generated from the
                    source on every run, and the T2 theorems are stated about that generated definition (`liftK`)
  Coordinates in T1/T3 are those of the parent's own sequence (`off` = chunk start; 0 for a chromosome).
-/
import BioCantor.Proofs.VarLift
namespace BioCantor.Props.C13
open BioCantor BioCantor.GenP BioCantor.Spec.Variants BioCantor.Proofs.Var
open BioCantor.Model.Variants (Var altSeq1 altSeqN kernel liftBlocks liftSingle lift1 liftN liftSeqSingleStop slice Par
  vcfDicts Ver convertVcf)

/-! ### T1 — alternative sequence = literal substitution -/

/-- T1 (one variant, chromosome or chunk): `ref[:s] + alt + ref[e:]` is the position-wise literal substitution. -/
theorem alt_single (off : Nat) (ref : Seq) (v : Var) (h1 : v.s - off < v.e - off) (h2 : v.e - off ≤ ref.length) :
    altSeq1 off ref v = altOf ref [toEdit off v] :=
  altSeq1_altOf off ref v h1 h2

/-- T1 (collection, any number of variants): for variants sorted by start, pairwise disjoint and inside the
    sequence, the splice loop yields the simultaneous literal substitution. -/
theorem alt_collection (off : Nat) (ref : Seq) (vs : List Var) (hne : vs ≠ [])
    (h : Chain ref.length (vs.map (toEdit off))) : altSeqN off ref vs = altOf ref (vs.map (toEdit off)) :=
  altSeqN_altOf off ref vs hne h

/-- T1 as a verdict of the specification's checker -/
theorem alt_collection_verdict (off : Nat) (ref : Seq) (vs : List Var) (hne : vs ≠ [])
    (h : Chain ref.length (vs.map (toEdit off))) :
    okAltSeq ref (vs.map (toEdit off)) (some (altSeqN off ref vs)) = .pass := by
  unfold okAltSeq
  rw [chain_valid _ _ h, altSeqN_altOf off ref vs hne h]
  cases vs with
  | nil => exact absurd rfl hne
  | cons v r => simp

/-! ### T2 — the generated single-interval kernel (δ = |alt| − (ve − vs)) -/

/-- variant wholly inside a non-empty block ⇒ `[bs, be + δ)`, unless block = variant interval with empty alt -/
theorem kernel_inside (v : VI) (b : SI) (hv : VarOk v) (hb : BlkOk b) (h1 : b.start ≤ v.vstart) (h2 : v.vend ≤ b.«end»)
    (hne : ¬ (b.start = v.vstart ∧ b.«end» = v.vend ∧ v.seqLen = 0)) :
    liftK v b = .ok (some ⟨b.start, b.«end» + delta v, b.strand⟩) := k_inside v b hv hb h1 h2 hne

/-- … that corner: the block IS the variant interval and the alt is empty ⇒ deleted -/
theorem kernel_exact_deletion (v : VI) (b : SI) (hv : VarOk v) (hb : BlkOk b) (h1 : b.start = v.vstart)
    (h2 : b.«end» = v.vend) (h0 : v.seqLen = 0) : liftK v b = .ok none := k_exact_deletion v b hv hb h1 h2 h0

/-- variant wholly left of the block ⇒ shifted by δ -/
theorem kernel_left (v : VI) (b : SI) (hv : VarOk v) (hb : BlkOk b) (h : v.vend ≤ b.start) :
    liftK v b = .ok (some ⟨b.start + delta v, b.«end» + delta v, b.strand⟩) := k_left v b hv hb h

/-- variant wholly right of the block ⇒ unchanged -/
theorem kernel_right (v : VI) (b : SI) (hv : VarOk v) (hb : BlkOk b) (h : b.«end» ≤ v.vstart) :
    liftK v b = .ok (some b) := k_right v b hv hb h

/-- block wholly inside the deleted part `[vs + |alt|, ve)` ⇒ EmptyLocation -/
theorem kernel_in_deleted (v : VI) (b : SI) (hv : VarOk v) (hb : BlkOk b) (hd : delta v < 0)
    (h1 : v.vstart + v.seqLen ≤ b.start) (h2 : b.«end» ≤ v.vend) : liftK v b = .ok none :=
  k_in_deleted v b hv hb hd h1 h2

/-- a variant that keeps the length leaves every block in place -/
theorem kernel_same_length (v : VI) (b : SI) (hd : delta v = 0) (h0 : 0 ≤ b.start) (h1 : b.start ≤ b.«end») :
    liftK v b = .ok (some b) := k_same_length v b hd h0 h1

/-- the only exception the kernel can raise is the block constructor's InvalidPositionException -/
theorem kernel_error_kind (v : VI) (b : SI) (e : PyExc) (h : liftK v b = .error e) :
    e = .InvalidPositionException := k_error_kind v b e h

/-! ### T3 — one variant: the lifted location covers exactly the edited image -/

/-- T3 (block): for a variant wholly inside the block or wholly outside it, the kernel's answer is the block's image
    on the haplotype (`none` exactly when the image has no bases). -/
theorem kernel_is_block_image (ref : Seq) (v : Var) (b : Blk) (st : Strand) (hv : v.s < v.e) (hvn : v.e ≤ ref.length)
    (hb : b.1 < b.2) (hbn : b.2 ≤ ref.length) (hc : Clean v b) :
    kernel v b st = .ok (nonEmpty (imageBlock ref [toEdit 0 v] b)) :=
  kernel_clean ref v b st hv hvn hb hbn hc

/-- T3 (block, sequence): read on the alternative sequence, the image block carries the edited image of the
    block's reference bases. -/
theorem image_block_reads_edit (ref : Seq) (v : Var) (b : Blk) (hv : v.s < v.e) (hvn : v.e ≤ ref.length)
    (hb : b.1 ≤ b.2) (hbn : b.2 ≤ ref.length) :
    slice (altSeq1 0 ref v) (imageBlock ref [toEdit 0 v] b) = image ref [toEdit 0 v] b.1 b.2 :=
  block_reads_image ref v b hv hvn hb hbn

/- T3, full statement (all locations, all parents):
     ∀ loc clean w.r.t. v,  extract alt (lift1 par ref v loc) = onStrand st (blocks.flatMap (image ref [v] ·))
                            ∧ blocks(lift1 …) = normBlocks (blocks.map imageBlock),  EmptyLocation when no bases remain.
   Proved below: (a) `_partial` for any number of blocks up to `optimize_blocks`/re-parenting — the block loop of the
   compound lift returns the images of the blocks and these read the edited image; (b) the complete entry point
   `lift_over_location` for single-block locations on a whole chromosome.  The remaining leg (merging of touching
   blocks by `optimize_blocks`, chunk re-parenting) is covered by the correspondence + `okLift` on the real code. -/

/-- T3a (`_partial`: any number of blocks, before `optimize_blocks`) -/
theorem lift_blocks_partial (ref : Seq) (v : Var) (st : Strand) (bs : List Blk) (hv : v.s < v.e)
    (hvn : v.e ≤ ref.length) (hc : CleanAll ref.length v bs) :
    liftBlocks v st bs = .ok (bs.filterMap fun b => nonEmpty (imageBlock ref [toEdit 0 v] b))
    ∧ (bs.filterMap fun b => nonEmpty (imageBlock ref [toEdit 0 v] b)).flatMap (slice (altSeq1 0 ref v))
        = bs.flatMap fun b => image ref [toEdit 0 v] b.1 b.2 :=
  ⟨liftBlocks_clean ref v st bs hv hvn hc, lifted_blocks_read_image ref v bs hv hvn hc⟩

/-- T3b (`VariantInterval.lift_over_location` AS IT IS, single-block location, whole chromosome): the image block,
    and the EmptyLocation when no base of the block remains. -/
theorem lift_single_block (ref : Seq) (v : Var) (b : Blk) (st : Strand) (hv : v.s < v.e) (hvn : v.e ≤ ref.length)
    (hb : b.1 < b.2) (hbn : b.2 ≤ ref.length) (hc : Clean v b) :
    lift1 .current .whole ref v (.single b st) =
      (match nonEmpty (imageBlock ref [toEdit 0 v] b) with
       | some ib => .ok (.single ib st)
       | none => .ok .empty) := by
  rw [lift1_single_clean .current ref v b st hv hvn hb hbn hc]
  cases nonEmpty (imageBlock ref [toEdit 0 v] b) <;> rfl

/-- "locations deleted entirely become empty" (code as it is): a single-block location wholly inside the deleted part
    `[s + |alt|, e)` of a length-reducing variant — padded or not — is lifted to the EmptyLocation. -/
theorem lift_deleted_single_block (ref : Seq) (v : Var) (b : Blk) (st : Strand) (hv : v.s < v.e) (hb : b.1 < b.2)
    (hd : v.alt.length < v.e - v.s) (h1 : v.s + v.alt.length ≤ b.1) (h2 : b.2 ≤ v.e) :
    lift1 .current .whole ref v (.single b st) = .ok .empty :=
  lift1_single_deleted .current rfl ref v b st hv hb hd h1 h2

/-- T3b as a verdict of the specification's checker: strand, normalised blocks and the bases read all pass `okLift` -/
theorem lift_single_block_verdict (ref : Seq) (v : Var) (b ib : Blk) (st : Strand) (hst : st ≠ .unstranded)
    (hv : v.s < v.e) (hvn : v.e ≤ ref.length) (hb : b.1 < b.2) (hbn : b.2 ≤ ref.length) (hc : Clean v b)
    (hne : nonEmpty (imageBlock ref [toEdit 0 v] b) = some ib) :
    okLift ref [toEdit 0 v] st [b] (some (some ⟨st, [ib], onStrand st (slice (altSeq1 0 ref v) ib)⟩)) = .pass :=
  lift1_single_verdict ref v b ib st hst hv hvn hb hbn hc hne

/-! ### T5 — collections: sequential ascending application -/

/-- T5 (positive part, `_partial`): when every variant before the last keeps the length, the sequential application
    coded in `VariantIntervalCollection.lift_over_location` (the loop as it is, early exit included) equals the
    application of the last variant (to which T3 applies).  Full statement — sequential = simultaneous for EVERY sorted
    disjoint collection — is false for the code as it is: `sequential_application_defect_witness`. -/
theorem sequential_ok_partial (pre : List Var) (v : Var) (b : Blk) (st : Strand) (hb : b.1 ≤ b.2)
    (hpre : ∀ u ∈ pre, (u.alt.length : Int) - ((u.e : Int) - (u.s : Int)) = 0) :
    liftSeqSingleStop (pre ++ [v]) (.single b st) = liftSingle v (.single b st) :=
  liftSeqSingleStop_prefix pre v b st hb hpre

def refW : Seq := "GCTTCCAAGGTTACGTACGTTTGACC".toList
def v1 : Var := ⟨2, 6, ['C', 'A']⟩
def v2 : Var := ⟨13, 15, ['A', 'G', 'G']⟩

/-- T5 (negative witness, F-C13a): variants (2,6,"CA") and (13,15,"AGG"), block [15,24).  The modelled code answers
    [13,23) (it compares the block, already shifted to 13, with the second variant's reference interval); the image of
    the block is [14,23), and the specification's checker rejects the answer. -/
theorem sequential_application_defect_witness :
    liftN .current .whole refW [v1, v2] (.single (15, 24) .plus) = .ok (.single (13, 23) .plus)
    ∧ imageBlock refW [toEdit 0 v1, toEdit 0 v2] (15, 24) = (14, 23)
    ∧ okLift refW [toEdit 0 v1, toEdit 0 v2] .plus [(15, 24)]
        (some (some ⟨.plus, [(13, 23)], slice (altSeqN 0 refW [v1, v2]) (13, 23)⟩)) = .fail := by
  refine ⟨by rfl, by decide, by decide⟩

/-- the location of the former finding F-C13b (a block inside an unpadded deletion): the code as it is answers the
    EmptyLocation, which the checker accepts; regression fact: the text before 82ac85b raised, and the checker's
    verdict on a raise is the dedicated `failDeletedRaises`. -/
theorem deleted_location_witness :
    lift1 .current .whole refW ⟨2, 6, []⟩ (.single (3, 5) .plus) = .ok .empty
    ∧ okLift refW [⟨2, 6, []⟩] .plus [(3, 5)] (some none) = .pass
    ∧ lift1 .before .whole refW ⟨2, 6, []⟩ (.single (3, 5) .plus) = .error .EmptyLocation
    ∧ okLift refW [⟨2, 6, []⟩] .plus [(3, 5)] none = .failDeletedRaises := by
  refine ⟨by rfl, by decide, by rfl, by decide⟩

/-- a collection whose first variant deletes the location: the loop as it is stops there (before 82ac85b the next
    variant was applied to the EmptyLocation and raised) -/
theorem collection_deleted_location_witness :
    liftN .current .whole refW [⟨2, 6, []⟩, v2] (.single (3, 5) .plus) = .ok .empty
    ∧ liftN .before .whole refW [⟨2, 6, []⟩, v2] (.single (3, 5) .plus) = .error .EmptyLocation := by
  refine ⟨by rfl, by rfl⟩

/-- the HYPOTHETICAL repair of the open finding F-C13a (descending order) gives, on the witness, the image block -/
theorem descending_order_fixes_witness :
    liftN .descending .whole refW [v1, v2] (.single (15, 24) .plus) = .ok (.single (14, 23) .plus) := by
  rfl

/-! ### T4 — VCF records: one variant per alternative allele (grouping itself: correspondence + `okVcf`) -/

theorem vcf_one_variant_per_alt (r : Model.Variants.VcfRec) :
    (vcfDicts r).length = r.alts.length
    ∧ ∀ d ∈ vcfDicts r, d.start = r.start ∧ d.«end» = (if r.start = r.«end» then r.«end» + 1 else r.«end») ∧ d.phase = r.ps := by
  refine ⟨by simp [vcfDicts], ?_⟩
  intro d hd
  simp only [vcfDicts, List.mem_map] at hd
  obtain ⟨a, _, rfl⟩ := hd
  exact ⟨rfl, rfl, rfl⟩

/-- since c293a73 a missing PS value is read like an absent PS field: the two records of the former finding F-C13c
    become two unphased singleton collections (before: the model had no answer — Python raised TypeError) -/
theorem vcf_missing_ps_witness :
    convertVcf .current [⟨['c'], 5, 6, .missing, [(['A'], ['S'])]⟩, ⟨['c'], 9, 12, .missing, [(['A'], ['D'])]⟩]
      = some [(['c'], [⟨none, ['c'], [⟨5, 6, ['A'], ['S'], .absent⟩]⟩, ⟨none, ['c'], [⟨9, 12, ['A'], ['D'], .absent⟩]⟩])]
    ∧ convertVcf .before [⟨['c'], 5, 6, .missing, [(['A'], ['S'])]⟩, ⟨['c'], 9, 12, .missing, [(['A'], ['D'])]⟩] = none := by
  refine ⟨by decide, by decide⟩

-- non-vacuity of the hypotheses
example : Chain refW.length ([v1, v2].map (toEdit 0)) := by
  simp only [List.map, Chain, toEdit, v1, v2]; decide
example : Chain 26 ([⟨102, 106, ['C']⟩, ⟨113, 115, []⟩].map (toEdit 100)) := by
  simp only [List.map, Chain, toEdit]; decide
example : VarOk ⟨2, 6, 2⟩ ∧ BlkOk ⟨15, 24, .minus⟩ := by unfold VarOk BlkOk; decide
example : CleanAll refW.length v1 [(0, 8), (10, 12), (20, 26)] := by
  intro b hb
  simp only [List.mem_cons, List.mem_nil_iff, or_false] at hb
  rcases hb with rfl | rfl | rfl <;> decide
example : Clean ⟨2, 6, []⟩ (2, 6) ∧ nonEmpty (imageBlock refW [toEdit 0 ⟨2, 6, []⟩] (2, 6)) = none := by decide
example : lift1 .current .whole refW v1 (.single (15, 24) .minus) = .ok (.single (13, 22) .minus) := by rfl
example : (2 : Nat) + ([] : Seq).length ≤ 3 ∧ (5 : Nat) ≤ 6 ∧ ([] : Seq).length < 6 - 2 := by decide
example : okLift refW [toEdit 0 v1] .minus [(15, 24)]
    (some (some ⟨.minus, [(13, 22)], (slice (altSeq1 0 refW v1) (13, 22)).reverse.map complement⟩)) = .pass := by decide

end BioCantor.Props.C13
