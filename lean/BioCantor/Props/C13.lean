/-
  C13 — variant haplotypes: alternative sequence and lift-over match the edit model.

  Property theorems only (helper lemmas: Proofs/VarKernel.lean, VarAlt.lean, VarLift.lean, VarOpt.lean, VarFull.lean,
  VarInc.lean, VarColl.lean, VarCollFull.lean, VarVcf.lean, VarHap.lean).
    Spec.Variants   position-wise semantics of edits: `piece`, `image ref es lo hi` (edited image of a reference
                    range), `altOf` (literal substitution of every edit), `newPos`/`imageBlock` (where a position /
                    a block sits on the haplotype), verdict functions `okAltSeq`, `okLift`, `okIncorporate`, `okVcf`
    Model.Variants  mirror of gene/variants.py (`Ver.current` = the code as it is; `Ver.before` = the text before the
                    repairs of F-C13b/F-C13c, regression facts only; `Ver.descending` = hypothetical repair of the open
                    finding F-C13a); its single-interval kernel IS the definition generated from the
                    source on every run, and the T2 theorems are stated about that generated definition (`liftK`)
  Coordinates in T1/T3 are those of the parent's own sequence (`off` = chunk start; 0 for a chromosome).
-/
import BioCantor.Proofs.VarLift
import BioCantor.Proofs.VarFull
import BioCantor.Proofs.VarInc
import BioCantor.Proofs.VarColl
import BioCantor.Proofs.VarCollFull
import BioCantor.Proofs.VarVcf
import BioCantor.Proofs.VarHap
set_option autoImplicit false   -- an unresolved name in a statement must be an error, never a bound variable
namespace BioCantor.Props.C13
open BioCantor BioCantor.GenP BioCantor.Spec.Variants BioCantor.Proofs.Var
open BioCantor.Model.Variants (Var altSeq1 altSeqN kernel liftBlocks liftSingle lift1 liftN liftSeqSingleStop slice Par
  vcfDicts Ver convertVcf incorporateFeature incorporateCDS incorporateTranscript Shown Variants vcfColls groupRuns intStr)

/-! ### T1 — alternative sequence = literal substitution -/

/-- T1 (one variant, chromosome or chunk): `ref[:s] + alt + ref[e:]` is the position-wise literal substitution. -/
theorem alt_single (off : Nat) (ref : Seq) (v : Var) (h1 : v.s - off < v.e - off) (h2 : v.e - off ≤ ref.length) :
    altSeq1 off ref v = altOf ref [toEdit off v] :=
  altSeq1_altOf off ref v h1 h2

/-- T1 (collection, any number of variants): for variants sorted by start, pairwise disjoint and inside the
    sequence, the splice loop yields the simultaneous literal substitution. -/
theorem alt_collection (off : Nat) (ref : Seq) (vs : List Var) (hne : vs ≠ [])
    (h : Chain ref.length (vs.map (toEdit off))) : altSeqN off ref vs = altOf ref (vs.map (toEdit off)) :=
  altSeqN_altOf off ref vs hne h

/-- T1 as a verdict of the specification's checker -/
theorem alt_collection_verdict (off : Nat) (ref : Seq) (vs : List Var) (hne : vs ≠ [])
    (h : Chain ref.length (vs.map (toEdit off))) :
    okAltSeq ref (vs.map (toEdit off)) (some (altSeqN off ref vs)) = .pass := by
  unfold okAltSeq
  rw [chain_valid _ _ h, altSeqN_altOf off ref vs hne h]
  cases vs with
  | nil => exact absurd rfl hne
  | cons v r => simp

/-! ### T2 — the generated single-interval kernel (δ = |alt| − (ve − vs)) -/

/-- variant wholly inside a non-empty block ⇒ `[bs, be + δ)`, unless block = variant interval with empty alt -/
theorem kernel_inside (v : VI) (b : SI) (hv : VarOk v) (hb : BlkOk b) (h1 : b.start ≤ v.vstart) (h2 : v.vend ≤ b.«end»)
    (hne : ¬ (b.start = v.vstart ∧ b.«end» = v.vend ∧ v.seqLen = 0)) :
    liftK v b = .ok (some ⟨b.start, b.«end» + delta v, b.strand⟩) := k_inside v b hv hb h1 h2 hne

/-- … that corner: the block IS the variant interval and the alt is empty ⇒ deleted -/
theorem kernel_exact_deletion (v : VI) (b : SI) (hv : VarOk v) (hb : BlkOk b) (h1 : b.start = v.vstart)
    (h2 : b.«end» = v.vend) (h0 : v.seqLen = 0) : liftK v b = .ok none := k_exact_deletion v b hv hb h1 h2 h0

/-- variant wholly left of the block ⇒ shifted by δ -/
theorem kernel_left (v : VI) (b : SI) (hv : VarOk v) (hb : BlkOk b) (h : v.vend ≤ b.start) :
    liftK v b = .ok (some ⟨b.start + delta v, b.«end» + delta v, b.strand⟩) := k_left v b hv hb h

/-- variant wholly right of the block ⇒ unchanged -/
theorem kernel_right (v : VI) (b : SI) (hv : VarOk v) (hb : BlkOk b) (h : b.«end» ≤ v.vstart) :
    liftK v b = .ok (some b) := k_right v b hv hb h

/-- block wholly inside the deleted part `[vs + |alt|, ve)` ⇒ EmptyLocation -/
theorem kernel_in_deleted (v : VI) (b : SI) (hv : VarOk v) (hb : BlkOk b) (hd : delta v < 0)
    (h1 : v.vstart + v.seqLen ≤ b.start) (h2 : b.«end» ≤ v.vend) : liftK v b = .ok none :=
  k_in_deleted v b hv hb hd h1 h2

/-- a variant that keeps the length leaves every block in place -/
theorem kernel_same_length (v : VI) (b : SI) (hd : delta v = 0) (h0 : 0 ≤ b.start) (h1 : b.start ≤ b.«end») :
    liftK v b = .ok (some b) := k_same_length v b hd h0 h1

/-- the only exception the kernel can raise is the block constructor's InvalidPositionException -/
theorem kernel_error_kind (v : VI) (b : SI) (e : PyExc) (h : liftK v b = .error e) :
    e = .InvalidPositionException := k_error_kind v b e h

/-! ### T3 — one variant: the lifted location covers exactly the edited image -/

/-- T3 (block): for a variant wholly inside the block or wholly outside it, the kernel's answer is the block's image
    on the haplotype (`none` exactly when the image has no bases). -/
theorem kernel_is_block_image (ref : Seq) (v : Var) (b : Blk) (st : Strand) (hv : v.s < v.e) (hvn : v.e ≤ ref.length)
    (hb : b.1 < b.2) (hbn : b.2 ≤ ref.length) (hc : Clean v b) :
    kernel v b st = .ok (nonEmpty (imageBlock ref [toEdit 0 v] b)) :=
  kernel_clean ref v b st hv hvn hb hbn hc

/-- T3 (block, sequence): read on the alternative sequence, the image block carries the edited image of the
    block's reference bases. -/
theorem image_block_reads_edit (ref : Seq) (v : Var) (b : Blk) (hv : v.s < v.e) (hvn : v.e ≤ ref.length)
    (hb : b.1 ≤ b.2) (hbn : b.2 ≤ ref.length) :
    slice (altSeq1 0 ref v) (imageBlock ref [toEdit 0 v] b) = image ref [toEdit 0 v] b.1 b.2 :=
  block_reads_image ref v b hv hvn hb hbn

/- T3, full statement (all locations, all parents):
     ∀ loc clean w.r.t. v,  extract alt (lift1 par ref v loc) = onStrand st (blocks.flatMap (image ref [v] ·))
                            ∧ blocks(lift1 …) = normBlocks (blocks.map imageBlock),  EmptyLocation when no bases remain.
   Proved below: (a) `_partial` for any number of blocks up to `optimize_blocks`/re-parenting — the block loop of the
   compound lift returns the images of the blocks and these read the edited image; (b) the complete entry point
   `lift_over_location` for single-block locations on a whole chromosome.  The remaining leg (merging of touching
   blocks by `optimize_blocks`, chunk re-parenting) is covered by the correspondence + `okLift` on the real code. -/

/-- T3a (`_partial`: any number of blocks, before `optimize_blocks`) -/
theorem lift_blocks_partial (ref : Seq) (v : Var) (st : Strand) (bs : List Blk) (hv : v.s < v.e)
    (hvn : v.e ≤ ref.length) (hc : CleanAll ref.length v bs) :
    liftBlocks v st bs = .ok (bs.filterMap fun b => nonEmpty (imageBlock ref [toEdit 0 v] b))
    ∧ (bs.filterMap fun b => nonEmpty (imageBlock ref [toEdit 0 v] b)).flatMap (slice (altSeq1 0 ref v))
        = bs.flatMap fun b => image ref [toEdit 0 v] b.1 b.2 :=
  ⟨liftBlocks_clean ref v st bs hv hvn hc, lifted_blocks_read_image ref v bs hv hvn hc⟩

/-- T3b (`VariantInterval.lift_over_location` AS IT IS, single-block location, whole chromosome): the image block,
    and the EmptyLocation when no base of the block remains. -/
theorem lift_single_block (ref : Seq) (v : Var) (b : Blk) (st : Strand) (hv : v.s < v.e) (hvn : v.e ≤ ref.length)
    (hb : b.1 < b.2) (hbn : b.2 ≤ ref.length) (hc : Clean v b) :
    lift1 .current .whole ref v (.single b st) =
      (match nonEmpty (imageBlock ref [toEdit 0 v] b) with
       | some ib => .ok (.single ib st)
       | none => .ok .empty) := by
  rw [lift1_single_clean .current ref v b st hv hvn hb hbn hc]
  cases nonEmpty (imageBlock ref [toEdit 0 v] b) <;> rfl

/-- "locations deleted entirely become empty" (code as it is): a single-block location wholly inside the deleted part
    `[s + |alt|, e)` of a length-reducing variant — padded or not — is lifted to the EmptyLocation. -/
theorem lift_deleted_single_block (ref : Seq) (v : Var) (b : Blk) (st : Strand) (hv : v.s < v.e) (hb : b.1 < b.2)
    (hd : v.alt.length < v.e - v.s) (h1 : v.s + v.alt.length ≤ b.1) (h2 : b.2 ≤ v.e) :
    lift1 .current .whole ref v (.single b st) = .ok .empty :=
  lift1_single_deleted .current rfl ref v b st hv hb hd h1 h2

/-- T3b as a verdict of the specification's checker: strand, normalised blocks and the bases read all pass `okLift` -/
theorem lift_single_block_verdict (ref : Seq) (v : Var) (b ib : Blk) (st : Strand) (hst : st ≠ .unstranded)
    (hv : v.s < v.e) (hvn : v.e ≤ ref.length) (hb : b.1 < b.2) (hbn : b.2 ≤ ref.length) (hc : Clean v b)
    (hne : nonEmpty (imageBlock ref [toEdit 0 v] b) = some ib) :
    okLift ref [toEdit 0 v] st [b] (some (some ⟨st, [ib], onStrand st (slice (altSeq1 0 ref v) ib)⟩)) = .pass :=
  lift1_single_verdict ref v b ib st hst hv hvn hb hbn hc hne

/-! ### T3, full — any number of blocks, whole-chromosome and chunk parents

   `toSingleIfOne ⟨bs, st⟩` is the location object of the block list (`SingleInterval` for one block, `CompoundInterval`
   otherwise); `Asc bs` = ascending, pairwise disjoint (0-bp gaps allowed), non-empty blocks; `BlocksOk off n v bs` =
   every block inside the parent's window and containing the variant wholly or not at all; `InWin` = the variant lies
   in the window.  `Reads alt st target r`: `r` is the EmptyLocation and `target` is empty, or `r` is a location on
   strand `st` whose blocks are ascending, disjoint, non-empty, inside `alt`, and read `target` on `alt`. -/

/-- T3 (full): `VariantInterval.lift_over_location` AS IT IS, through `optimize_blocks` and the re-parenting onto the
    alternative sequence: the lifted location reads exactly the edited image of the location's reference bases. -/
theorem lift_any_blocks (par : Par) (ref : Seq) (v : Var) (st : Strand) (bs : List Blk)
    (hw : InWin par.off ref.length v) (hasc : Asc bs) (hbs : BlocksOk par.off ref.length v bs) (hne : bs ≠ []) :
    ∃ r, lift1 .current par ref v (Model.toSingleIfOne ⟨bs, st⟩) = .ok r
      ∧ Reads (altSeq1 par.off ref v) st
          (bs.flatMap fun b => image ref [toEdit par.off v] (b.1 - par.off) (b.2 - par.off)) r :=
  lift1_clean_full par ref v st bs hw hasc hbs hne

/-- T3 in the words of the property: `extract alt (lift l) = edit (extract ref l)` on both strands (and the
    EmptyLocation exactly when nothing is left to read). -/
theorem lift_any_blocks_extract (par : Par) (ref : Seq) (v : Var) (st : Strand) (bs : List Blk) (hst : st ≠ .unstranded)
    (hw : InWin par.off ref.length v) (hasc : Asc bs) (hbs : BlocksOk par.off ref.length v bs) (hne : bs ≠ []) :
    ∃ r, lift1 .current par ref v (Model.toSingleIfOne ⟨bs, st⟩) = .ok r ∧
      ((r = .empty ∧ imageSeq ref [toEdit par.off v] (bs.map fun b => (b.1 - par.off, b.2 - par.off)) st = [])
       ∨ (r ≠ .empty ∧ Model.locStrand r = .ok st ∧ Asc (Model.locBlocks r) ∧ Model.locBlocks r ≠ []
          ∧ (∀ y ∈ Model.locBlocks r, y.2 ≤ (altSeq1 par.off ref v).length)
          ∧ Model.Variants.extract (altSeq1 par.off ref v) (Model.locBlocks r) st
              = .ok (imageSeq ref [toEdit par.off v] (bs.map fun b => (b.1 - par.off, b.2 - par.off)) st))) :=
  lift1_clean_extract par ref v st bs hst hw hasc hbs hne

/-- T3 (full), the blocks themselves: every additive reading `g` of the answer's blocks — covered positions, slices of
    any sequence, … — equals the same reading of the IMAGES `imgRel` of the original blocks: the lifted location is the
    list of block images with touching images merged and empty ones dropped. -/
theorem lift_any_blocks_images (par : Par) (ref : Seq) (v : Var) (st : Strand) (bs : List Blk)
    (hw : InWin par.off ref.length v) (hasc : Asc bs) (hbs : BlocksOk par.off ref.length v bs) (hne : bs ≠ []) :
    ∃ r, lift1 .current par ref v (Model.toSingleIfOne ⟨bs, st⟩) = .ok r
      ∧ ∀ {α : Type} (g : Blk → List α), Additive g →
          (Model.locBlocks r).flatMap g = bs.flatMap (fun b => g (imgRel par.off ref v b)) :=
  lift1_clean_blocks par ref v st bs hw hasc hbs hne

/-- … in particular it covers exactly the positions of the images (`Spec.basesPlus` = covered positions, ascending) -/
theorem lift_any_blocks_covers (par : Par) (ref : Seq) (v : Var) (st : Strand) (bs : List Blk)
    (hw : InWin par.off ref.length v) (hasc : Asc bs) (hbs : BlocksOk par.off ref.length v bs) (hne : bs ≠ []) :
    ∃ r, lift1 .current par ref v (Model.toSingleIfOne ⟨bs, st⟩) = .ok r
      ∧ Spec.basesPlus (Model.locBlocks r) = bs.flatMap (fun b => Spec.blkAsc (imgRel par.off ref v b)) :=
  lift1_clean_positions par ref v st bs hw hasc hbs hne

/-! ### incorporate_variants (one variant)

   `ShownOk par alt st target sh`: the new interval is on strand `st`, its spliced sequence is `target` read on that
   strand, its chunk-relative blocks are ascending / disjoint / non-empty / inside `alt` and read `target` there, and
   its chromosome blocks are the chunk-relative ones moved by the chunk start. -/

/-- `FeatureInterval.incorporate_variants`: the spliced sequence after incorporation is the reference spliced
    sequence with the edit applied; an interval of which nothing remains is refused (EmptyLocationException). -/
theorem incorporate_feature (par : Par) (ref : Seq) (v : Var) (st : Strand) (bs : List Blk) (hst : st ≠ .unstranded)
    (hw : InWin par.off ref.length v) (hasc : Asc bs) (hbs : BlocksOk par.off ref.length v bs) (hne : bs ≠ []) :
    let target := bs.flatMap fun b => image ref [toEdit par.off v] (b.1 - par.off) (b.2 - par.off)
    (target = [] ∧ incorporateFeature .current par ref (.one v) (Model.toSingleIfOne ⟨bs, st⟩) = .error .EmptyLocation)
    ∨ (target ≠ [] ∧ ∃ sh, incorporateFeature .current par ref (.one v) (Model.toSingleIfOne ⟨bs, st⟩) = .ok sh
          ∧ ShownOk par (altSeq1 par.off ref v) st target sh) :=
  incorporateFeature_clean par ref v st bs hst hw hasc hbs hne

/-- `CDSInterval.incorporate_variants` (location and spliced sequence; frames are C05's subject) -/
theorem incorporate_cds (par : Par) (ref : Seq) (v : Var) (st : Strand) (bs : List Blk) (hst : st ≠ .unstranded)
    (hw : InWin par.off ref.length v) (hasc : Asc bs) (hbs : BlocksOk par.off ref.length v bs) (hne : bs ≠ []) :
    let target := bs.flatMap fun b => image ref [toEdit par.off v] (b.1 - par.off) (b.2 - par.off)
    (target = [] ∧ incorporateCDS .current par ref (.one v) (Model.toSingleIfOne ⟨bs, st⟩) = .error .EmptyLocation)
    ∨ (target ≠ [] ∧ ∃ sh, incorporateCDS .current par ref (.one v) (Model.toSingleIfOne ⟨bs, st⟩) = .ok sh
          ∧ ShownOk par (altSeq1 par.off ref v) st target sh) :=
  incorporateCDS_clean par ref v st bs hst hw hasc hbs hne

/-- `TranscriptInterval.incorporate_variants`, non-coding: exactly the feature method on the exons -/
theorem incorporate_transcript_noncoding (ver : Ver) (par : Par) (ref : Seq) (vs : Variants) (exons : Location) :
    incorporateTranscript ver par ref vs exons none =
      (incorporateFeature ver par ref vs exons).bind (fun sh => .ok (sh, none)) :=
  incorporateTranscript_noncoding ver par ref vs exons

/- coding transcripts, full statement: for exons and CDS both clean w.r.t. the variant the call returns the pair
   (feature result on the exons, CDS result) unless one of them is deleted entirely.  Proved below (`_partial`): whenever
   the call returns, its two parts ARE the results of the feature / CDS methods, to which `incorporate_feature` and
   `incorporate_cds` apply.  Not proved: that the constructor's CDS-bounds check cannot fire for a CDS contained in
   the exons (it needs monotonicity of the image across the two block lists); that leg is correspondence + `okIncorporate`. -/

/-- coding transcript (`_partial`, see above) -/
theorem incorporate_transcript_parts_partial (ver : Ver) (par : Par) (ref : Seq) (vs : Variants) (exons c : Location)
    (sh : Shown) (oc : Option Shown) (h : incorporateTranscript ver par ref vs exons (some c) = .ok (sh, oc)) :
    incorporateFeature ver par ref vs exons = .ok sh ∧
      ∃ sc, oc = some sc ∧ incorporateCDS ver par ref vs c = .ok sc :=
  incorporateTranscript_parts ver par ref vs exons c sh oc h

/-! ### T5 — collections: sequential ascending application -/

/-- T5 (positive part, `_partial`): when every variant before the last keeps the length, the sequential application
    coded in `VariantIntervalCollection.lift_over_location` (the loop as it is, early exit included) equals the
    application of the last variant (to which T3 applies).  Full statement — sequential = simultaneous for EVERY sorted
    disjoint collection — is false for the code as it is: `sequential_application_defect_witness`. -/
theorem sequential_ok_partial (pre : List Var) (v : Var) (b : Blk) (st : Strand) (hb : b.1 ≤ b.2)
    (hpre : ∀ u ∈ pre, (u.alt.length : Int) - ((u.e : Int) - (u.s : Int)) = 0) :
    liftSeqSingleStop (pre ++ [v]) (.single b st) = liftSingle v (.single b st) :=
  liftSeqSingleStop_prefix pre v b st hb hpre

/-- T5 (positive part through the real entry point, `_partial`: single-block locations on a whole chromosome).
    `Transparent u b`: `u` keeps the length or lies wholly to the right of the block.  If every variant of a sorted
    disjoint collection is wholly inside or outside the block and every variant before the right-most one is
    transparent — the complement of the shape of finding F-C13a — `VariantIntervalCollection.lift_over_location` AS IT
    IS returns the image of the block under ALL edits (the EmptyLocation when nothing remains). -/
theorem collection_transparent_single_partial (ref : Seq) (pre : List Var) (v : Var) (b : Blk) (st : Strand)
    (hb : b.1 < b.2) (hbn : b.2 ≤ ref.length)
    (hch : Chain ref.length ((pre ++ [v]).map (toEdit 0)))
    (hpre : ∀ u ∈ pre, Clean u b ∧ Transparent u b) (hv : Clean v b) :
    liftN .current .whole ref (pre ++ [v]) (.single b st) =
      (match nonEmpty (imageBlock ref ((pre ++ [v]).map (toEdit 0)) b) with
       | some ib => .ok (.single ib st)
       | none => .ok .empty) :=
  liftN_transparent_single ref pre v b st hb hbn hch hpre hv

/-- … and that block reads, on the collection's alternative sequence, the edited image under all edits -/
theorem collection_block_reads_edit (ref : Seq) (vs : List Var) (b : Blk) (hne : vs ≠ []) (hb : b.1 ≤ b.2)
    (hbn : b.2 ≤ ref.length) (hch : Chain ref.length (vs.map (toEdit 0))) :
    slice (altSeqN 0 ref vs) (imageBlock ref (vs.map (toEdit 0)) b) = image ref (vs.map (toEdit 0)) b.1 b.2 :=
  collection_block_reads ref vs b hne hb hbn hch

/-- T5 (positive part in full, `_partial` only w.r.t. "all collections", which F-C13a refutes): ANY number of blocks,
    whole chromosome or chunk.  `CollOk off n pre v b`: block `b` lies in the window, has bases, every variant of the
    collection is wholly inside it or wholly outside it, and every variant before the right-most one is transparent
    for it.  Then `VariantIntervalCollection.lift_over_location` AS IT IS returns a location (or the EmptyLocation) whose
    blocks are — for every additive reading: positions, slices — the images of the original blocks under ALL edits. -/
theorem collection_transparent_any_blocks_partial (par : Par) (ref : Seq) (pre : List Var) (v : Var) (st : Strand)
    (bs : List Blk)
    (hch : Chain ref.length ((pre ++ [v]).map (toEdit par.off)))
    (hlo : ∀ u ∈ pre ++ [v], par.off ≤ u.s)
    (hasc : Asc bs) (hne : bs ≠ [])
    (hbs : ∀ b ∈ bs, CollOk par.off ref.length pre v b) :
    ∃ r, liftN .current par ref (pre ++ [v]) (Model.toSingleIfOne ⟨bs, st⟩) = .ok r
      ∧ (r = .empty ∨ (Model.locStrand r = .ok st ∧ Asc (Model.locBlocks r) ∧ Model.locBlocks r ≠ []
            ∧ ∀ y ∈ Model.locBlocks r, y.2 ≤ (altSeqN par.off ref (pre ++ [v])).length))
      ∧ ∀ {α : Type} (g : Blk → List α), Additive g →
          (Model.locBlocks r).flatMap g
            = bs.flatMap (fun b => g (imgRelE par.off ref ((pre ++ [v]).map (toEdit par.off)) b)) :=
  liftN_transparent_blocks par ref pre v st bs hch hlo hasc hne hbs

/-- … and reads there the edited image, under all edits, of the location's reference bases -/
theorem collection_transparent_reads_partial (par : Par) (ref : Seq) (pre : List Var) (v : Var) (st : Strand)
    (bs : List Blk)
    (hch : Chain ref.length ((pre ++ [v]).map (toEdit par.off)))
    (hlo : ∀ u ∈ pre ++ [v], par.off ≤ u.s)
    (hasc : Asc bs) (hne : bs ≠ [])
    (hbs : ∀ b ∈ bs, CollOk par.off ref.length pre v b) :
    ∃ r, liftN .current par ref (pre ++ [v]) (Model.toSingleIfOne ⟨bs, st⟩) = .ok r
      ∧ (Model.locBlocks r).flatMap (slice (altSeqN par.off ref (pre ++ [v])))
          = bs.flatMap (fun b => image ref ((pre ++ [v]).map (toEdit par.off)) (b.1 - par.off) (b.2 - par.off)) :=
  liftN_transparent_reads par ref pre v st bs hch hlo hasc hne hbs

def refW : Seq := "GCTTCCAAGGTTACGTACGTTTGACC".toList
def v1 : Var := ⟨2, 6, ['C', 'A']⟩
def v2 : Var := ⟨13, 15, ['A', 'G', 'G']⟩

/-- T5 (negative witness, F-C13a): variants (2,6,"CA") and (13,15,"AGG"), block [15,24).  The modelled code answers
    [13,23) (it compares the block, already shifted to 13, with the second variant's reference interval); the image of
    the block is [14,23), and the specification's checker rejects the answer. -/
theorem sequential_application_defect_witness :
    liftN .current .whole refW [v1, v2] (.single (15, 24) .plus) = .ok (.single (13, 23) .plus)
    ∧ imageBlock refW [toEdit 0 v1, toEdit 0 v2] (15, 24) = (14, 23)
    ∧ okLift refW [toEdit 0 v1, toEdit 0 v2] .plus [(15, 24)]
        (some (some ⟨.plus, [(13, 23)], slice (altSeqN 0 refW [v1, v2]) (13, 23)⟩)) = .fail := by
  refine ⟨by rfl, by decide, by decide⟩

/-- the location of the former finding F-C13b (a block inside an unpadded deletion): the code as it is answers the
    EmptyLocation, which the checker accepts; regression fact: the text before 82ac85b raised, and the checker's
    verdict on a raise is the dedicated `failDeletedRaises`. -/
theorem deleted_location_witness :
    lift1 .current .whole refW ⟨2, 6, []⟩ (.single (3, 5) .plus) = .ok .empty
    ∧ okLift refW [⟨2, 6, []⟩] .plus [(3, 5)] (some none) = .pass
    ∧ lift1 .before .whole refW ⟨2, 6, []⟩ (.single (3, 5) .plus) = .error .EmptyLocation
    ∧ okLift refW [⟨2, 6, []⟩] .plus [(3, 5)] none = .failDeletedRaises := by
  refine ⟨by rfl, by decide, by rfl, by decide⟩

/-- a collection whose first variant deletes the location: the loop as it is stops there (before 82ac85b the next
    variant was applied to the EmptyLocation and raised) -/
theorem collection_deleted_location_witness :
    liftN .current .whole refW [⟨2, 6, []⟩, v2] (.single (3, 5) .plus) = .ok .empty
    ∧ liftN .before .whole refW [⟨2, 6, []⟩, v2] (.single (3, 5) .plus) = .error .EmptyLocation := by
  refine ⟨by rfl, by rfl⟩

/-- the HYPOTHETICAL repair of the open finding F-C13a (descending order) gives, on the witness, the image block -/
theorem descending_order_fixes_witness :
    liftN .descending .whole refW [v1, v2] (.single (15, 24) .plus) = .ok (.single (14, 23) .plus) := by
  rfl

/-! ### alternative_haplotype_mapping of an AnnotationCollection

   `hapMapping` mirrors the loop of `_associate_intervals_with_variant_intervals` (plain branch: haplotypes outermost,
   `itertools.chain(genes, feature_collections)` inside, a dict of lists filled by `append`); `bucket d i` = the list
   stored for haplotype `i` (empty when the key is absent); `collect … vs ms` = walk the members in order, keep those
   whose span overlaps the span of `vs`, incorporate each with `vs`. -/

/-- per-key independence, any number of haplotypes and members: the bucket of haplotype `i` is exactly
    `collect` of haplotype `i` ALONE — no member incorporated with another haplotype, no member of another bucket —
    and there are no buckets beyond the haplotypes. -/
theorem haplotype_buckets (ver : Ver) (par : Par) (ref : Seq) (haps : List (List Var))
    (members : List Model.Variants.Member) (d : Model.Variants.HapMap)
    (h : Model.Variants.hapMapping ver par ref haps members = .ok d) :
    (∀ i (hi : i < haps.length),
        collect ver par ref haps[i] (Model.Variants.chainOrder members) = .ok (Model.Variants.bucket d i))
    ∧ ∀ i, haps.length ≤ i → Model.Variants.bucket d i = [] :=
  hapMapping_buckets ver par ref haps members d h

/-- membership of a bucket: exactly the members whose span shares a position with the haplotype's span
    (`Spec.Variants.spansMeet`, the documented overlap rule), in chain order, and every entry is
    `member.incorporate_variants(that haplotype)` -/
theorem haplotype_members (ver : Ver) (par : Par) (ref : Seq) (vs : List Var)
    (ms : List (Nat × Model.Variants.Member)) (e : List (Nat × List Model.Variants.Shown))
    (h : collect ver par ref vs ms = .ok e) :
    e.map (·.1) = (ms.filter fun p => spansMeet (Model.Variants.memberSpan p.2) (Model.Variants.hapSpan vs)).map (·.1)
    ∧ ∀ p ∈ e, ∃ m, (p.1, m) ∈ ms ∧ Model.Variants.incorporateMember ver par ref vs m = .ok p.2 := by
  have := collect_members ver par ref vs ms e h
  simpa only [spansOverlap_eq] using this

/-- the `cgranges` branch (members outermost, interval-tree query per member) fills every bucket exactly like the
    plain branch.  cgranges is not installed here, so this branch is covered by this theorem only, not by the
    correspondence run. -/
theorem haplotype_tree_branch (ver : Ver) (par : Par) (ref : Seq) (haps : List (List Var))
    (members : List Model.Variants.Member) (dP dT : Model.Variants.HapMap)
    (hP : Model.Variants.hapMapping ver par ref haps members = .ok dP)
    (hT : Model.Variants.hapMappingTree ver par ref haps (Model.Variants.chainOrder members) [] = .ok dT) :
    ∀ i, Model.Variants.bucket dT i = Model.Variants.bucket dP i :=
  tree_buckets_eq_plain ver par ref haps members dP dT hP hT

/-! ### T4 — VCF records: one variant per alternative allele (grouping itself: correspondence + `okVcf`) -/

theorem vcf_one_variant_per_alt (r : Model.Variants.VcfRec) :
    (vcfDicts r).length = r.alts.length
    ∧ ∀ d ∈ vcfDicts r, d.start = r.start ∧ d.«end» = (if r.start = r.«end» then r.«end» + 1 else r.«end») ∧ d.phase = r.ps := by
  refine ⟨by simp [vcfDicts], ?_⟩
  intro d hd
  simp only [vcfDicts, List.mem_map] at hd
  obtain ⟨a, _, rfl⟩ := hd
  exact ⟨rfl, rfl, rfl⟩

/-- T4 (one chromosome, ANY records with non-negative phase sets; `dictsOf recs` = one variant per ALT allele in record
    order): the call succeeds; the collections' variants are a permutation of all variants (each lies in exactly one
    collection); a collection is one unphased variant without id, or carries its phase set as id and only variants of
    that phase set; all variants of one phase set are in ONE collection. -/
theorem vcf_partition (chrom : List Char) (recs : List Model.Variants.VcfRec)
    (hps : ∀ r ∈ recs, ∀ n, r.ps = .val n → 0 ≤ n) :
    ∃ cs, vcfColls .current chrom recs = some cs
      ∧ (cs.flatMap (·.vars)).Perm (dictsOf recs)
      ∧ (∀ c ∈ cs, c.seqName = chrom ∧
            ((c.id = none ∧ ∃ d, c.vars = [d] ∧ d.phase = .absent)
             ∨ ∃ n, c.id = some (intStr n) ∧ c.vars ≠ [] ∧ ∀ d ∈ c.vars, d.phase = .val n))
      ∧ (∀ n, ∀ c1 ∈ cs, ∀ c2 ∈ cs, (∃ d ∈ c1.vars, d.phase = .val n) → (∃ e ∈ c2.vars, e.phase = .val n) → c1 = c2) :=
  vcfColls_partition chrom recs hps

/-- T4 (all chromosomes): `convert_vcf_records_to_model` AS IT IS never fails on such records, and every entry of its
    result is the collection list of one run of consecutive records of that chromosome (`vcf_partition` applies). -/
theorem vcf_total (recs : List Model.Variants.VcfRec) (hps : ∀ r ∈ recs, ∀ n, r.ps = .val n → 0 ≤ n) :
    ∃ out, convertVcf .current recs = some out
      ∧ ∀ p ∈ out, ∃ g ∈ groupRuns recs, p.1 = g.1 ∧ vcfColls .current g.1 g.2 = some p.2 :=
  convertVcf_total recs hps

/-- phase set 0 is a phase set like any other (the hypothesis of `vcf_partition` is `0 ≤ n`): two records phased with
    PS = 0 and one with PS = 3 give one collection per phase set -/
theorem vcf_ps_zero_witness :
    (vcfColls .current ['c'] [⟨['c'], 5, 6, .val 0, [(['A'], ['S'])]⟩, ⟨['c'], 7, 8, .val 3, [(['T'], ['S'])]⟩,
        ⟨['c'], 9, 12, .val 0, [(['A'], ['D'])]⟩]).map (fun cs => cs.map (fun c => c.vars.map (fun d => (d.start, d.phase))))
      = some [[(5, .val 0), (9, .val 0)], [(7, .val 3)]] := by
  decide

/-- since c293a73 a missing PS value is read like an absent PS field: the two records of the former finding F-C13c
    become two unphased singleton collections (before: the model had no answer — Python raised TypeError) -/
theorem vcf_missing_ps_witness :
    convertVcf .current [⟨['c'], 5, 6, .missing, [(['A'], ['S'])]⟩, ⟨['c'], 9, 12, .missing, [(['A'], ['D'])]⟩]
      = some [(['c'], [⟨none, ['c'], [⟨5, 6, ['A'], ['S'], .absent⟩]⟩, ⟨none, ['c'], [⟨9, 12, ['A'], ['D'], .absent⟩]⟩])]
    ∧ convertVcf .before [⟨['c'], 5, 6, .missing, [(['A'], ['S'])]⟩, ⟨['c'], 9, 12, .missing, [(['A'], ['D'])]⟩] = none := by
  refine ⟨by decide, by decide⟩

-- non-vacuity of the hypotheses
example : InWin (Par.chunk 100).off refW.length ⟨102, 106, ['C', 'A']⟩ := ⟨by decide, by decide, by decide⟩
example : ∃ r, lift1 .current (.chunk 100) refW ⟨102, 106, ['C', 'A']⟩
      (.compound ⟨[(101, 108), (108, 112), (120, 126)], .minus⟩) = .ok r ∧ r ≠ .empty := by
  have hasc : Asc [(101, 108), (108, 112), (120, 126)] := ⟨by decide, by decide⟩
  have hok : BlocksOk 100 refW.length ⟨102, 106, ['C', 'A']⟩ [(101, 108), (108, 112), (120, 126)] := by
    intro b hb
    simp only [List.mem_cons, List.mem_nil_iff, or_false] at hb
    rcases hb with rfl | rfl | rfl <;> decide
  obtain ⟨r, h1, h2⟩ := lift_any_blocks (.chunk 100) refW ⟨102, 106, ['C', 'A']⟩ .minus _
    ⟨by decide, by decide, by decide⟩ hasc hok (by simp)
  refine ⟨r, h1, ?_⟩
  rcases h2 with ⟨_, ht⟩ | ⟨hne, _⟩
  · exact absurd ht (by decide)
  · exact hne
example : Transparent ⟨13, 15, ['A', 'G']⟩ (3, 20) ∧ Transparent ⟨22, 24, []⟩ (3, 20) ∧ Clean ⟨13, 15, ['A', 'G']⟩ (3, 20) := by
  unfold Transparent; decide
example : CollOk 100 refW.length [⟨104, 105, ['T']⟩, ⟨122, 124, []⟩] ⟨125, 126, ['G', 'G']⟩ (101, 108)
    ∧ CollOk 100 refW.length [⟨104, 105, ['T']⟩] ⟨125, 126, ['G', 'G']⟩ (110, 112) := by
  refine ⟨⟨by decide, by decide, by decide, by decide, ?_⟩, ⟨by decide, by decide, by decide, by decide, ?_⟩⟩
  · intro u hu
    simp only [List.mem_cons, List.mem_nil_iff, or_false] at hu
    rcases hu with rfl | rfl <;> (unfold Transparent; decide)
  · intro u hu
    simp only [List.mem_cons, List.mem_nil_iff, or_false] at hu
    subst hu; unfold Transparent; decide
example : ∀ r ∈ ([⟨['c'], 5, 6, .val 7, [(['A'], ['S'])]⟩, ⟨['c'], 9, 9, .missing, [([], ['D']), (['T'], ['D'])]⟩] :
    List Model.Variants.VcfRec), ∀ n, r.ps = .val n → 0 ≤ n := by
  intro r hr n hn
  simp only [List.mem_cons, List.mem_nil_iff, or_false] at hr
  rcases hr with rfl | rfl
  · simp only [Model.Variants.PS.val.injEq] at hn; omega
  · simp at hn
example : Chain refW.length ([v1, v2].map (toEdit 0)) := by
  simp only [List.map, Chain, toEdit, v1, v2]; decide
example : Chain 26 ([⟨102, 106, ['C']⟩, ⟨113, 115, []⟩].map (toEdit 100)) := by
  simp only [List.map, Chain, toEdit]; decide
example : VarOk ⟨2, 6, 2⟩ ∧ BlkOk ⟨15, 24, .minus⟩ := by unfold VarOk BlkOk; decide
example : CleanAll refW.length v1 [(0, 8), (10, 12), (20, 26)] := by
  intro b hb
  simp only [List.mem_cons, List.mem_nil_iff, or_false] at hb
  rcases hb with rfl | rfl | rfl <;> decide
example : Clean ⟨2, 6, []⟩ (2, 6) ∧ nonEmpty (imageBlock refW [toEdit 0 ⟨2, 6, []⟩] (2, 6)) = none := by decide
example : lift1 .current .whole refW v1 (.single (15, 24) .minus) = .ok (.single (13, 22) .minus) := by rfl
example : (2 : Nat) + ([] : Seq).length ≤ 3 ∧ (5 : Nat) ≤ 6 ∧ ([] : Seq).length < 6 - 2 := by decide
example : okLift refW [toEdit 0 v1] .minus [(15, 24)]
    (some (some ⟨.minus, [(13, 22)], (slice (altSeq1 0 refW v1) (13, 22)).reverse.map complement⟩)) = .pass := by decide

end BioCantor.Props.C13
