import BioCantor.Spec.Variants
import BioCantor.Model.Variants
namespace BioCantor.Props.C13
end BioCantor.Props.C13
