/-
  C05 tie — `CDSInterval.construct_frames_from_location` (gene/cds.py) is REGENERATED from source on every run as
  `Gen.CDSInterval_construct_frames_from_location` (+ `_loop1`): the `num_blocks == 1` shortcut, the list
  comprehension over `location.scan_blocks()` with `[:-1]`, `sizes[0] -= starting_frame.value`, the loop
  `frames.append(frames[-1].shift(s))` from `[CDSFrame.ZERO]` (calling the generated `CDSFrame.shift`),
  `frames[0] = starting_frame` and the `[::-1]` on the minus strand.  The theorem says that on every location the
  CompoundInterval constructor accepts this generated definition returns the same frame list, and raises the
  corresponding class (InvalidStrandException on an unstranded location), as the hand-written
  `Model.constructFramesFromLocation` (Model/CDS.lean) used by the C05 / C12 models; in particular the IndexErrors of
  `sizes[0]`, `frames[-1]`, `frames[0]` are unreachable.  Only the theorem and its examples here; lemmas are in
  Proofs/LoopTiesCDS.lean.
-/
import BioCantor.Proofs.LoopTiesCDS
set_option autoImplicit false
namespace BioCantor.Props.C05Ties2
open BioCantor BioCantor.GenP BioCantor.Proofs BioCantor.Proofs.Ties BioCantor.Proofs.LoopTies

/-- F1: generated `construct_frames_from_location` = `Model.constructFramesFromLocation`, values and exception classes. -/
theorem construct_frames_from_location_tie (l : Loc) (hl : WF (.compound l)) (sf : CDSFrame) :
    Agree id (Gen.CDSInterval_construct_frames_from_location (toCI l) sf)
      (Model.constructFramesFromLocation (.compound l) sf) := by
  exact LoopTiesCDS.construct_frames_tie l hl.1 hl.2.1 sf

/-! the hypothesis is satisfiable; sanity facts on the docstring's example, each ALSO obtained from the real library
    (`CDSInterval.construct_frames_from_location(CompoundInterval([0,7,12],[5,11,18],strand), frame)`) -/
def exPlus : Loc := ⟨[(0, 5), (7, 11), (12, 18)], .plus⟩
def exMinus : Loc := ⟨[(0, 5), (7, 11), (12, 18)], .minus⟩
example : WF (.compound exPlus) ∧ WF (.compound exMinus) := by decide
example : Gen.CDSInterval_construct_frames_from_location (toCI exPlus) .ZERO = .ok [.ZERO, .TWO, .ZERO] := by decide
example : Gen.CDSInterval_construct_frames_from_location (toCI exPlus) .ONE = .ok [.ONE, .ONE, .TWO] := by decide
example : Gen.CDSInterval_construct_frames_from_location (toCI exPlus) .TWO = .ok [.TWO, .ZERO, .ONE] := by decide
example : Gen.CDSInterval_construct_frames_from_location (toCI exPlus) .NONE = .ok [.NONE, .ZERO, .ONE] := by decide
example : Gen.CDSInterval_construct_frames_from_location (toCI exMinus) .ZERO = .ok [.ONE, .ZERO, .ZERO] := by decide
example : Gen.CDSInterval_construct_frames_from_location (toCI exMinus) .ONE = .ok [.ZERO, .TWO, .ONE] := by decide
example : Gen.CDSInterval_construct_frames_from_location (toCI exMinus) .TWO = .ok [.TWO, .ONE, .TWO] := by decide
example : Gen.CDSInterval_construct_frames_from_location (toCI ⟨exPlus.blocks, .unstranded⟩) .ZERO
    = .error .InvalidStrandException := by decide
example : Gen.CDSInterval_construct_frames_from_location (toCI ⟨[(3, 9)], .minus⟩) .TWO = .ok [.TWO] := by decide

end BioCantor.Props.C05Ties2
