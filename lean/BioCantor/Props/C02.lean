/-
  C02 — Location set algebra equals position-set semantics; results are normalised.

  Property theorems only (helper lemmas live in BioCantor/Proofs/Alg*.lean).  Every theorem has the shape
      `Spec.okX input (ans (Model.fP input)) = true`
  for ALL well-formed located inputs (`WFP`: what the constructors establish — any number of blocks, zero-length,
  adjacent, nested and duplicate blocks included; any parent chain; end inside the parent's sequence), all strands
  and all flag values.  `Spec.okX` (Spec/Algebra.lean) is the property clause as a decidable predicate on
  (input, answer) pairs in position-set semantics; the same predicate is evaluated on the answers of the real library
  by the check.  `ans` turns a result into the observable answer (`some v` / `none` = raised).

  Two corners of the current code deviate from the property and are recorded as findings; the theorems exclude exactly
  those inputs and a `decide`d witness shows that the modelled code deviates there:
    * `EmptyArgQuirk a b ms`   (F-C02c)  receiver without parent, EmptyLocation argument, match_strand=True
    * `OneSidedParent a b`     (F-C19j)  union with a parent-less receiver and an argument that has a parent
-/
import BioCantor.Proofs.AlgOverlap
namespace BioCantor.Props.C02
open BioCantor BioCantor.Spec BioCantor.Model BioCantor.Proofs

/-- T1: `has_overlap` ⇔ some position is covered by both operands (by both full spans with `full_span`), `False`
    for incompatible parents and — under `match_strand` — different strands; `strict_parent_compare` turns
    incompatible parents into a refusal. All layouts (self-overlapping included). -/
theorem overlap_spec (a b : PLoc) (ha : WFP a) (hb : WFP b) (ms fs strict : Bool) (hq : ¬ EmptyArgQuirk a b ms) :
    okOverlap a b ms fs strict (ans (hasOverlapP a b ms fs strict)) = true :=
  hasOverlapP_ok a b ha hb ms fs strict hq

/-- F-C02c witness: on the excluded corner the modelled code raises although the property demands `False`. -/
theorem overlap_emptyArg_deviates :
    okOverlap (.single (0, 5) .plus, []) (.empty, []) true false false
      (ans (hasOverlapP (.single (0, 5) .plus, []) (.empty, []) true false false)) = false := by
  decide

-- non-vacuity of the hypotheses: a minus-strand layout with a zero-length block, a 0-bp gap and a nested block, on a
-- parent with sequence and a grand-parent
example : WFP (.compound ⟨[(0, 5), (2, 3), (5, 7), (5, 5)], .minus⟩,
    [(some "chrA", none, some ['A', 'C', 'G', 'T', 'A', 'C', 'G']), (some "g1", none, none)]) := by decide
example : ¬ EmptyArgQuirk (.single (0, 5) .plus, [(some "chrA", none, none)]) (.empty, []) true := by decide

end BioCantor.Props.C02
