/-
  C02 — Location set algebra equals position-set semantics; results are normalised.
  (work in progress: theorems are added as their proofs land in BioCantor/Proofs/Alg*.lean)
-/
import BioCantor.Spec.Algebra
import BioCantor.Model.Algebra
namespace BioCantor.Props.C02
open BioCantor

end BioCantor.Props.C02
