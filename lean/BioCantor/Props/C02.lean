/-
  C02 — Location set algebra equals position-set semantics; results are normalised.

  Property theorems only (helper lemmas live in BioCantor/Proofs/Alg*.lean).  Every theorem has the shape
      `Spec.okX input (ans (Model.fP input)) = true`
  for ALL well-formed located inputs (`WFP`: what the constructors establish — any number of blocks, zero-length,
  adjacent, nested and duplicate blocks included; any parent chain; end inside the parent's sequence), all strands
  and all flag values.  `Spec.okX` (Spec/Algebra.lean) is the property clause as a decidable predicate on
  (input, answer) pairs in position-set semantics; the same predicate is evaluated on the answers of the real library
  by the check.  `ans` turns a result into the observable answer (`some v` / `none` = raised).

  Both corners on which the code used to deviate from the property are repaired in /repo and the theorems hold
  without exclusions; the old failing inputs are kept as regression facts:
    * F-C02c (`fix:` d8ea142)  receiver without parent, EmptyLocation argument, match_strand=True used to raise
      EmptyLocationException from has_overlap / intersection / contains / minus  — `emptyArg_regression`
    * F-C19j (`fix:` 7aedbe9)  one-sided parent test of `union` / `union_preserve_overlaps` — `union_oneSided_refused`
-/
import BioCantor.Proofs.AlgOverlap
import BioCantor.Proofs.AlgIntersect
import BioCantor.Proofs.AlgGaps
import BioCantor.Proofs.AlgUnion
import BioCantor.Proofs.AlgExtend
import BioCantor.Proofs.AlgDistance
import BioCantor.Proofs.AlgMisc
import BioCantor.Proofs.AlgMinus
import BioCantor.Proofs.AlgContains
import BioCantor.Proofs.AlgSort
import BioCantor.Proofs.AlgCgranges
import BioCantor.Proofs.AlgEq
set_option autoImplicit false   -- an unresolved name in a statement must be an error, never a bound variable
namespace BioCantor.Props.C02
open BioCantor BioCantor.Spec BioCantor.Model BioCantor.Proofs

/-- T1: `has_overlap` ⇔ some position is covered by both operands (by both full spans with `full_span`), `False`
    for incompatible parents and — under `match_strand` — different strands; `strict_parent_compare` turns
    incompatible parents into a refusal. All layouts (self-overlapping included). -/
theorem overlap_spec (a b : PLoc) (ha : WFP a) (hb : WFP b) (ms fs strict : Bool) :
    okOverlap a b ms fs strict (ans (hasOverlapP a b ms fs strict)) = true :=
  hasOverlapP_ok a b ha hb ms fs strict

/-- F-C02c regression: with a parent-less receiver, an EmptyLocation argument and `match_strand=True` the code used to
    raise EmptyLocationException; the repaired code answers `False` / `EmptyLocation` / `False` / the receiver. -/
theorem emptyArg_regression :
    ans (hasOverlapP (.single (0, 5) .plus, []) (.empty, []) true false false) = some false ∧
    ans (intersectionP (.single (0, 5) .plus, []) (.empty, []) true false false) = some (.empty, []) ∧
    ans (containsP (.compound ⟨[(0, 3), (7, 9)], .plus⟩, []) (.empty, []) true true false) = some false ∧
    ans (minusP (.single (0, 5) .plus, []) (.empty, []) true false) = some (.single (0, 5) .plus, []) :=
  ⟨rfl, rfl, rfl, rfl⟩

/-- T2: the intersection covers exactly the positions common to both operands (common to both full spans with
    `full_span`), is on the receiver's strand, well formed, inside the parent's sequence, has the receiver's parent
    (up to "equal except location"), and has no empty block; incompatible parents and — under `match_strand` —
    different strands give `EmptyLocation`; `strict_parent_compare` refuses incompatible parents. All layouts. -/
theorem intersection_spec (a b : PLoc) (ha : WFP a) (hb : WFP b) (ms fs strict : Bool) :
    okIntersection a b ms fs strict (ans (intersectionP a b ms fs strict)) = true :=
  intersectionP_ok a b ha hb ms fs strict

/-- T2 (normal form): for operands that are not self-overlapping, and for the span variant, no block of the
    intersection ends where the next one begins. -/
theorem intersection_normal (a b : PLoc) (ha : WFP a) (hb : WFP b) (ms fs strict : Bool) :
    okIntersectionNormal a b fs (ans (intersectionP a b ms fs strict)) = true :=
  intersectionP_normal a b ha hb ms fs strict

/-- T7a: `optimize_blocks` keeps the multiset of covered positions, drops every empty block, returns a
    SingleInterval for one block / EmptyLocation for none, keeps strand and parent, and yields the normal form for
    layouts that are not self-overlapping. -/
theorem optimize_spec (a : PLoc) (ha : WFP a) : okOptimize a (ans (optimizeBlocksP a)) = true :=
  optimizeBlocksP_ok a ha

/-- T7b: `optimize_and_combine_blocks` keeps the covered set and yields ascending non-empty blocks separated by at
    least one position (all layouts, nested blocks included — F-C02b repaired). -/
theorem optimizeAndCombine_spec (a : PLoc) (ha : WFP a) :
    okOptCombine a (ans (optimizeAndCombineP a)) = true :=
  optimizeAndCombineP_ok a ha

/-- T4: for a subtrahend that is not self-overlapping, `a.minus(b)` covers exactly the positions of `a` that are not
    positions of `b` (all of `a` when the parents are incompatible or — under `match_strand` — the strands differ),
    on the strand and parent of `a`, well formed, inside the parent's sequence; `a` may be any layout. For a
    self-overlapping subtrahend (outside the property's claim) the call may refuse, and whatever it returns is well
    formed. -/
theorem minus_spec (a b : PLoc) (ha : WFP a) (hb : WFP b) (ms strict : Bool) :
    okMinus a b ms strict (ans (minusP a b ms strict)) = true :=
  minusP_ok a b ha hb ms strict

/-- T5: for operands that are not self-overlapping (for every layout in the span variant) `a.contains(b)` ⇔ `b` has a
    position and every position of `b` is a position of `a` (of the full spans with `full_span`), gated by strand and
    parents; outside that domain (the code counts with multiplicity) the call still answers a boolean. -/
theorem contains_spec (a b : PLoc) (ha : WFP a) (hb : WFP b) (ms fs strict : Bool) :
    okContains a b ms fs strict (ans (containsP a b ms fs strict)) = true :=
  containsP_ok a b ha hb ms fs strict

/-- T6: `gaps_location` covers exactly the uncovered positions between the first and the last non-empty block
    (`EmptyLocation` when there is none); an unstranded multi-block location is refused. -/
theorem gaps_spec (a : PLoc) (ha : WFP a) : okGaps a (ans (gapsLocationP a)) = true :=
  gapsLocationP_ok a ha

/-- T6: `gap_list` lists the same gaps as single intervals on the location's strand in 5'→3' order. -/
theorem gapList_spec (a : PLoc) (ha : WFP a) : okGapList a (ans (gapListP a)) = true :=
  gapListP_ok a ha

/-- T3: the union covers exactly the positions of either operand, keeps strand and parent, is well formed and inside
    the parent's sequence; it is refused exactly for EmptyLocation operands, different strands and incompatible
    parents (in either order). All layouts and shapes (single/compound in either order, compound ∪ compound through
    the sorted block-by-block merge). -/
theorem union_spec (a b : PLoc) (ha : WFP a) (hb : WFP b) :
    okUnion a b (ans (unionP a b)) = true :=
  unionP_ok a b ha hb

/-- T3 (disjointness): operands that are not self-overlapping give a union whose blocks do not overlap. -/
theorem union_disjoint (a b : PLoc) (ha : WFP a) (hb : WFP b) :
    okUnionDisjoint a b (ans (unionP a b)) = true :=
  unionP_disjoint a b ha hb

/-- F-C19j regression: before the repair a parent-less receiver was combined with a location on any parent (and the
    overlapping blocks were left unmerged); the repaired code refuses, in both orders. -/
theorem union_oneSided_refused :
    ans (unionP (.single (0, 5) .plus, []) (.single (3, 8) .plus, [(some "b", none, none)])) = none ∧
    ans (unionP (.single (3, 8) .plus, [(some "b", none, none)]) (.single (0, 5) .plus, [])) = none ∧
    ans (unionPreserveP (.single (0, 5) .plus, []) (.single (3, 8) .plus, [(some "b", none, none)])) = none := by
  decide

/-- T3': `union_preserve_overlaps` keeps the multiset of covered positions of both operands together, drops empty
    blocks, and is in normal form when the blocks of both operands together do not overlap; refusals as for union. -/
theorem unionPreserve_spec (a b : PLoc) (ha : WFP a) (hb : WFP b) :
    okUnionPreserve a b (ans (unionPreserveP a b)) = true :=
  unionPreserveP_ok a b ha hb

/-- T7c: `merge_overlapping` returns a location that is not self-overlapping unchanged, and otherwise one with the
    same covered set whose blocks do not overlap. -/
theorem mergeOverlapping_spec (a : PLoc) (ha : WFP a) :
    okMergeOverlapping a (ans (mergeOverlappingP a)) = true :=
  mergeOverlappingP_ok a ha

/-- T8: `extend_absolute` covers the old positions plus the two flanks; it is refused exactly when a distance is
    negative, a flank would start below 0 or end beyond the parent's sequence, or the location is EmptyLocation. -/
theorem extendAbsolute_spec (a : PLoc) (ha : WFP a) (es ee : Int) :
    okExtendAbs a es ee (ans (extendAbsoluteP a es ee)) = true :=
  extendAbsoluteP_ok a ha es ee

/-- T8 (normal form): a CompoundInterval that is not self-overlapping is extended to a location in normal form. -/
theorem extendAbsolute_normal (a : PLoc) (ha : WFP a) (es ee : Int) :
    okExtendAbsNormal a (ans (extendAbsoluteP a es ee)) = true :=
  extendAbsoluteP_normal a ha es ee

/-- T8: `extend_relative` is `extend_absolute` with the arguments swapped on the minus strand and needs a direction. -/
theorem extendRelative_spec (a : PLoc) (ha : WFP a) (up down : Int) :
    okExtendRel a up down (ans (extendRelativeP a up down)) = true :=
  extendRelativeP_ok a ha up down

/-- T9: `distance_to` is the documented function of the end points (STARTS, ENDS, OUTER) / 0 for overlapping
    operands and otherwise the smallest block-to-block gap (INNER); refused for EmptyLocation operands and for
    incompatible parents. All layouts. -/
theorem distance_spec (a b : PLoc) (ha : WFP a) (hb : WFP b) (ty : DistType) :
    okDistance a b (distCode ty) (ans (distanceP a b ty)) = true :=
  distanceP_ok a b ha hb ty

/-- T10a: `reverse` keeps the span, mirrors the block structure inside it and flips the strand. -/
theorem reverse_spec (a : PLoc) (ha : WFP a) : okReverse a (ans (reverseP a)) = true :=
  reverseP_ok a ha

/-- T10b: `reverse_strand` keeps the blocks and flips the strand. -/
theorem reverseStrand_spec (a : PLoc) (ha : WFP a) : okReverseStrand a (ans (reverseStrandP a)) = true :=
  reverseStrandP_ok a ha

/-- T10c: `reset_strand` keeps the blocks and sets the strand (EmptyLocation refuses). -/
theorem resetStrand_spec (a : PLoc) (ha : WFP a) (ns : Strand) :
    okResetStrand a ns (ans (resetStrandP a ns)) = true :=
  resetStrandP_ok a ha ns

/-- T10d: `shift_position` moves every block by `k`; refused exactly when the result would start below 0 or end
    beyond the parent's sequence. -/
theorem shift_spec (a : PLoc) (ha : WFP a) (k : Int) : okShift a k (ans (shiftP a k)) = true :=
  shiftP_ok a ha k

/-- T11a (`SingleInterval.compare` / `__lt__`): the comparison used by `sorted(blocks)` in compound ∪ compound is a
    strict weak order on the key (parent id or `""`, start, end): irreflexive, transitive, and two blocks neither of
    which is less than the other have the same key — so the stable sort is well defined. -/
theorem compare_strict_weak_order :
    (∀ x, singleLt x x = false) ∧
    (∀ x y z, singleLt x y = true → singleLt y z = true → singleLt x z = true) ∧
    (∀ x y, singleLt x y = false → singleLt y x = false → Proofs.Sort.key x = Proofs.Sort.key y) :=
  Proofs.Sort.singleLt_strict_weak

/-- T11b: `sorted(blocks)` returns a permutation of the blocks in which no later block is less than an earlier one. -/
theorem sorted_blocks_sorted (l : List (Blk × PKey)) :
    (sortSingles l).Perm l ∧ (sortSingles l).Pairwise (fun x y => singleLt y x = false) :=
  ⟨Proofs.Sort.sortSingles_perm l, Proofs.Sort.sortSingles_sorted l⟩

/-- T11c: with compatible parents (the only case that reaches the sort since the two-sided parent test) compound ∪
    compound merges the blocks of both operands in `(start, end)` order — the order of the plus-strand constructor. -/
theorem unionCC_merge_order (la lb : List Blk) (pa pb : PKey) (h : sameParent pa pb = true) :
    (sortSingles (la.map (fun x => (x, pa)) ++ lb.map (fun x => (x, pb)))).map (·.1) =
      sortBlocks .plus (la ++ lb) :=
  Proofs.Sort.unionCC_order la lb pa pb h

/-- T12a (cgranges branch of `_intersection_compound_interval`, proof only — cgranges is not installed): when no
    block of either operand is zero-length the interval-tree branch returns exactly what the pairwise branch returns
    (for which `intersection_spec` is proved). Assumes the documented query semantics `s < en ∧ st < e`. -/
theorem cgranges_branch_eq_pairwise (la lb : Loc) (ms fs : Bool)
    (hva : ∀ x ∈ la.blocks, x.1 < x.2) (hvb : ∀ y ∈ lb.blocks, y.1 < y.2) :
    isectCCcgr la lb ms fs = isectCC la lb ms fs :=
  Proofs.Cgr.isectCCcgr_eq la lb ms fs hva hvb

/-- T12b: with a zero-length block strictly inside a block of the other operand the cgranges branch raises
    EmptyLocationException (the tree reports the pair, its intersection is EmptyLocation, `.start` raises) where the
    pairwise branch answers the intersection — a latent difference between the two branches of the source. -/
theorem cgranges_branch_zero_length_raises :
    isectCCcgr ⟨[(2, 2), (5, 8)], .plus⟩ ⟨[(0, 10)], .plus⟩ true false = .error .EmptyLocation ∧
    isectCC ⟨[(2, 2), (5, 8)], .plus⟩ ⟨[(0, 10)], .plus⟩ true false = .ok (.single (5, 8) .plus) :=
  Proofs.Cgr.isectCCcgr_zero_length_raises

/-- T13a (`__eq__` / `__hash__`): two locations are equal iff they are of the same kind (a one-block CompoundInterval
    is not a SingleInterval), have the same blocks in the same order, the same strand and parents equal except
    location; and equal locations have equal hash tuples. -/
theorem eq_hash_spec (a b : PLoc) (ha : WFP a) (hb : WFP b) : okEq a b (some (eqHashP a b)) = true :=
  Proofs.Eq.eqHashP_ok a b ha hb

/-- T13b: `==` is reflexive and symmetric … -/
theorem eq_refl_symm (a b : PLoc) (ha : WFP a) (hb : WFP b) :
    locEqP a a = true ∧ locEqP a b = locEqP b a :=
  ⟨Proofs.Eq.locEqP_refl a ha, Proofs.Eq.locEqP_symm a b ha hb⟩

/-- T13c: … but not transitive: a parent with grand-parent g1, the same parent without grand-parent, and the same parent
    with grand-parent g2 (grand-parents are compared only when both are known). The hashes of all three coincide. -/
theorem eq_not_transitive :
    ∃ a b c : PLoc, WFP a ∧ WFP b ∧ WFP c ∧ locEqP a b = true ∧ locEqP b c = true ∧ locEqP a c = false :=
  Proofs.Eq.locEqP_not_transitive

-- non-vacuity of the hypotheses: a minus-strand layout with a zero-length block, a 0-bp gap and a nested block, on a
-- parent with sequence and a grand-parent
example : WFP (.compound ⟨[(0, 5), (2, 3), (5, 7), (5, 5)], .minus⟩,
    [(some "chrA", none, some ['A', 'C', 'G', 'T', 'A', 'C', 'G']), (some "g1", none, none)]) := by decide

end BioCantor.Props.C02
