/-
  C02 ties — the hand-written model functions of Model/Algebra.lean that have a straight-line SingleInterval core
  agree, on every input, with the kernels REGENERATED from /repo's location_impl.py on every run
  (tools/translate.py → Gen/Kernels.lean): `SingleInterval.extend_absolute`, `extend_relative`, `shift_position`,
  `optimize_blocks`, `reset_strand`, `reverse_strand`, `reverse`, `reset_parent`, `distance_to`,
  `_distance_to_single_interval`, `_has_overlap_single_interval`, `_intersection_single_interval`.  A change of one of these Python methods that
  alters behaviour changes the generated definition and makes the corresponding theorem fail to compile.

  The generated kernels see a SingleInterval without its parent.  The model's parent bookkeeping is factored out by
  the `…_parent_factor` theorems: model with parent = parent-less model, then the end-bound test against the parent's
  sequence (`Model.checkEnd`, the `end > len(parent.sequence)` test of `SingleInterval.__init__`), then the parent is
  attached.  Vocabulary as in Props/C01Ties.lean (`Agree`, `si`, `siLoc`, `mapExc`); `siPLoc s = (siLoc s, [])`;
  `optLoc none = EmptyLocation`, `optLoc (some s) = siLoc s`.
  Only `theorem` declarations here; the proofs are in Proofs/AlgTies.lean.
-/
import BioCantor.Proofs.AlgTies
set_option autoImplicit false   -- an unresolved name in a statement must be an error, never a bound variable
namespace BioCantor.Props.C02Ties
open BioCantor BioCantor.GenP BioCantor.Proofs.Ties BioCantor.Proofs.AlgTies BioCantor.Model

/-- T1: `SingleInterval.extend_absolute` — generated kernel = `Model.extendAbsoluteP` on a parent-less single
    interval: same interval, ValueError for a negative distance, InvalidPosition for a start below 0
    (every pair of naturals, every strand, all integer distances). -/
theorem extend_absolute_tie (b : Blk) (st : Strand) (es ee : Int) :
    Agree siPLoc (Gen.SingleInterval_extend_absolute (si b st) es ee)
      (extendAbsoluteP (.single b st, []) es ee) :=
  Proofs.AlgTies.extend_absolute b st es ee

/-- T1': with a parent the model is the parent-less computation followed by the end-bound test and the parent. -/
theorem extend_absolute_parent_factor (b : Blk) (st : Strand) (par : PKey) (es ee : Int) :
    extendAbsoluteP (.single b st, par) es ee =
      (extendAbsoluteP (.single b st, []) es ee >>= fun r =>
        checkEnd ((b.2 : Int) + ee) par >>= fun _ => pure (r.1, par)) :=
  Proofs.AlgTies.extend_absolute_parent_factor b st par es ee

/-- T2: `SingleInterval.shift_position` — generated kernel = `Model.shiftP` on a parent-less single interval. -/
theorem shift_position_tie (b : Blk) (st : Strand) (k : Int) :
    Agree siPLoc (Gen.SingleInterval_shift_position (si b st) k) (shiftP (.single b st, []) k) :=
  Proofs.AlgTies.shift_position b st k

/-- T2': parent bookkeeping of `shift_position`. -/
theorem shift_position_parent_factor (b : Blk) (st : Strand) (par : PKey) (k : Int) :
    shiftP (.single b st, par) k =
      (shiftP (.single b st, []) k >>= fun r => checkEnd ((b.2 : Int) + k) par >>= fun _ => pure (r.1, par)) :=
  Proofs.AlgTies.shift_position_parent_factor b st par k

/-- T3: `SingleInterval.optimize_blocks` — generated kernel = `Model.optimizeBlocks`: EmptyLocation for a
    zero-length interval, the interval itself otherwise; never raises. -/
theorem optimize_blocks_tie (b : Blk) (hb : b.1 ≤ b.2) (st : Strand) :
    Agree optLoc (Gen.SingleInterval_optimize_blocks (si b st)) (optimizeBlocks (.single b st)) :=
  Proofs.AlgTies.optimize_blocks b hb st

/-- T3': parent bookkeeping of `optimize_blocks` (EmptyLocation has no parent). -/
theorem optimize_blocks_parent_factor (b : Blk) (st : Strand) (par : PKey) :
    optimizeBlocksP (.single b st, par) = (optimizeBlocks (.single b st) >>= fun r => pure (withPar r par)) :=
  Proofs.AlgTies.optimize_blocks_parent_factor b st par

/-- T4: `SingleInterval._has_overlap_single_interval` never raises and returns `Model.overlapKernel`, the test used
    by every block loop of Model/Algebra.lean (intersection, union, minus, contains, distance). -/
theorem overlap_kernel_tie (a b : Blk) (ha : a.1 ≤ a.2) (hb : b.1 ≤ b.2) (sa sb : Strand) :
    Gen.SingleInterval_has_overlap_single_interval (si a sa) (si b sb) = .ok (overlapKernel a b) :=
  Proofs.AlgTies.overlap_kernel a b ha hb sa sb

/-- T5a: `SingleInterval._intersection_single_interval` = the model's constructor call on `Model.isectBlk`
    (`(max starts, min ends)` on self's strand; InvalidPosition exactly when that block would be inverted). -/
theorem intersection_kernel_tie (a b : Blk) (sa sb : Strand) :
    Agree siLoc (Gen.SingleInterval_intersection_single_interval (si a sa) (si b sb))
      (mkSingleN (isectBlk a b) sa) :=
  Proofs.AlgTies.intersection_kernel a b sa sb

/-- T5b: on overlapping blocks — the only place where the block loops take `isectBlk` — the kernel returns exactly
    `isectBlk a b`, and that block is non-empty. -/
theorem intersection_kernel_of_overlap (a b : Blk) (sa sb : Strand) (h : overlapKernel a b = true) :
    Gen.SingleInterval_intersection_single_interval (si a sa) (si b sb) = .ok (si (isectBlk a b) sa) ∧
      (isectBlk a b).1 < (isectBlk a b).2 :=
  Proofs.AlgTies.intersection_kernel_of_overlap a b sa sb h

/-- T5c: the model's `SingleInterval.intersection(other: SingleInterval)` (`Model.isectSS`) is exactly the strand
    gate followed by the two generated kernels. -/
theorem isectSS_from_kernels (a b : Blk) (ha : a.1 ≤ a.2) (hb : b.1 ≤ b.2) (sa sb : Strand) (ms : Bool) :
    Agree optLoc
      (if ms = true ∧ sa ≠ sb then .ok none
       else match Gen.SingleInterval_has_overlap_single_interval (si a sa) (si b sb) with
         | .error e => .error e
         | .ok false => .ok none
         | .ok true => (Gen.SingleInterval_intersection_single_interval (si a sa) (si b sb)).map some)
      (isectSS a sa b sb ms) :=
  Proofs.AlgTies.isectSS_from_kernels a b ha hb sa sb ms

/-- T6: `SingleInterval.extend_relative` — generated kernel (its calls of the generated `Strand.assert_directional` and
    `extend_absolute` included) = `Model.extendRelativeP` on a parent-less single interval: InvalidStrand for an
    unstranded interval, arguments swapped on the minus strand, then T1. -/
theorem extend_relative_tie (b : Blk) (st : Strand) (up down : Int) :
    Agree siPLoc (Gen.SingleInterval_extend_relative (si b st) up down)
      (extendRelativeP (.single b st, []) up down) :=
  Proofs.AlgTies.extend_relative b st up down

/-- T6': with a parent, `extend_relative` is the direction test followed by `extend_absolute` with that parent (T1'). -/
theorem extend_relative_parent_factor (b : Blk) (st : Strand) (par : PKey) (up down : Int) :
    extendRelativeP (.single b st, par) up down =
      (assertDirectional st >>= fun _ =>
        if st = .plus then extendAbsoluteP (.single b st, par) up down
        else extendAbsoluteP (.single b st, par) down up) :=
  Proofs.AlgTies.extend_relative_parent_factor b st par up down

/-- T7a: `SingleInterval.reset_strand` — generated kernel = `Model.resetStrandP` on a parent-less single interval
    (every pair of naturals: the re-run constructor test is part of both sides). -/
theorem reset_strand_tie (b : Blk) (st ns : Strand) :
    Agree siPLoc (Gen.SingleInterval_reset_strand (si b st) ns) (resetStrandP (.single b st, []) ns) :=
  Proofs.AlgTies.reset_strand b st ns

/-- T7b: on a constructor-valid interval the kernel never raises and is `Model.resetStrand` of Model/Location.lean
    (the parent-less function used by `intersection` for the strand reset). -/
theorem reset_strand_loc_tie (b : Blk) (hb : b.1 ≤ b.2) (st ns : Strand) :
    Agree siLoc (Gen.SingleInterval_reset_strand (si b st) ns) (Model.resetStrand (.single b st) ns) :=
  Proofs.AlgTies.reset_strand_loc b hb st ns

/-- T7': parent bookkeeping of `reset_strand`. -/
theorem reset_strand_parent_factor (b : Blk) (st ns : Strand) (par : PKey) :
    resetStrandP (.single b st, par) ns =
      (resetStrandP (.single b st, []) ns >>= fun r => checkEnd (b.2 : Int) par >>= fun _ => pure (r.1, par)) :=
  Proofs.AlgTies.reset_strand_parent_factor b st ns par

/-- T8a: `SingleInterval.reverse_strand` — generated kernel (calling the generated `Strand.reverse` and
    `reset_strand`) = `Model.reverseStrandP`: same block on `Model.strandReverse st`. -/
theorem reverse_strand_tie (b : Blk) (st : Strand) :
    Agree siPLoc (Gen.SingleInterval_reverse_strand (si b st)) (reverseStrandP (.single b st, [])) :=
  Proofs.AlgTies.reverse_strand b st

/-- T8b: `SingleInterval.reverse` — generated kernel = `Model.reverseP` (for a single interval `reverse` is
    `reverse_strand`). -/
theorem reverse_tie (b : Blk) (st : Strand) :
    Agree siPLoc (Gen.SingleInterval_reverse (si b st)) (reverseP (.single b st, [])) :=
  Proofs.AlgTies.reverse b st

/-- T8': parent bookkeeping of `reverse` / `reverse_strand`. -/
theorem reverse_parent_factor (b : Blk) (st : Strand) (par : PKey) :
    reverseP (.single b st, par) = reverseStrandP (.single b st, par) ∧
    reverseStrandP (.single b st, par) =
      (reverseStrandP (.single b st, []) >>= fun r => checkEnd (b.2 : Int) par >>= fun _ => pure (r.1, par)) :=
  Proofs.AlgTies.reverse_parent_factor b st par

/-- T9a: `SingleInterval.reset_parent` (parent-less view: the re-built interval) = the model's constructor
    `Model.mkSingleP` on the same coordinates and strand … -/
theorem reset_parent_tie (b : Blk) (st : Strand) :
    Agree siPLoc (Gen.SingleInterval_reset_parent (si b st)) (mkSingleP b.1 b.2 st []) :=
  Proofs.AlgTies.reset_parent b st

/-- T9b: … hence the identity on every constructor-valid interval: `reset_parent(None)` in `Location.contains` never
    raises and leaves start / end / strand unchanged, which is how `Model.containsP` treats it. -/
theorem reset_parent_identity (b : Blk) (hb : b.1 ≤ b.2) (st : Strand) :
    Gen.SingleInterval_reset_parent (si b st) = .ok (si b st) :=
  Proofs.AlgTies.reset_parent_id b hb st

/-- T10a: `SingleInterval._distance_to_single_interval` for the two distance types it implements: INNER is
    `Model.innerSS` (0 when the generated overlap kernel holds, else the smaller end-to-start gap), OUTER is the
    larger of `|start − other.end|`, `|end − other.start|` — the formula of `Model.distanceP`. Never raises. -/
theorem distance_to_single_interval_tie (a b : Blk) (ha : a.1 ≤ a.2) (hb : b.1 ≤ b.2) (sa sb : Strand) :
    Gen.SingleInterval_distance_to_single_interval (si a sa) (si b sb) .INNER = .ok ((innerSS a b : Nat) : Int) ∧
    Gen.SingleInterval_distance_to_single_interval (si a sa) (si b sb) .OUTER =
      .ok ((max (absDiff a.1 b.2) (absDiff a.2 b.1) : Nat) : Int) :=
  Proofs.AlgTies.distance_to_single_interval a b ha hb sa sb

/-- T10b: `SingleInterval.distance_to` between two parent-less single intervals, all four distance types
    (`genDist` maps the model's `DistType` to the generated `DistanceType`): model and kernel both answer, with the same
    (non-negative) value; neither raises. -/
theorem distance_to_tie (a b : Blk) (ha : a.1 ≤ a.2) (hb : b.1 ≤ b.2) (sa sb : Strand) (ty : DistType) :
    ∃ d : Nat, distanceP (.single a sa, []) (.single b sb, []) ty = .ok d ∧
      Gen.SingleInterval_distance_to (si a sa) (si b sb) (genDist ty) = .ok (d : Int) :=
  Proofs.AlgTies.distance_to a b ha hb sa sb ty

end BioCantor.Props.C02Ties
