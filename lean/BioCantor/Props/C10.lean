/-
  C10 — answers do not depend on call history; operations never change their operands.

  The theorems are about the cache / laziness / aliasing DISCIPLINES the library uses (Model/Cache.lean),
  for every history of calls (induction over the call list), every capacity and every pure underlying function.
  That each memoised Python function is itself pure is the business of the other properties' models and is
  sampled on the real objects by the `hist` operations of harness/props/c10.py.

  Two clauses of the property FAILED on the originally pinned code and were repaired in /repo; the main theorems
  (T4, T5) are about the code as it is, the old behaviour is kept as decided before-repair regression facts:
    F-C10a  (a04ad26, 588ca9c) `CDSInterval.extract_sequence()` returned `str` once the codon locations were listed
    F-C10b  (b1a89c3) `_merge_qualifiers` copied the dict but not its sets: an export added the parent's values to
            the interval's own qualifier sets
  Still open (finding F-C10c): the untyped `lru_cache` keys make `'chromosome'` and `SequenceType.CHROMOSOME` one key.
  The LRU theorems below are stated for an `f` that is a function of the KEY (as `DecidableEq` sees it); F-C10c is
  exactly a case where the cached Python function is not: it distinguishes two arguments that `==`/`hash` identify.
-/
import BioCantor.Proofs.CacheLru
import BioCantor.Proofs.CacheState
namespace BioCantor.Props.C10
open BioCantor BioCantor.Model.Cache BioCantor.Proofs.Cache
open BioCantor.Spec.Cache (Ev Ans CdsOp recent expectEv expectEvs expectEvsObj okLru okMemo freshAns okCdsHist)

/-! ## T1 — `functools.lru_cache`: hits, misses and evictions are unobservable -/

/-- T1: for EVERY history of calls, every capacity (0 = caching disabled) and every pure `f`, the memoised
    function answers exactly what `f` answers. -/
theorem lru_refines {κ ν : Type} [DecidableEq κ] (f : κ → ν) (cap : Nat) (ops : List κ) :
    outputs (run f cap [] ops) = ops.map f :=
  (run_outputs ops (sound_nil f)).1

/-- T1 from a warm cache: the same holds starting from ANY store whose pairs are `(k, f k)` — e.g. the store
    left behind by an arbitrary earlier history (`lru_sound_after`). -/
theorem lru_refines_warm {κ ν : Type} [DecidableEq κ] (f : κ → ν) (cap : Nat) (s : Store κ ν)
    (hs : Sound f s) (ops : List κ) : outputs (run f cap s ops) = ops.map f :=
  (run_outputs ops hs).1

theorem lru_sound_after {κ ν : Type} [DecidableEq κ] (f : κ → ν) (cap : Nat) (before : List κ) :
    Sound f (run f cap [] before).1 :=
  (run_outputs before (sound_nil f)).2

/-- hence: what was asked before is irrelevant to what is answered now -/
theorem lru_history_irrelevant {κ ν : Type} [DecidableEq κ] (f : κ → ν) (cap : Nat) (before ops : List κ) :
    outputs (run f cap (run f cap [] before).1 ops) = outputs (run f cap [] ops) := by
  rw [lru_refines_warm f cap _ (lru_sound_after f cap before) ops, lru_refines]

/-- the store never holds more than `cap` entries -/
theorem lru_bounded {κ ν : Type} [DecidableEq κ] (f : κ → ν) (cap : Nat) (ops : List κ) :
    (run f cap [] ops).1.length ≤ cap :=
  run_length ops (Nat.zero_le _)

/-- the hit / miss / eviction pattern is the documented one: a call hits iff its key is among the `cap` most
    recently used distinct keys (this is what `cache_info()` of the real `Parent` cache is compared with). -/
theorem lru_discipline {κ ν : Type} [DecidableEq κ] (f : κ → ν) (cap : Nat) (ops : List κ) :
    events (run f cap [] ops) = expectEvs cap [] ops :=
  run_events ops (by simp [keys, recent])

/-- the model meets the decidable spec the `lru` / `plru` operations are checked with -/
theorem lru_meets_spec {κ ν : Type} [DecidableEq κ] [DecidableEq ν] (f : κ → ν) (cap : Nat) (ops : List κ) :
    okLru f cap ops (outputs (run f cap [] ops)) (events (run f cap [] ops)) = true := by
  simp [okLru, lru_refines, lru_discipline]

/-! ## T2 — `methodtools.lru_cache`: one table per object -/

/-- T2: whatever the interleaving of calls on different objects, `obj.method(k)` answers `f obj k`. -/
theorem memo_refines {ο κ ν : Type} [DecidableEq ο] [DecidableEq κ] (f : ο → κ → ν) (cap : Nat)
    (calls : List (ο × κ)) :
    outputs (runObj f cap Table.empty calls) = calls.map (fun c => f c.1 c.2) :=
  runObj_outputs calls (fun o => sound_nil (f o))

/-- the pattern seen on one object depends only on the calls made on that object -/
theorem memo_discipline {ο κ ν : Type} [DecidableEq ο] [DecidableEq κ] (f : ο → κ → ν) (cap : Nat)
    (calls : List (ο × κ)) :
    events (runObj f cap Table.empty calls) = expectEvsObj cap [] calls :=
  runObj_events calls (by intro o; simp [keys, recent, Table.empty])

theorem memo_meets_spec {ο κ ν : Type} [DecidableEq ο] [DecidableEq κ] [DecidableEq ν] (f : ο → κ → ν)
    (cap : Nat) (calls : List (ο × κ)) :
    okMemo f cap calls (outputs (runObj f cap Table.empty calls)) (events (runObj f cap Table.empty calls))
      = true := by
  simp [okMemo, memo_refines, memo_discipline]

/-! ## T3 — lazily filled attributes -/

/-- T3: reading lazily filled attributes in any order, any number of times, gives the pure function's value. -/
theorem lazy_reads_pure {γ ι ν : Type} [DecidableEq ι] (g : γ → ι → ν) (c : γ) (reads : List ι) :
    (LazyObj.reads g (LazyObj.fresh c) reads).2 = reads.map (g c) :=
  lazy_reads reads (lazy_fresh_sound g c)

/-- `Parent.strand` with Python's `None` as sentinel: every read gives the value a fresh object gives
    (also when that value is `None` and is therefore recomputed on every read). -/
theorem parent_strand_reads (strandArg : Option Strand) (location : Option (Strand × Nat)) (n : Nat) :
    (ParentS.reads ⟨strandArg, location, none⟩ n).2
      = List.replicate n (ParentS.compute ⟨strandArg, location, none⟩) :=
  parentS_reads n (Or.inl rfl)

/-! ## T4 — the two `extract_sequence` paths (the code as it is: a04ad26 + 588ca9c) -/

/-- the model of the CURRENT code: the cached-codon path is guarded by "at least one codon" and returns a `Sequence` -/
def currentCds {γ : Type} (pathA pathB : γ → List Char) (chunkCodons totalCodons : γ → Nat) : CdsCfg γ :=
  ⟨pathA, pathB, true, chunkCodons, totalCodons⟩

/-- T4 (value AND type): if the two code paths compute the same letters — which is C05's theorem about the codon
    walk; here a hypothesis — then every step of EVERY history of
    {list codon locations, count chunk codons, extract_sequence, has_valid_stop, num_codons} on the current code answers exactly what
    a freshly built object answers to that single question: `extract_sequence()` is the `Sequence` of the in-frame
    letters whichever path was taken and whatever was memoised, `has_valid_stop` is its boolean, never an error, and
    `num_codons` is the codon count of the WHOLE CDS also after the chunk-relative codon locations were listed on a
    sequence chunk that cuts the CDS (`nChunk c ≠ nTotal c`). -/
theorem extract_history_independent {γ : Type} (pathA pathB : γ → List Char) (nChunk nTotal : γ → Nat) (c : γ)
    (heq : pathA c = pathB c) (hist : List CdsOp) :
    (cdsRun (currentCds pathA pathB nChunk nTotal) (CdsState.fresh c) hist).2
      = hist.map (freshAns (pathA c) (nChunk c) (nTotal c)) :=
  cdsRun_patched (cfg := currentCds pathA pathB nChunk nTotal) heq rfl hist
    ⟨cdsInv_fresh _ c, by intro v h; simp [CdsState.fresh] at h⟩

/-- … hence the answers meet the decidable spec the `cdshist` operations are checked with -/
theorem extract_meets_spec {γ : Type} (pathA pathB : γ → List Char) (nChunk nTotal : γ → Nat) (c : γ)
    (heq : pathA c = pathB c) (hist : List CdsOp) :
    okCdsHist (pathA c) (nChunk c) (nTotal c) hist
      (cdsRun (currentCds pathA pathB nChunk nTotal) (CdsState.fresh c) hist).2 = true := by
  simp [okCdsHist, extract_history_independent pathA pathB nChunk nTotal c heq hist]

/-- the same for any configuration flagged `repaired` (general form used by the two theorems above) -/
theorem extract_history_independent_repaired {γ : Type} (cfg : CdsCfg γ) (c : γ)
    (heq : cfg.pathA c = cfg.pathB c) (hw : cfg.repaired = true) (hist : List CdsOp) :
    (cdsRun cfg (CdsState.fresh c) hist).2
      = hist.map (freshAns (cfg.pathA c) (cfg.chunkCodons c) (cfg.totalCodons c)) :=
  cdsRun_patched heq hw hist ⟨cdsInv_fresh cfg c, by intro v h; simp [CdsState.fresh] at h⟩

/-- both paths give the letters `ATGTAA` -/
def currentCfg : CdsCfg Unit :=
  currentCds (fun _ => ['A', 'T', 'G', 'T', 'A', 'A']) (fun _ => ['A', 'T', 'G', 'T', 'A', 'A']) (fun _ => 2) (fun _ => 2)
/-- a CDS of 7 codons on a sequence chunk that retains 2 of them -/
def chunkCutCfg : CdsCfg Unit :=
  currentCds (fun _ => ['A', 'T', 'G', 'T', 'A', 'A']) (fun _ => ['A', 'T', 'G', 'T', 'A', 'A']) (fun _ => 2) (fun _ => 7)
/-- the code BEFORE the repair: cached-codon path unguarded, returns the joined `str` -/
def beforeRepairCfg : CdsCfg Unit := { currentCfg with repaired := false }

/-- the hypothesis of T4 is satisfiable, and the history below really takes the cached-codon path -/
example : currentCfg.pathA () = currentCfg.pathB () := rfl
example : (cdsRun currentCfg (CdsState.fresh ()) [.listCodons, .extract, .validStop, .extract]).2
    = [.count 2, .seqObj ['A', 'T', 'G', 'T', 'A', 'A'], .bool true, .seqObj ['A', 'T', 'G', 'T', 'A', 'A']] := by decide
/-- `num_codons` keeps answering the codons of the WHOLE CDS after the chunk-relative codon locations were listed -/
example : (cdsRun chunkCutCfg (CdsState.fresh ()) [.totalCodons, .numCodons, .totalCodons, .listCodons, .totalCodons]).2
    = [.count 7, .count 2, .count 7, .count 2, .count 7] := by decide
/-- a codon-less CDS (2 letters): the guard sends the current code down the ordinary path -/
example : useCachedPath (currentCds (fun _ : Unit => ['A', 'T']) (fun _ => ['A', 'T']) (fun _ => 0) (fun _ => 0))
    (listCodons (currentCds (fun _ : Unit => ['A', 'T']) (fun _ => ['A', 'T']) (fun _ => 0) (fun _ => 0))
      (CdsState.fresh ())).1 = false := by decide

/-! ### before-repair regression facts (defect F-C10a, repaired by a04ad26 + 588ca9c) -/

/-- value part, which also held before the repair: the LETTERS of every `extract_sequence()` answer are history
    independent for either revision of the code -/
theorem extract_letters_history_independent_any_revision {γ : Type} (cfg : CdsCfg γ) (c : γ)
    (heq : cfg.pathA c = cfg.pathB c) (hist : List CdsOp) :
    ∀ a ∈ extractAnswers hist (cdsRun cfg (CdsState.fresh c) hist).2, letters a = some (cfg.pathA c) :=
  cdsRun_letters heq hist (cdsInv_fresh cfg c)

/-- F-C10a as it was: the TYPE of `extract_sequence()` depended on whether the codon locations were listed before -/
theorem before_repair_extract_type_depended_on_history :
    (cdsRun beforeRepairCfg (CdsState.fresh ()) [.extract]).2 = [.seqObj ['A', 'T', 'G', 'T', 'A', 'A']] ∧
    (cdsRun beforeRepairCfg (CdsState.fresh ()) [.listCodons, .extract]).2
      = [.count 2, .str ['A', 'T', 'G', 'T', 'A', 'A']] := by
  decide

/-- … and `has_valid_stop` then failed with an internal error although a fresh object answers `True` -/
theorem before_repair_valid_stop_depended_on_history :
    (cdsRun beforeRepairCfg (CdsState.fresh ()) [.validStop]).2 = [.bool true] ∧
    (cdsRun beforeRepairCfg (CdsState.fresh ()) [.numCodons, .validStop]).2 = [.count 2, .internalError] ∧
    (cdsRun beforeRepairCfg (CdsState.fresh ()) [.extract, .numCodons, .validStop]).2
      = [.seqObj ['A', 'T', 'G', 'T', 'A', 'A'], .count 2, .bool true] := by
  decide

/-! ## T5 — `_merge_qualifiers` (the code as it is: b1a89c3, `{key: set(vals) for …}`) -/

/-- T5: the merge as coded (`mergeDeep`) leaves EVERY cell that existed before the call untouched — in particular all
    sets of the interval's own qualifiers and of the parent's. (`h` = the heap before the call, `own` any dict,
    `other` any qualifiers to merge in.) -/
theorem merge_leaves_operand_untouched (h : Heap) (own : Dict) (other : List (Nat × List Nat)) (r : Ref)
    (hr : r < h.length) : (mergeDeep h own other).1[r]? = h[r]? := by
  have hd := deepCopy_frame own h
  unfold mergeDeep
  rw [mergeInto_frame h.length other _ _ hd.2.1 hd.2.2 r hr]
  exact hd.1 r hr

/-- hence the interval's own qualifiers read the same before and after an export -/
theorem merge_own_qualifiers_unchanged (h : Heap) (own : Dict) (other : List (Nat × List Nat))
    (hown : ∀ kr ∈ own, kr.2 < h.length) :
    deref (mergeDeep h own other).1 own = deref h own := by
  unfold deref
  apply List.map_congr_left
  intro kr hkr
  simp only [cellAt, merge_leaves_operand_untouched h own other kr.2 (hown kr hkr)]

/-- hypothesis of `merge_own_qualifiers_unchanged` is what `alloc` establishes -/
example : ∀ kr ∈ (alloc [] [(7, [1]), (8, [2, 3])]).2, kr.2 < (alloc [] [(7, [1]), (8, [2, 3])]).1.length := by
  decide

/-- … and the merge still merges: own `{7: {1}}`, parent `{7: {2}, 9: {5}}` gives `{7: {1, 2}, 9: {5}}`, own unchanged -/
example :
    let h0 := (alloc [] [(7, [1])])
    let r := mergeDeep h0.1 h0.2 [(7, [2]), (9, [5])]
    deref r.1 r.2 = [(7, [1, 2]), (9, [5])] ∧ deref r.1 h0.2 = [(7, [1])] := by
  decide

/-- before-repair regression fact (defect F-C10b, repaired by b1a89c3): with `merged = self.qualifiers.copy()` own
    qualifiers `{7: {1}}` merged with parent qualifiers `{7: {2}}` left the interval's OWN set as `{1, 2}` -/
theorem before_repair_merge_aliased :
    let h0 := (alloc [] [(7, [1])])
    deref h0.1 h0.2 = [(7, [1])] ∧
    deref (mergeShallow h0.1 h0.2 [(7, [2])]).1 h0.2 = [(7, [1, 2])] ∧
    deref (mergeDeep h0.1 h0.2 [(7, [2])]).1 h0.2 = [(7, [1])] := by
  decide

/-! ## non-vacuity: evictions really happen in the histories the theorems range over -/

/-- capacity 2, five keys: every call after the second evicts -/
example : events (run (fun k : Nat => k * k) 2 [] [1, 2, 3, 4, 5]) = [.miss, .miss, .missEvict, .missEvict, .missEvict] := by
  decide
/-- … and the answers are still those of the function -/
example : outputs (run (fun k : Nat => k * k) 2 [] [1, 2, 3, 1, 2, 2]) = [1, 4, 9, 1, 4, 4] := by decide
/-- hit moves to front: 1 2 1 3 → 2 is the one evicted, so the next `1` hits and `2` misses -/
example : events (run (fun k : Nat => k * k) 2 [] [1, 2, 1, 3, 1, 2]) = [.miss, .miss, .hit, .missEvict, .hit, .missEvict] := by
  decide
/-- two objects, capacity 1 each: the tables do not interfere -/
example : events (runObj (fun (o k : Nat) => o + k) 1 Table.empty [(0, 5), (1, 5), (0, 5), (1, 6), (1, 5), (0, 5)])
    = [.miss, .miss, .hit, .missEvict, .missEvict, .hit] := by
  decide
/-- a lazily filled CompoundInterval: overlapping blocks 0-5, 3-8 -/
example : (LazyObj.reads locAttr (LazyObj.fresh [(0, 5), (3, 8)]) [.isOverlapping, .blocks, .isOverlapping]).2
    = [.bool true, .blocks [(0, 5), (3, 8)], .bool true] := by
  decide
/-- `Parent(strand=None, location=SingleInterval(5, 5, MINUS)).strand is None` (zero-length location is falsy),
    recomputed at every read -/
example : (ParentS.reads ⟨none, some (.minus, 0), none⟩ 3).2 = [none, none, none] := by decide

end BioCantor.Props.C10
