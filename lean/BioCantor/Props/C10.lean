/-
  C10 — answers do not depend on call history; operations never change their operands.

  The theorems are about the cache / laziness / aliasing DISCIPLINES the library uses (Model/Cache.lean),
  for every history of calls (induction over the call list), every capacity and every pure underlying function.
  That each memoised Python function is itself pure is the business of the other properties' models and is
  sampled on the real objects by the `hist` operations of harness/props/c10.py.

  Two clauses of the property FAILED on the originally pinned code and were repaired in /repo; the main theorems
  (T4, T5) are about the code as it is, the old behaviour is kept as decided before-repair regression facts:
    F-C10a  (a04ad26, 588ca9c) `CDSInterval.extract_sequence()` returned `str` once the codon locations were listed
    F-C10b  (b1a89c3) `_merge_qualifiers` copied the dict but not its sets: an export added the parent's values to
            the interval's own qualifier sets
  Still open (finding F-C10c): the untyped `lru_cache` keys make `'chromosome'` and `SequenceType.CHROMOSOME` one key.
  The LRU theorems below are stated for an `f` that is a function of the KEY (as `DecidableEq` sees it); F-C10c is
  exactly a case where the cached Python function is not: it distinguishes two arguments that `==`/`hash` identify.
-/
import BioCantor.Proofs.CacheLru
import BioCantor.Proofs.CacheState
import BioCantor.Proofs.CacheOperands
set_option autoImplicit false   -- an unresolved name in a statement must be an error, never a bound variable
namespace BioCantor.Props.C10
open BioCantor BioCantor.Model.Cache BioCantor.Proofs.Cache
open BioCantor.Spec.Cache (Ev Ans CdsOp recent expectEv expectEvs expectEvsObj okLru okMemo freshAns okCdsHist)

/-! ## T1 — `functools.lru_cache`: hits, misses and evictions are unobservable -/

/-- T1: for EVERY history of calls, every capacity (0 = caching disabled) and every pure `f`, the memoised
    function answers exactly what `f` answers. -/
theorem lru_refines {κ ν : Type} [DecidableEq κ] (f : κ → ν) (cap : Nat) (ops : List κ) :
    outputs (run f cap [] ops) = ops.map f :=
  (run_outputs ops (sound_nil f)).1

/-- T1 from a warm cache: the same holds starting from ANY store whose pairs are `(k, f k)` — e.g. the store
    left behind by an arbitrary earlier history (`lru_sound_after`). -/
theorem lru_refines_warm {κ ν : Type} [DecidableEq κ] (f : κ → ν) (cap : Nat) (s : Store κ ν)
    (hs : Sound f s) (ops : List κ) : outputs (run f cap s ops) = ops.map f :=
  (run_outputs ops hs).1

theorem lru_sound_after {κ ν : Type} [DecidableEq κ] (f : κ → ν) (cap : Nat) (before : List κ) :
    Sound f (run f cap [] before).1 :=
  (run_outputs before (sound_nil f)).2

/-- hence: what was asked before is irrelevant to what is answered now -/
theorem lru_history_irrelevant {κ ν : Type} [DecidableEq κ] (f : κ → ν) (cap : Nat) (before ops : List κ) :
    outputs (run f cap (run f cap [] before).1 ops) = outputs (run f cap [] ops) := by
  rw [lru_refines_warm f cap _ (lru_sound_after f cap before) ops, lru_refines]

/-- the store never holds more than `cap` entries -/
theorem lru_bounded {κ ν : Type} [DecidableEq κ] (f : κ → ν) (cap : Nat) (ops : List κ) :
    (run f cap [] ops).1.length ≤ cap :=
  run_length ops (Nat.zero_le _)

/-- the hit / miss / eviction pattern is the documented one: a call hits iff its key is among the `cap` most
    recently used distinct keys (this is what `cache_info()` of the real `Parent` cache is compared with). -/
theorem lru_discipline {κ ν : Type} [DecidableEq κ] (f : κ → ν) (cap : Nat) (ops : List κ) :
    events (run f cap [] ops) = expectEvs cap [] ops :=
  run_events ops (by simp [keys, recent])

/-- the model meets the decidable spec the `lru` / `plru` operations are checked with -/
theorem lru_meets_spec {κ ν : Type} [DecidableEq κ] [DecidableEq ν] (f : κ → ν) (cap : Nat) (ops : List κ) :
    okLru f cap ops (outputs (run f cap [] ops)) (events (run f cap [] ops)) = true := by
  simp [okLru, lru_refines, lru_discipline]

/-! ## T2 — `methodtools.lru_cache`: one table per object -/

/-- T2: whatever the interleaving of calls on different objects, `obj.method(k)` answers `f obj k`. -/
theorem memo_refines {ο κ ν : Type} [DecidableEq ο] [DecidableEq κ] (f : ο → κ → ν) (cap : Nat)
    (calls : List (ο × κ)) :
    outputs (runObj f cap Table.empty calls) = calls.map (fun c => f c.1 c.2) :=
  runObj_outputs calls (fun o => sound_nil (f o))

/-- the pattern seen on one object depends only on the calls made on that object -/
theorem memo_discipline {ο κ ν : Type} [DecidableEq ο] [DecidableEq κ] (f : ο → κ → ν) (cap : Nat)
    (calls : List (ο × κ)) :
    events (runObj f cap Table.empty calls) = expectEvsObj cap [] calls :=
  runObj_events calls (by intro o; simp [keys, recent, Table.empty])

theorem memo_meets_spec {ο κ ν : Type} [DecidableEq ο] [DecidableEq κ] [DecidableEq ν] (f : ο → κ → ν)
    (cap : Nat) (calls : List (ο × κ)) :
    okMemo f cap calls (outputs (runObj f cap Table.empty calls)) (events (runObj f cap Table.empty calls))
      = true := by
  simp [okMemo, memo_refines, memo_discipline]

/-! ## T3 — lazily filled attributes -/

/-- T3: reading lazily filled attributes in any order, any number of times, gives the pure function's value. -/
theorem lazy_reads_pure {γ ι ν : Type} [DecidableEq ι] (g : γ → ι → ν) (c : γ) (reads : List ι) :
    (LazyObj.reads g (LazyObj.fresh c) reads).2 = reads.map (g c) :=
  lazy_reads reads (lazy_fresh_sound g c)

/-- `Parent.strand` with Python's `None` as sentinel: every read gives the value a fresh object gives
    (also when that value is `None` and is therefore recomputed on every read). -/
theorem parent_strand_reads (strandArg : Option Strand) (location : Option (Strand × Nat)) (n : Nat) :
    (ParentS.reads ⟨strandArg, location, none⟩ n).2
      = List.replicate n (ParentS.compute ⟨strandArg, location, none⟩) :=
  parentS_reads n (Or.inl rfl)

/-! ## T4 — the two `extract_sequence` paths (the code as it is: a04ad26 + 588ca9c) -/

/-- the model of the CURRENT code: the cached-codon path is guarded by "at least one codon" and returns a `Sequence` -/
def currentCds {γ : Type} (pathA pathB : γ → List Char) (chunkCodons totalCodons : γ → Nat) : CdsCfg γ :=
  ⟨pathA, pathB, true, chunkCodons, totalCodons⟩

/-- T4 (value AND type): if the two code paths compute the same letters — which is C05's theorem about the codon
    walk; here a hypothesis — then every step of EVERY history of
    {list codon locations, count chunk codons, extract_sequence, has_valid_stop, num_codons} on the current code answers exactly what
    a freshly built object answers to that single question: `extract_sequence()` is the `Sequence` of the in-frame
    letters whichever path was taken and whatever was memoised, `has_valid_stop` is its boolean, never an error, and
    `num_codons` is the codon count of the WHOLE CDS also after the chunk-relative codon locations were listed on a
    sequence chunk that cuts the CDS (`nChunk c ≠ nTotal c`). -/
theorem extract_history_independent {γ : Type} (pathA pathB : γ → List Char) (nChunk nTotal : γ → Nat) (c : γ)
    (heq : pathA c = pathB c) (hist : List CdsOp) :
    (cdsRun (currentCds pathA pathB nChunk nTotal) (CdsState.fresh c) hist).2
      = hist.map (freshAns (pathA c) (nChunk c) (nTotal c)) :=
  cdsRun_patched (cfg := currentCds pathA pathB nChunk nTotal) heq rfl hist
    ⟨cdsInv_fresh _ c, by intro v h; simp [CdsState.fresh] at h⟩

/-- … hence the answers meet the decidable spec the `cdshist` operations are checked with -/
theorem extract_meets_spec {γ : Type} (pathA pathB : γ → List Char) (nChunk nTotal : γ → Nat) (c : γ)
    (heq : pathA c = pathB c) (hist : List CdsOp) :
    okCdsHist (pathA c) (nChunk c) (nTotal c) hist
      (cdsRun (currentCds pathA pathB nChunk nTotal) (CdsState.fresh c) hist).2 = true := by
  simp [okCdsHist, extract_history_independent pathA pathB nChunk nTotal c heq hist]

/-- the same for any configuration flagged `repaired` (general form used by the two theorems above) -/
theorem extract_history_independent_repaired {γ : Type} (cfg : CdsCfg γ) (c : γ)
    (heq : cfg.pathA c = cfg.pathB c) (hw : cfg.repaired = true) (hist : List CdsOp) :
    (cdsRun cfg (CdsState.fresh c) hist).2
      = hist.map (freshAns (cfg.pathA c) (cfg.chunkCodons c) (cfg.totalCodons c)) :=
  cdsRun_patched heq hw hist ⟨cdsInv_fresh cfg c, by intro v h; simp [CdsState.fresh] at h⟩

/-- both paths give the letters `ATGTAA` -/
def currentCfg : CdsCfg Unit :=
  currentCds (fun _ => ['A', 'T', 'G', 'T', 'A', 'A']) (fun _ => ['A', 'T', 'G', 'T', 'A', 'A']) (fun _ => 2) (fun _ => 2)
/-- a CDS of 7 codons on a sequence chunk that retains 2 of them -/
def chunkCutCfg : CdsCfg Unit :=
  currentCds (fun _ => ['A', 'T', 'G', 'T', 'A', 'A']) (fun _ => ['A', 'T', 'G', 'T', 'A', 'A']) (fun _ => 2) (fun _ => 7)
/-- the code BEFORE the repair: cached-codon path unguarded, returns the joined `str` -/
def beforeRepairCfg : CdsCfg Unit := { currentCfg with repaired := false }

/-- the hypothesis of T4 is satisfiable, and the history below really takes the cached-codon path -/
example : currentCfg.pathA () = currentCfg.pathB () := rfl
example : (cdsRun currentCfg (CdsState.fresh ()) [.listCodons, .extract, .validStop, .extract]).2
    = [.count 2, .seqObj ['A', 'T', 'G', 'T', 'A', 'A'], .bool true, .seqObj ['A', 'T', 'G', 'T', 'A', 'A']] := by decide
/-- `num_codons` keeps answering the codons of the WHOLE CDS after the chunk-relative codon locations were listed -/
example : (cdsRun chunkCutCfg (CdsState.fresh ()) [.totalCodons, .numCodons, .totalCodons, .listCodons, .totalCodons]).2
    = [.count 7, .count 2, .count 7, .count 2, .count 7] := by decide
/-- a codon-less CDS (2 letters): the guard sends the current code down the ordinary path -/
example : useCachedPath (currentCds (fun _ : Unit => ['A', 'T']) (fun _ => ['A', 'T']) (fun _ => 0) (fun _ => 0))
    (listCodons (currentCds (fun _ : Unit => ['A', 'T']) (fun _ => ['A', 'T']) (fun _ => 0) (fun _ => 0))
      (CdsState.fresh ())).1 = false := by decide

/-! ### before-repair regression facts (defect F-C10a, repaired by a04ad26 + 588ca9c) -/

/-- value part, which also held before the repair: the LETTERS of every `extract_sequence()` answer are history
    independent for either revision of the code -/
theorem extract_letters_history_independent_any_revision {γ : Type} (cfg : CdsCfg γ) (c : γ)
    (heq : cfg.pathA c = cfg.pathB c) (hist : List CdsOp) :
    ∀ a ∈ extractAnswers hist (cdsRun cfg (CdsState.fresh c) hist).2, letters a = some (cfg.pathA c) :=
  cdsRun_letters heq hist (cdsInv_fresh cfg c)

/-- F-C10a as it was: the TYPE of `extract_sequence()` depended on whether the codon locations were listed before -/
theorem before_repair_extract_type_depended_on_history :
    (cdsRun beforeRepairCfg (CdsState.fresh ()) [.extract]).2 = [.seqObj ['A', 'T', 'G', 'T', 'A', 'A']] ∧
    (cdsRun beforeRepairCfg (CdsState.fresh ()) [.listCodons, .extract]).2
      = [.count 2, .str ['A', 'T', 'G', 'T', 'A', 'A']] := by
  decide

/-- … and `has_valid_stop` then failed with an internal error although a fresh object answers `True` -/
theorem before_repair_valid_stop_depended_on_history :
    (cdsRun beforeRepairCfg (CdsState.fresh ()) [.validStop]).2 = [.bool true] ∧
    (cdsRun beforeRepairCfg (CdsState.fresh ()) [.numCodons, .validStop]).2 = [.count 2, .internalError] ∧
    (cdsRun beforeRepairCfg (CdsState.fresh ()) [.extract, .numCodons, .validStop]).2
      = [.seqObj ['A', 'T', 'G', 'T', 'A', 'A'], .count 2, .bool true] := by
  decide

/-! ## T5 — `_merge_qualifiers` (the code as it is: b1a89c3, `{key: set(vals) for …}`) -/

/-- T5: the merge as coded (`mergeDeep`) leaves EVERY cell that existed before the call untouched — in particular all
    sets of the interval's own qualifiers and of the parent's. (`h` = the heap before the call, `own` any dict,
    `other` any qualifiers to merge in.) -/
theorem merge_leaves_operand_untouched (h : Heap) (own : Dict) (other : List (Nat × List Nat)) (r : Ref)
    (hr : r < h.length) : (mergeDeep h own other).1[r]? = h[r]? := by
  have hd := deepCopy_frame own h
  unfold mergeDeep
  rw [mergeInto_frame h.length other _ _ hd.2.1 hd.2.2 r hr]
  exact hd.1 r hr

/-- hence the interval's own qualifiers read the same before and after an export -/
theorem merge_own_qualifiers_unchanged (h : Heap) (own : Dict) (other : List (Nat × List Nat))
    (hown : ∀ kr ∈ own, kr.2 < h.length) :
    deref (mergeDeep h own other).1 own = deref h own := by
  unfold deref
  apply List.map_congr_left
  intro kr hkr
  simp only [cellAt, merge_leaves_operand_untouched h own other kr.2 (hown kr hkr)]

/-- hypothesis of `merge_own_qualifiers_unchanged` is what `alloc` establishes -/
example : ∀ kr ∈ (alloc [] [(7, [1]), (8, [2, 3])]).2, kr.2 < (alloc [] [(7, [1]), (8, [2, 3])]).1.length := by
  decide

/-- … and the merge still merges: own `{7: {1}}`, parent `{7: {2}, 9: {5}}` gives `{7: {1, 2}, 9: {5}}`, own unchanged -/
example :
    let h0 := (alloc [] [(7, [1])])
    let r := mergeDeep h0.1 h0.2 [(7, [2]), (9, [5])]
    deref r.1 r.2 = [(7, [1, 2]), (9, [5])] ∧ deref r.1 h0.2 = [(7, [1])] := by
  decide

/-- before-repair regression fact (defect F-C10b, repaired by b1a89c3): with `merged = self.qualifiers.copy()` own
    qualifiers `{7: {1}}` merged with parent qualifiers `{7: {2}}` left the interval's OWN set as `{1, 2}` -/
theorem before_repair_merge_aliased :
    let h0 := (alloc [] [(7, [1])])
    deref h0.1 h0.2 = [(7, [1])] ∧
    deref (mergeShallow h0.1 h0.2 [(7, [2])]).1 h0.2 = [(7, [1, 2])] ∧
    deref (mergeDeep h0.1 h0.2 [(7, [2])]).1 h0.2 = [(7, [1])] := by
  decide

/-! ## T6 — operations with arguments: a result is built from the operands' constructor data, never from their cells

    The code as it is: `reset_parent`, `reset_strand`, `shift_position`, `extend_*`, the set operations, slicing,
    liftover, … end in a constructor call (`LazyObj.derive` / `derive2`: all cells of the result start empty). -/

/-- T6: for EVERY question function `g`, operation `op` on constructor data, operand `c`, list `asked` of questions the
    operand was asked BEFORE the operation and list `qs` of questions put to the RESULT: the result of the operation on
    the warm operand answers exactly like the result of the operation on a freshly built (cold) operand — namely what a
    freshly constructed `op c` answers. -/
theorem derived_answers_independent_of_operand_history {γ ι ν : Type} [DecidableEq ι] (g : γ → ι → ν) (op : γ → γ)
    (c : γ) (asked qs : List ι) :
    (LazyObj.reads g ((LazyObj.reads g (LazyObj.fresh c) asked).1.derive op) qs).2
        = (LazyObj.reads g ((LazyObj.fresh c).derive op) qs).2 ∧
      (LazyObj.reads g ((LazyObj.fresh c).derive op) qs).2 = qs.map (g (op c)) := by
  rw [reads_derive, reads_derive, lazy_reads_core]
  exact ⟨rfl, rfl⟩

/-- … indeed for ANY contents of the operand's cells (reachable by reads or not): two operands with the same constructor
    data give results that answer alike -/
theorem derived_answers_independent_of_operand_cells {γ ι ν : Type} [DecidableEq ι] (g : γ → ι → ν) (op : γ → γ)
    (o₁ o₂ : LazyObj γ ι ν) (hcore : o₁.core = o₂.core) (qs : List ι) :
    (LazyObj.reads g (o₁.derive op) qs).2 = (LazyObj.reads g (o₂.derive op) qs).2 := by
  rw [reads_derive, reads_derive, hcore]

/-- the hypothesis is satisfiable non-trivially: a cold operand and one whose `_sequence` cell is filled share their
    constructor data and differ in their cells -/
example : (LazyObj.fresh (⟨1, 3, false, some ['A', 'C', 'G', 'T']⟩ : SICore) : LazyObj SICore SIAttr (Option (List Char))).core
      = (LazyObj.reads siAttr (LazyObj.fresh ⟨1, 3, false, some ['A', 'C', 'G', 'T']⟩) [.sequence]).1.core ∧
    (LazyObj.fresh (⟨1, 3, false, some ['A', 'C', 'G', 'T']⟩ : SICore) : LazyObj SICore SIAttr (Option (List Char))).slot .sequence
      ≠ (LazyObj.reads siAttr (LazyObj.fresh ⟨1, 3, false, some ['A', 'C', 'G', 'T']⟩) [.sequence]).1.slot .sequence := by
  decide

/-- T6 for binary operations (`a.union(b)`, `a.intersection(b)`, `a.minus(b)`, `seq.append(other)`, in either operand
    order): whatever BOTH operands were asked before -/
theorem derived2_answers_independent_of_operand_history {γ ι ν : Type} [DecidableEq ι] (g : γ → ι → ν)
    (op : γ → γ → γ) (a b : γ) (askedA askedB qs : List ι) :
    (LazyObj.reads g (LazyObj.derive2 op (LazyObj.reads g (LazyObj.fresh a) askedA).1
        (LazyObj.reads g (LazyObj.fresh b) askedB).1) qs).2
      = (LazyObj.reads g (LazyObj.derive2 op (LazyObj.fresh a) (LazyObj.fresh b)) qs).2 := by
  rw [reads_derive2, reads_derive2, lazy_reads_core, lazy_reads_core]

/-- the operand is unchanged by whatever it was asked (and an operation as coded does not write to it at all): it keeps
    its constructor data and goes on answering every question like a freshly built twin -/
theorem operand_unchanged_by_questions {γ ι ν : Type} [DecidableEq ι] (g : γ → ι → ν) (c : γ) (asked qs : List ι) :
    (LazyObj.reads g (LazyObj.fresh c) asked).1.core = c ∧
      (LazyObj.reads g (LazyObj.reads g (LazyObj.fresh c) asked).1 qs).2 = qs.map (g c) := by
  refine ⟨lazy_reads_core g asked _, ?_⟩
  have h := lazy_reads (g := g) qs (lazy_reads_sound asked (lazy_fresh_sound g c))
  rw [h, lazy_reads_core]
  rfl

/-- instance: `loc.reset_parent(p2).extract_sequence()` gives the bases of `p2` whether or not
    `loc.extract_sequence()` had been called before (the lazily filled `_sequence` of `SingleInterval`) -/
theorem reset_parent_extract_sequence_history_independent (c : SICore) (newBases : Option (List Char))
    (asked : List SIAttr) :
    (LazyObj.reads siAttr ((LazyObj.reads siAttr (LazyObj.fresh c) asked).1.derive (SICore.resetParent newBases))
        [.sequence]).2 = [siAttr (c.resetParent newBases) .sequence] :=
  (derived_answers_independent_of_operand_history siAttr (SICore.resetParent newBases) c asked [.sequence]).1.trans
    (derived_answers_independent_of_operand_history siAttr (SICore.resetParent newBases) c asked [.sequence]).2

/-- location 1-3:+ on `ACGT`, re-parented onto `TTTT` (same id, other bases) -/
def hapA : SICore := ⟨1, 3, false, some ['A', 'C', 'G', 'T']⟩
def hapB : Option (List Char) := some ['T', 'T', 'T', 'T']

/-- the statement is not vacuous: the warm operand really has its `_sequence` cell filled, and the answers are real -/
example : (LazyObj.reads siAttr (LazyObj.fresh hapA) [.sequence]).1.slot .sequence = some (some ['C', 'G']) := by decide
example : (LazyObj.reads siAttr ((LazyObj.reads siAttr (LazyObj.fresh hapA) [.sequence]).1.derive
    (SICore.resetParent hapB)) [.sequence]).2 = [some ['T', 'T']] := by decide
example : siAttr ⟨1, 3, true, some ['A', 'C', 'G', 'T']⟩ .sequence = some ['C', 'G'] := by decide

/-- what the theorem rests on is that the constructor empties the cells: an operation that carried the operand's cells over
    to its result (NOT the code) would answer with the OLD parent's bases once the operand had been asked for its sequence,
    and with the new parent's bases otherwise — an answer that depends on history -/
theorem carrying_cells_over_would_depend_on_history :
    (LazyObj.reads siAttr ((LazyObj.fresh hapA).deriveCarry (SICore.resetParent hapB)) [.sequence]).2 = [some ['T', 'T']] ∧
    (LazyObj.reads siAttr ((LazyObj.reads siAttr (LazyObj.fresh hapA) [.sequence]).1.deriveCarry
        (SICore.resetParent hapB)) [.sequence]).2 = [some ['C', 'G']] := by
  decide

/-! ## T7 — `export_qualifiers(parent_qualifiers)`: the argument is an operand (the code as it is: copying merge) -/

/-- T7: `export_qualifiers` as coded (`{key: set(vals) …}`, `update`, then the `.add()` loop) leaves EVERY cell that
    existed before the call untouched — the interval's own sets, the caller's `parent_qualifiers` sets and anything else. -/
theorem export_leaves_every_cell_untouched (h : Heap) (own other : Dict) (ids : List (Nat × Nat)) (r : Ref)
    (hr : r < h.length) : (exportQualifiers h own other ids).1[r]? = h[r]? :=
  (exportQualifiers_frame h own other ids).1.same r hr

/-- T7: every set the exported dictionary refers to was allocated by the call: the result shares no cell with the
    argument (nor with the interval's own qualifiers), so neither `.add()` inside the exporter nor a later change of the
    result can reach the argument, and vice versa -/
theorem export_result_shares_no_cell_with_argument (h : Heap) (own other : Dict) (ids : List (Nat × Nat))
    (hother : ∀ ko ∈ other, ko.2 < h.length) :
    ∀ kr ∈ (exportQualifiers h own other ids).2, ∀ ko ∈ other, kr.2 ≠ ko.2 := by
  intro kr hkr ko hko e
  have h1 := (exportQualifiers_frame h own other ids).2 kr hkr
  have h2 := hother ko hko
  rw [e] at h1
  exact Nat.lt_irrefl _ (Nat.lt_of_lt_of_le h2 h1)

/-- hence the argument reads the same before and after the export … -/
theorem export_argument_unchanged (h : Heap) (own other : Dict) (ids : List (Nat × Nat))
    (hother : ∀ ko ∈ other, ko.2 < h.length) :
    deref (exportQualifiers h own other ids).1 other = deref h other :=
  deref_frame (exportQualifiers_frame h own other ids).1 other hother

/-- … and so do the interval's own qualifiers -/
theorem export_own_qualifiers_unchanged (h : Heap) (own other : Dict) (ids : List (Nat × Nat))
    (hown : ∀ kr ∈ own, kr.2 < h.length) :
    deref (exportQualifiers h own other ids).1 own = deref h own :=
  deref_frame (exportQualifiers_frame h own other ids).1 own hown

/-- `GeneInterval.to_gff`: ONE gene-level dictionary `pq` is handed to every child's export.  Any dictionary `d` that
    exists when a group of children starts exporting — the gene-level dictionary itself, or the dictionary a GFF3 row
    produced EARLIER holds — reads the same after those children have exported: a row printed after the generator is
    exhausted shows what it shows when printed at once, and a later transcript never sees an earlier one's identifiers. -/
theorem rendered_late_equals_rendered_eagerly (h : Heap) (pq d : Dict) (children : List (Dict × List (Nat × Nat)))
    (hd : ∀ kr ∈ d, kr.2 < h.length) :
    deref (exportChildren h pq children) d = deref h d :=
  deref_frame (exportChildren_frame children h pq) d hd

/-- the hypotheses are what allocation establishes -/
example : ∀ kr ∈ (alloc [] [(9, [1]), (8, [4, 5])]).2, kr.2 < (alloc [] [(9, [1]), (8, [4, 5])]).1.length := by decide

/-- the merge still merges and the identifiers are still added: gene-level `{9: {1}, 8: {4}}`, transcript's own
    `{7: {3}}`, identifiers `9 ↦ 2` (a key the parent has and the child does not) and `6 ↦ 5` (a key nobody has) -/
example :
    let p := alloc [] [(9, [1]), (8, [4])]
    let o := alloc p.1 [(7, [3])]
    let r := exportQualifiers o.1 o.2 p.2 [(9, 2), (6, 5)]
    deref r.1 r.2 = [(7, [3]), (9, [1, 2]), (8, [4]), (6, [5])] ∧ deref r.1 p.2 = [(9, [1]), (8, [4])] ∧
      deref r.1 o.2 = [(7, [3])] := by
  decide

/-- what T7 rests on is the copy: a merge that ADOPTED the argument's sets for keys the child lacks (NOT the code) would
    let the child's `.add()` write into the caller's dictionary — the gene-level `{9: {1}}` reads `{9: {1, 2}}` after the
    first child and `{9: {1, 2, 3}}` after the second, so the gene row printed late differs from the gene row printed at
    once and the second transcript carries the first one's identifier; as coded it keeps reading `{9: {1}}` -/
theorem adopting_the_argument_sets_would_change_the_argument :
    let p := alloc [] [(9, [1])]
    deref (exportChildrenAdopt p.1 p.2 [([], [(9, 2)])]) p.2 = [(9, [1, 2])] ∧
    deref (exportChildrenAdopt p.1 p.2 [([], [(9, 2)]), ([], [(9, 3)])]) p.2 = [(9, [1, 2, 3])] ∧
    deref (exportChildren p.1 p.2 [([], [(9, 2)]), ([], [(9, 3)])]) p.2 = [(9, [1])] := by
  decide

/-! ## non-vacuity: evictions really happen in the histories the theorems range over -/

/-- capacity 2, five keys: every call after the second evicts -/
example : events (run (fun k : Nat => k * k) 2 [] [1, 2, 3, 4, 5]) = [.miss, .miss, .missEvict, .missEvict, .missEvict] := by
  decide
/-- … and the answers are still those of the function -/
example : outputs (run (fun k : Nat => k * k) 2 [] [1, 2, 3, 1, 2, 2]) = [1, 4, 9, 1, 4, 4] := by decide
/-- hit moves to front: 1 2 1 3 → 2 is the one evicted, so the next `1` hits and `2` misses -/
example : events (run (fun k : Nat => k * k) 2 [] [1, 2, 1, 3, 1, 2]) = [.miss, .miss, .hit, .missEvict, .hit, .missEvict] := by
  decide
/-- two objects, capacity 1 each: the tables do not interfere -/
example : events (runObj (fun (o k : Nat) => o + k) 1 Table.empty [(0, 5), (1, 5), (0, 5), (1, 6), (1, 5), (0, 5)])
    = [.miss, .miss, .hit, .missEvict, .missEvict, .hit] := by
  decide
/-- a lazily filled CompoundInterval: overlapping blocks 0-5, 3-8 -/
example : (LazyObj.reads locAttr (LazyObj.fresh [(0, 5), (3, 8)]) [.isOverlapping, .blocks, .isOverlapping]).2
    = [.bool true, .blocks [(0, 5), (3, 8)], .bool true] := by
  decide
/-- `Parent(strand=None, location=SingleInterval(5, 5, MINUS)).strand is None` (zero-length location is falsy),
    recomputed at every read -/
example : (ParentS.reads ⟨none, some (.minus, 0), none⟩ 3).2 = [none, none, none] := by decide

end BioCantor.Props.C10
