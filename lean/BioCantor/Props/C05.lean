/-
  C05 — CDS codons, frame bookkeeping and translation follow one reading-frame model.

  Property theorems only (helper lemmas live in BioCantor/Proofs/CDS*.lean).  The reference semantics is
  `Spec.refKept` (Spec/ReadingFrame.lean): walk the exons 5'→3', re-synchronise where an exon's annotated frame
  differs from `|kept| mod 3`; codons are the consecutive triples of the kept positions.

  What is proved here, for ALL exon layouts of positive-length, non-overlapping exons (any number of exons,
  0-bp gaps included), both strands, all frame vectors (consistent or with programmed frameshifts):

    T1  frame_cleaning_is_reference_walk   the frame-cleaning loop (rel_start/rel_end through
                                           parent_to_relative_pos, `next_frame`, trimming `shift`) keeps
                                           `next_frame = Σ cleaned lengths mod 3`, and its cleaned blocks read off
                                           the CDS are exactly `Spec.cdsKept` — whenever the walk is `shallowTrim`
                                           (otherwise the pinned code refuses the CDS: F-C05b)
    T1' frame_shift_is_addition_mod3       the generated kernel `CDSFrame.shift`, for every integer shift
        offset_after_cut                   `_calculate_frame_offset`'s  CDSPhase(d % 3).to_frame().value = (−d) mod 3
    T2a fast_path_is_codon_concatenation   `extract_sequence` (fast path) = concatenation of the consecutive letter
                                           triples from the offset on; length multiple of three;
        codon_chunks_of_fast_path          re-chunking it by three (scan_codons / translate) gives those triples back
    T3  translate_is_standard_code         the translation loop on the generated tables meets `Spec.okTranslateCodons`:
                                           NCBI standard code, start rule per table (0 / 1 / 11), strict refusal,
                                           truncation at the first in-frame stop; `gencode_is_ncbi_standard`
    T4  generated_frames_are_one_reading_frame   construct_frames_from_location never re-synchronises: the walk keeps
                                           every position after the first `starting_frame` (every layout, also
                                           overlapping / empty blocks, as long as the 5' block holds the offset: F-C05h)
    T5a window_offset_selects_inner_codons the window arithmetic: cutting d retained bases at the 5' end and iterating
                                           triples from offset (−d) mod 3 yields exactly the codons lying inside

  Resting on the correspondence run (stated, not proved — see the comments at the end): the composition of T1
  with `relative_interval_to_parent_location` / `scan_windows` into `okCodons` for the returned Location objects
  (T2 full), the cached codon path of `extract_sequence`, and T5 in terms of chromosome windows.
-/
import BioCantor.Proofs.CDSKept
import BioCantor.Proofs.CDSConstructFrames
import BioCantor.Proofs.CDSTranslate
import BioCantor.Proofs.CDSFastPath
namespace BioCantor.Props.C05
open BioCantor BioCantor.Spec BioCantor.Model BioCantor.Proofs

/-- What `CDSInterval.__init__` establishes plus the scope of C05: directional strand, exons of positive length
    that do not overlap, one real frame (0/1/2) per exon. -/
structure WFCDS (c : CDS) : Prop where
  dir : c.loc.strand = .plus ∨ c.loc.strand = .minus
  valid : blocksValid c.loc.blocks = true
  nonOverlap : nonOverlap c.loc.blocks = true
  positive : ∀ b ∈ c.loc.blocks, b.1 < b.2
  frames_len : c.frames.length = c.loc.blocks.length
  frames_real : ∀ f ∈ c.frames, f ≠ .NONE

/-- the frame values of the model object, as the spec reads them -/
def specFrames (c : CDS) : List Nat := c.frames.map (fun f => f.value.toNat)

/-- **T1'** `CDSFrame.shift` (generated from gene/cds_frame.py) is addition modulo three for EVERY integer shift. -/
theorem frame_shift_is_addition_mod3 (f : CDSFrame) (hf : f ≠ .NONE) (n : Int) :
    ∃ g, frameShift f n = .ok g ∧ g.value = (f.value + n) % 3 ∧ g ≠ .NONE :=
  frameShift_ok f hf n

/-- **T1'** the offset `_calculate_frame_offset` derives from `d` bases cut at the 5' end is `(−d) mod 3`. -/
theorem offset_after_cut (d : Int) :
    (do let ph ← Model.phaseOfInt (d % 3); let fr ← phaseToFrame ph; pure fr.value : R Int) = .ok ((-d) % 3) :=
  phase_frame_offset d

/-- **T1** the frame-cleaning loop computes the reference walk.
    `sliceOf (bases loc) (s, e)` is the stretch `[s, e)` of the CDS read 5'→3', i.e. what
    `relative_interval_to_parent_location(s, e)` denotes by C01-T3. -/
theorem frame_cleaning_is_reference_walk (c : CDS) (h : WFCDS c)
    (hshallow : shallowTrim (exonWalk c.loc (specFrames c)) = true) :
    ∃ st, cleanExons c.loc CleanSt.init (c.exonIter.zip c.frameIter) = .ok st ∧
      st.nextFrame.value = cleanedSum st.cleanedRev % 3 ∧
      (∀ p ∈ st.cleanedRev, 0 ≤ p.1 ∧ p.1 ≤ p.2) ∧
      (st.cleanedRev.reverse.map (sliceOf (bases c.loc))).flatten = cdsKept c.loc (specFrames c) := by
  rcases hc : c.loc with ⟨bs, strand⟩
  rw [hc] at hshallow
  have hdir : strand = .plus ∨ strand = .minus := by have := h.dir; rw [hc] at this; exact this
  have hex : c.exonIter = scanOrder strand bs := by
    unfold CDS.exonIter scanOrder; rw [hc]
    rcases hdir with hd | hd <;> simp [hd]
  have hfr : c.frameIter = (if strand = .minus then c.frames.reverse else c.frames) := by
    unfold CDS.frameIter CDS.strand; rw [hc]
  rw [hex, hfr]
  have := cleanExons_cdsKept bs strand c.frames hdir (by have := h.valid; rw [hc] at this; exact this)
    (by have := h.nonOverlap; rw [hc] at this; exact this) (by have := h.positive; rw [hc] at this; exact this)
    (by have := h.frames_len; rw [hc] at this; exact this) h.frames_real
    (by unfold specFrames at hshallow; exact hshallow)
  exact this

/-- **T2a** the fast path of `extract_sequence`: with `(location, offset)` prepared by
    `_prepare_*_window_for_scan_codon_locations` and `s` the letters of that location (one per position), the
    result is the concatenation of the consecutive triples of `s` from the offset on — a multiple of three. -/
theorem fast_path_is_codon_concatenation (c : CDS) (loc : Location) (off : Int) (s : List Char) (hoff : 0 ≤ off)
    (hp : prepare c none = .ok (loc, off)) (hs : locationSeq c.seq loc = .ok s) (hlen : s.length = locLen loc) :
    extractSequence c = .ok (triples (s.drop off.toNat)).flatten ∧
      (triples (s.drop off.toNat)).flatten.length % 3 = 0 :=
  ⟨extractSequence_fast c loc off s hoff hp hs hlen, triples_flatten_length _⟩

/-- **T2a** `seq[i:i+3] for i in range(0, len(seq), 3)` over the fast-path result returns the codons. -/
theorem codon_chunks_of_fast_path (s : List Char) : chunks3 (triples s).flatten = triples s :=
  chunks3_flatten_triples s

/-- **T3** the generated `gencode` dictionary is the NCBI standard code, on every string. -/
theorem gencode_is_ncbi_standard (v : List Char) : Gen.gencode.lookup v = standardCode v :=
  gencode_eq_standard v

/-- **T3** `translate` on a list of codons (upper case, letters `Codon` accepts): standard code, start-codon
    rule of the table, `strict` refusal, truncation at the first in-frame stop. -/
theorem translate_is_standard_code (trunc strict : Bool) (table : Nat) (ht : table = 0 ∨ table = 1 ∨ table = 11)
    (cods : List (List Char)) (hok : ∀ cod ∈ cods, CodonOK cod) :
    okTranslateCodons cods trunc table strict (ans (translateLoop trunc (table : Int) strict 0 cods)) = true :=
  translateLoop_okTranslateCodons trunc strict table ht cods hok

/-- **T4** frames generated for a location from a start offset describe one uninterrupted reading frame. -/
theorem generated_frames_are_one_reading_frame (l : Location) (loc : Loc) (hl : toLoc l = some loc)
    (hne : loc.blocks ≠ []) (hdir : loc.strand = .plus ∨ loc.strand = .minus) (f : CDSFrame) (hf : f ≠ .NONE)
    (hfirst : loc.blocks.length = 1 ∨ f.value ≤ (firstLen loc : Int)) :
    okFrames loc f.value.toNat ((ans (constructFramesFromLocation l f)).map frameVals) = true :=
  constructFrames_ok l loc hl hne hdir f hf hfirst

/-- **T5a** window arithmetic on the kept list: `d` retained bases lie before the window, `m` inside. -/
theorem window_offset_selects_inner_codons (kept : List Nat) (d m : Nat) :
    triples (((kept.drop d).take m).drop ((3 - d % 3) % 3)) =
      ((triples kept).drop ((d + 2) / 3)).take ((d + m) / 3 - (d + 2) / 3) :=
  window_triples kept d m

/-! ### non-vacuity: concrete inputs satisfying the hypotheses -/

/-- a minus-strand CDS with a 0-bp gap and a programmed frameshift (frame vector not consistent) -/
def exampleCDS : CDS :=
  { loc := ⟨[(2, 7), (7, 11), (14, 20)], .minus⟩, start := 2, «end» := 20,
    frames := [.ONE, .TWO, .ZERO], seq := none }

example : WFCDS exampleCDS := by
  constructor <;> simp [exampleCDS] <;> decide
example : shallowTrim (exonWalk exampleCDS.loc (specFrames exampleCDS)) = true := by decide
-- the walk really re-synchronises here (twice): 10 of the 15 positions are kept
example : (cdsKept exampleCDS.loc (specFrames exampleCDS)).length = 10 := by decide
example : CodonOK "ATG".toList ∧ CodonOK "CTN".toList := by
  refine ⟨⟨rfl, ?_⟩, ⟨rfl, ?_⟩⟩ <;> decide
example : toLoc (.compound ⟨[(0, 5), (7, 11), (12, 18)], .minus⟩) = some ⟨[(0, 5), (7, 11), (12, 18)], .minus⟩ ∧
    (CDSFrame.TWO).value ≤ (firstLen ⟨[(0, 5), (7, 11), (12, 18)], .minus⟩ : Int) := by decide

/-! ### stated, not proved (these clauses rest on the correspondence run of harness/props/c05.py)

  T2 (full) — codon locations.  For `c` with `WFCDS c`, `shallowTrim …`, `cdsKept … ≠ []`:
      okCodons ⟨c.loc, specFrames c, c.seq⟩ none (ans (codonLocations c)) = true
    i.e. every returned Location is well formed, on the CDS strand, and denotes the k-th triple of `cdsKept`.
    Missing: the composition of `frame_cleaning_is_reference_walk` with C01-T3 (`relInterval_ok`) for the cleaned
    blocks and for every `scan_windows` step (the cleaned location is Canon / NonOverlap, its bases are the
    concatenated slices, `_calculate_frame_offset` returns 0).

  T2 (cached path) — `extractSequenceCached c = extractSequence c`; needs C03 (sequence of a sub-interval is the
    slice of the sequence).

  T5 (full) — for a window [lo, hi):
      okCodons ⟨…⟩ (some ⟨some lo, some hi, false⟩) (ans (scanChromosomeCodonLocations c (some ⟨some lo, some hi, false⟩))) = true
    outside the catalogued deviation classes (Spec.codonsClass ≠ "unclassified": F-C05a, d, e, f, g).
    Proved part: `window_offset_selects_inner_codons` + `offset_after_cut`.
-/

end BioCantor.Props.C05
