/-
  C05 — CDS codons, frame bookkeeping and translation follow one reading-frame model.

  Property theorems only (helper lemmas live in BioCantor/Proofs/CDS*.lean).  The reference semantics is
  `Spec.refKept` (Spec/ReadingFrame.lean): walk the exons 5'→3', re-synchronise where an exon's annotated frame
  differs from `|kept| mod 3`; codons are the consecutive triples of the kept positions.

  What is proved here, for ALL exon layouts of positive-length, non-overlapping exons (any number of exons,
  0-bp gaps included), both strands, all frame vectors (consistent or with programmed frameshifts):

    T1  frame_cleaning_is_reference_walk   the frame-cleaning loop (rel_start/rel_end through
                                           parent_to_relative_pos, `next_frame`, trimming `shift`) keeps
                                           `next_frame = Σ cleaned lengths mod 3`, and its cleaned blocks read off
                                           the CDS are exactly `Spec.cdsKept` — whenever the walk is `shallowTrim`
                                           (otherwise the pinned code refuses the CDS: F-C05b)
    T1r deep_trim_is_refused               … and when it is not, the modelled code (like the library) refuses the
                                           multi-exon CDS: a trimmed block gets end < start (F-C05b)
    T1' frame_shift_is_addition_mod3       the generated kernel `CDSFrame.shift`, for every integer shift
        offset_after_cut                   `_calculate_frame_offset`'s  CDSPhase(d % 3).to_frame().value = (−d) mod 3
    T2  codon_locations_are_reference_codons   `chromosome_codon_locations` / `chunk_relative_codon_locations` /
                                           `scan_codon_locations()`: every returned Location is well formed, on the
                                           CDS strand and denotes the k-th triple of `Spec.cdsKept` (C01-T3 composed
                                           with T1 through `from_single_intervals`, `_calculate_frame_offset`,
                                           `scan_windows`); `num_codons_is_reference_count`
    T2a fast_path_is_codon_concatenation   `extract_sequence` (fast path) = concatenation of the consecutive letter
                                           triples from the offset on; length multiple of three;
        codon_chunks_of_fast_path          re-chunking it by three (scan_codons / translate) gives those triples back
    T3  translate_is_standard_code         the translation loop on the generated tables meets `Spec.okTranslateCodons`:
                                           NCBI standard code, start rule per table (0 / 1 / 11), strict refusal,
                                           truncation at the first in-frame stop; `gencode_is_ncbi_standard`
    T4  generated_frames_are_one_reading_frame   construct_frames_from_location never re-synchronises: the walk keeps
                                           every position after the first `starting_frame` (every layout, also
                                           overlapping / empty blocks, as long as the 5' block holds the offset: F-C05h)
    T5  window_codons_are_the_inner_codons       `scan_chromosome_codon_locations(lo, hi)` (= `scan_chunk_relative_…`
                                           on a chromosome parent), lo < hi, at least one kept position inside, no
                                           expand: the returned locations are the codons of the CDS lying inside the
                                           window — multi-exon CDS (every frame vector) and
        window_codons_single_exon_frame0   single-exon CDS with start frame 0 (frame ≠ 0: F-C05a);
        window_codons_single_exon          single-exon CDS, ANY start frame, on the complement of F-C05a
                                           (`frame + ((−d) mod 3) < 3`, d = exon positions cut at the 5' end)
        window_codons_with_expand          `expand_window_to_partial_codons=True` on a CDS read in one frame 0 whose
                                           expansion stays inside the complete codons (complement: F-C05f / F-C05g)
        window_none_start / _end / _both   a `None` bound is `cds_starts[0]` / `cds_ends[-1]`; both `None` = no window
        window_offset_arithmetic           the arithmetic core (offset (−d) mod 3 ⇒ exactly the inner codons)
    T6  codonless_cds_answers, codonless_cds_has_no_codons   every answer on a CDS without a complete codon
    T7  chunk_model_*                      the C07 chunk model delegates to these functions (no second copy can drift)

    T2b coding_sequence_is_codon_concatenation   `okCdsSeq`: extract_sequence() of the CDS = concatenation of the
                                           letters of the reference codons (complemented on the minus strand)
        cached_path_equals_fast_path             … and the cached codon path returns the same letters
    T3b protein_is_standard_code_translation     `okTranslate`: translate(trunc, table, strict) of the CDS
        codon_iterator_lists_reference_codons    `okScanCodons`: scan_codons(trunc)
        start_codon_predicates_read_first_codon, canonical_start_reads_first_codon   `okFirstCodon`
        valid_stop_reads_last_codon              `okHasValidStop`
        in_frame_stop_reads_inner_codons         `okInFrameStop`

  Resting on the correspondence run only: nothing of the property's clauses inside the stated domains; outside
  them the pinned code deviates (findings F-C05a..h, witnesses at the end).
-/
import BioCantor.Proofs.CDSPredicates
import BioCantor.Proofs.CDSDeepTrim
import BioCantor.Proofs.CDSWindowCodons
import BioCantor.Proofs.CDSExpand
import BioCantor.Proofs.CDSCorners
import BioCantor.Proofs.CDSChunkTie
import BioCantor.Proofs.CDSConstructFrames
import BioCantor.Proofs.CDSTranslate
import BioCantor.Proofs.CDSFastPath
set_option autoImplicit false   -- an unresolved name in a statement must be an error, never a bound variable
namespace BioCantor.Props.C05
open BioCantor BioCantor.Spec BioCantor.Model BioCantor.Proofs

-- `WFCDS c` (Proofs/CDSCodons.lean): what `CDSInterval.__init__` establishes plus the scope of C05 — directional
-- strand, exons of positive length that do not overlap, one real frame (0/1/2) per exon.
-- `specFrames c` = the frame values, `specOf c` = the spec's view ⟨c.loc, specFrames c, c.seq⟩ of the model object.

/-- **T1'** `CDSFrame.shift` (generated from gene/cds_frame.py) is addition modulo three for EVERY integer shift. -/
theorem frame_shift_is_addition_mod3 (f : CDSFrame) (hf : f ≠ .NONE) (n : Int) :
    ∃ g, frameShift f n = .ok g ∧ g.value = (f.value + n) % 3 ∧ g ≠ .NONE :=
  frameShift_ok f hf n

/-- **T1'** the offset `_calculate_frame_offset` derives from `d` bases cut at the 5' end is `(−d) mod 3`. -/
theorem offset_after_cut (d : Int) :
    (do let ph ← Model.phaseOfInt (d % 3); let fr ← phaseToFrame ph; pure fr.value : R Int) = .ok ((-d) % 3) :=
  phase_frame_offset d

/-- **T1** the frame-cleaning loop computes the reference walk.
    `sliceOf (bases loc) (s, e)` is the stretch `[s, e)` of the CDS read 5'→3', i.e. what
    `relative_interval_to_parent_location(s, e)` denotes by C01-T3. -/
theorem frame_cleaning_is_reference_walk (c : CDS) (h : WFCDS c)
    (hshallow : shallowTrim (exonWalk c.loc (specFrames c)) = true) :
    ∃ st, cleanExons c.loc CleanSt.init (c.exonIter.zip c.frameIter) = .ok st ∧
      st.nextFrame.value = cleanedSum st.cleanedRev % 3 ∧
      (∀ p ∈ st.cleanedRev, 0 ≤ p.1 ∧ p.1 ≤ p.2) ∧
      (st.cleanedRev.reverse.map (sliceOf (bases c.loc))).flatten = cdsKept c.loc (specFrames c) := by
  rcases hc : c.loc with ⟨bs, strand⟩
  rw [hc] at hshallow
  have hdir : strand = .plus ∨ strand = .minus := by have := h.dir; rw [hc] at this; exact this
  have hex : c.exonIter = scanOrder strand bs := by
    unfold CDS.exonIter scanOrder; rw [hc]
    rcases hdir with hd | hd <;> simp [hd]
  have hfr : c.frameIter = (if strand = .minus then c.frames.reverse else c.frames) := by
    unfold CDS.frameIter CDS.strand; rw [hc]
  rw [hex, hfr]
  have := cleanExons_cdsKept bs strand c.frames hdir (by have := h.valid; rw [hc] at this; exact this)
    (by have := h.nonOverlap; rw [hc] at this; exact this) (by have := h.positive; rw [hc] at this; exact this)
    (by have := h.frames_len; rw [hc] at this; exact this) h.frames_real
    (by unfold specFrames at hshallow; exact hshallow)
  exact this

/-- **T1 (refusal half)** a multi-exon CDS whose walk needs a deep trim is refused (InvalidPositionException from
    `relative_interval_to_parent_location(start > end)`), exactly the catalogued deviation F-C05b. -/
theorem deep_trim_is_refused (c : CDS) (h : WFCDS c) (hmulti : c.loc.blocks.length > 1)
    (hdeep : shallowTrim (exonWalk c.loc (specFrames c)) = false) :
    ans (codonLocations c) = none :=
  deepTrim_refused c h hmulti hdeep

/-- **T2** codon locations without a window.  `cdsKept ≠ []` excludes the multi-exon CDS without any retained
    base, which the pinned code refuses (F-C05c); a single-exon CDS needs no such guard. -/
theorem codon_locations_are_reference_codons (c : CDS) (h : WFCDS c)
    (hshallow : shallowTrim (exonWalk c.loc (specFrames c)) = true)
    (hkept : c.loc.blocks.length = 1 ∨ cdsKept c.loc (specFrames c) ≠ []) :
    okCodons (specOf c) none (ans (codonLocations c)) = true :=
  codonLocations_ok c h hshallow hkept

/-- **T2** `num_codons = |refKept| / 3`. -/
theorem num_codons_is_reference_count (c : CDS) (h : WFCDS c)
    (hshallow : shallowTrim (exonWalk c.loc (specFrames c)) = true)
    (hkept : c.loc.blocks.length = 1 ∨ cdsKept c.loc (specFrames c) ≠ []) :
    okNumCodons (specOf c) (ans (numCodons c)) = true :=
  numCodons_ok c h hshallow hkept

/-- **T2a** the fast path of `extract_sequence`: with `(location, offset)` prepared by
    `_prepare_*_window_for_scan_codon_locations` and `s` the letters of that location (one per position), the
    result is the concatenation of the consecutive triples of `s` from the offset on — a multiple of three. -/
theorem fast_path_is_codon_concatenation (c : CDS) (loc : Location) (off : Int) (s : List Char) (hoff : 0 ≤ off)
    (hp : prepare c none = .ok (loc, off)) (hs : locationSeq c.seq loc = .ok s) (hlen : s.length = locLen loc) :
    extractSequence c = .ok (triples (s.drop off.toNat)).flatten ∧
      (triples (s.drop off.toNat)).flatten.length % 3 = 0 :=
  ⟨extractSequence_fast c loc off s hoff hp hs hlen, triples_flatten_length _⟩

/-- **T2a** `seq[i:i+3] for i in range(0, len(seq), 3)` over the fast-path result returns the codons. -/
theorem codon_chunks_of_fast_path (s : List Char) : chunks3 (triples s).flatten = triples s :=
  chunks3_flatten_triples s

/-- **T2b** the coding sequence of the CDS is the concatenation of the codon sequences (`SeqOK`: the CDS carries
    the chromosome letters `chrom`, every exon lies inside them, every letter has a complement). -/
theorem coding_sequence_is_codon_concatenation (c : CDS) (h : WFCDS c)
    (hshallow : shallowTrim (exonWalk c.loc (specFrames c)) = true)
    (hkept : c.loc.blocks.length = 1 ∨ cdsKept c.loc (specFrames c) ≠ [])
    (chrom : List Char) (hs : SeqOK c chrom) :
    okCdsSeq (specOf c) (ans (extractSequence c)) = true :=
  cdsSeq_ok c h hshallow hkept chrom hs

/-- **T3b** the protein of the CDS is the standard-code translation of the reference codons, with the start rule
    of the table, the `strict` refusal and the truncation (letters: those `Codon` accepts, either case). -/
theorem protein_is_standard_code_translation (c : CDS) (h : WFCDS c)
    (hshallow : shallowTrim (exonWalk c.loc (specFrames c)) = true)
    (hkept : c.loc.blocks.length = 1 ∨ cdsKept c.loc (specFrames c) ≠ [])
    (chrom : List Char) (hs : SeqOK c chrom) (halpha : ∀ ch ∈ chrom, ch.toUpper ∈ Gen.codonAlphabet)
    (trunc strict : Bool) (table : Nat) (ht : table = 0 ∨ table = 1 ∨ table = 11) :
    okTranslate (specOf c) trunc table strict (ans (translate c trunc (table : Int) strict)) = true :=
  translate_ok c h hshallow hkept chrom hs halpha trunc strict table ht

/-- **T2b** the cached codon path (`extract_sequence()` after the codon locations were listed) returns the same
    letters as the fast path. -/
theorem cached_path_equals_fast_path (c : CDS) (h : WFCDS c)
    (hshallow : shallowTrim (exonWalk c.loc (specFrames c)) = true)
    (hkept : c.loc.blocks.length = 1 ∨ cdsKept c.loc (specFrames c) ≠ [])
    (chrom : List Char) (hs : SeqOK c chrom) :
    okCdsSeq (specOf c) (ans (extractSequenceCached c)) = true ∧ extractSequenceCached c = extractSequence c :=
  cachedSeq_ok c h hshallow hkept chrom hs

/-- **T3b** `scan_codons(truncate_at_in_frame_stop)` lists the upper-case reference codons (cut after the first stop). -/
theorem codon_iterator_lists_reference_codons (c : CDS) (h : WFCDS c)
    (hshallow : shallowTrim (exonWalk c.loc (specFrames c)) = true)
    (hkept : c.loc.blocks.length = 1 ∨ cdsKept c.loc (specFrames c) ≠ [])
    (chrom : List Char) (hs : SeqOK c chrom) (halpha : ∀ ch ∈ chrom, ch.toUpper ∈ Gen.codonAlphabet) (trunc : Bool) :
    okScanCodons (specOf c) trunc (ans (scanCodons c trunc)) = true :=
  scanCodons_ok c h hshallow hkept chrom hs halpha trunc

/-- **T3b** `has_start_codon_in_specific_translation_table` is "the first reference codon is a start codon of the
    table"; on a CDS without a complete codon the answer is `false` (repaired F-C19e: `next(…, None)`). -/
theorem start_codon_predicates_read_first_codon (c : CDS) (h : WFCDS c)
    (hshallow : shallowTrim (exonWalk c.loc (specFrames c)) = true)
    (hkept : c.loc.blocks.length = 1 ∨ cdsKept c.loc (specFrames c) ≠ [])
    (chrom : List Char) (hs : SeqOK c chrom) (halpha : ∀ ch ∈ chrom, ch.toUpper ∈ Gen.codonAlphabet)
    (table : Nat) (starts : List (List Char)) (ht : startCodonsOf table = some starts) :
    okFirstCodon (specOf c) starts (ans (hasStartCodonIn c (table : Int))) = true :=
  startCodon_ok c h hshallow hkept chrom hs halpha table starts ht

/-- **T3b** `has_canonical_start_codon` -/
theorem canonical_start_reads_first_codon (c : CDS) (h : WFCDS c)
    (hshallow : shallowTrim (exonWalk c.loc (specFrames c)) = true)
    (hkept : c.loc.blocks.length = 1 ∨ cdsKept c.loc (specFrames c) ≠ [])
    (chrom : List Char) (hs : SeqOK c chrom) (halpha : ∀ ch ∈ chrom, ch.toUpper ∈ Gen.codonAlphabet) :
    okFirstCodon (specOf c) ["ATG".toList] (ans (hasCanonicalStartCodon c)) = true :=
  canonicalStart_ok c h hshallow hkept chrom hs halpha

/-- **T3b** `has_valid_stop` is "the last reference codon is a stop codon". -/
theorem valid_stop_reads_last_codon (c : CDS) (h : WFCDS c)
    (hshallow : shallowTrim (exonWalk c.loc (specFrames c)) = true)
    (hkept : c.loc.blocks.length = 1 ∨ cdsKept c.loc (specFrames c) ≠ [])
    (chrom : List Char) (hs : SeqOK c chrom) (halpha : ∀ ch ∈ chrom, ch.toUpper ∈ Gen.codonAlphabet) :
    okHasValidStop (specOf c) (ans (hasValidStop c)) = true :=
  hasValidStop_ok c h hshallow hkept chrom hs halpha

/-- **T3b** `has_in_frame_stop` is "a reference codon other than the last is a stop codon" (refused exactly when
    the default strict translation is). -/
theorem in_frame_stop_reads_inner_codons (c : CDS) (h : WFCDS c)
    (hshallow : shallowTrim (exonWalk c.loc (specFrames c)) = true)
    (hkept : c.loc.blocks.length = 1 ∨ cdsKept c.loc (specFrames c) ≠ [])
    (chrom : List Char) (hs : SeqOK c chrom) (halpha : ∀ ch ∈ chrom, ch.toUpper ∈ Gen.codonAlphabet) :
    okInFrameStop (specOf c) (ans (hasInFrameStop c)) = true :=
  hasInFrameStop_ok c h hshallow hkept chrom hs halpha

/-- **T3** the generated `gencode` dictionary is the NCBI standard code, on every string. -/
theorem gencode_is_ncbi_standard (v : List Char) : Gen.gencode.lookup v = standardCode v :=
  gencode_eq_standard v

/-- **T3** `translate` on a list of codons (upper case, letters `Codon` accepts): standard code, start-codon
    rule of the table, `strict` refusal, truncation at the first in-frame stop. -/
theorem translate_is_standard_code (trunc strict : Bool) (table : Nat) (ht : table = 0 ∨ table = 1 ∨ table = 11)
    (cods : List (List Char)) (hok : ∀ cod ∈ cods, CodonOK cod) :
    okTranslateCodons cods trunc table strict (ans (translateLoop trunc (table : Int) strict 0 cods)) = true :=
  translateLoop_okTranslateCodons trunc strict table ht cods hok

/-- **T4** frames generated for a location from a start offset describe one uninterrupted reading frame. -/
theorem generated_frames_are_one_reading_frame (l : Location) (loc : Loc) (hl : toLoc l = some loc)
    (hne : loc.blocks ≠ []) (hdir : loc.strand = .plus ∨ loc.strand = .minus) (f : CDSFrame) (hf : f ≠ .NONE)
    (hfirst : loc.blocks.length = 1 ∨ f.value ≤ (firstLen loc : Int)) :
    okFrames loc f.value.toNat ((ans (constructFramesFromLocation l f)).map frameVals) = true :=
  constructFrames_ok l loc hl hne hdir f hf hfirst

/-- **T5** codon windows, multi-exon CDS.  `inW lo hi p` is `lo ≤ p < hi`.  The guards are the complement of the
    catalogued deviations: `lo < hi` (F-C05d), a kept position inside the window (F-C05e), no expand (F-C05f/g);
    `hseq`: the window must not reach past the chromosome letters (the library then refuses it). -/
theorem window_codons_are_the_inner_codons (c : CDS) (h : WFCDS c) (hmulti : c.loc.blocks.length > 1)
    (hshallow : shallowTrim (exonWalk c.loc (specFrames c)) = true)
    (lo hi : Nat) (hw : lo < hi) (hseq : ∀ s, c.seq = some s → hi ≤ s.length)
    (hsome : (cdsKept c.loc (specFrames c)).filter (inW lo hi) ≠ []) :
    okCodons (specOf c) (some ⟨some (lo : Int), some (hi : Int), false⟩)
      (ans (scanChromosomeCodonLocations c (some ⟨some (lo : Int), some (hi : Int), false⟩))) = true :=
  windowCodons_multi c h hmulti hshallow lo hi hw hseq hsome

/-- **T5** codon windows, single-exon CDS with start frame 0 (with frame 1 / 2 the pinned code does not reduce the
    offset modulo three and loses codons: F-C05a, witness below). -/
theorem window_codons_single_exon_frame0 (c : CDS) (h : WFCDS c) (e : Blk) (hone : c.loc.blocks = [e])
    (hf : c.frames = [.ZERO]) (lo hi : Nat) (hw : lo < hi) (hseq : ∀ s, c.seq = some s → hi ≤ s.length)
    (hsome : (cdsKept c.loc (specFrames c)).filter (inW lo hi) ≠ []) :
    okCodons (specOf c) (some ⟨some (lo : Int), some (hi : Int), false⟩)
      (ans (scanChromosomeCodonLocations c (some ⟨some (lo : Int), some (hi : Int), false⟩))) = true :=
  windowCodons_single c h e hone hf lo hi hw hseq hsome

/-- **T5** codon windows, single-exon CDS with ANY start frame, on the complement of F-C05a.  With `d` = the
    number of exon positions before the window on the 5' side, the pinned code adds `frame + ((−d) mod 3)` without
    reducing modulo three; the answer is right exactly when that sum stays below three — in particular for every
    window that does not cut the 5' end (`d = 0`) and for every window when `frame = 0`. -/
theorem window_codons_single_exon (c : CDS) (h : WFCDS c) (e : Blk) (hone : c.loc.blocks = [e])
    (f : CDSFrame) (hf : c.frames = [f]) (lo hi : Nat) (hw : lo < hi) (hseq : ∀ s, c.seq = some s → hi ≤ s.length)
    (hsome : (bases c.loc).filter (inW lo hi) ≠ [])
    (hguard : f.value.toNat + (3 - ((bases c.loc).filter (beforeW c.loc.strand lo hi)).length % 3) % 3 < 3) :
    okCodons (specOf c) (some ⟨some (lo : Int), some (hi : Int), false⟩)
      (ans (scanChromosomeCodonLocations c (some ⟨some (lo : Int), some (hi : Int), false⟩))) = true :=
  windowCodons_single_any c h e hone f hf lo hi hw hseq hsome hguard

/-- **T5** `expand_window_to_partial_codons=True`.  Domain (the complement of F-C05g and F-C05f): the CDS is read
    in one uninterrupted frame 0 (`cdsKept = bases`: start frame 0, no re-synchronisation), and rounding the window's
    CDS stretch `[d, d+m)` up to `3⌈(d+m)/3⌉` stays inside the CDS.  `hstart`/`hend`: the exons were given in order
    (`self.start = cds_starts[0]` is the smallest start).  Then the answer is every codon with at least one position
    inside `[lo, hi)`. -/
theorem window_codons_with_expand (c : CDS) (h : WFCDS c)
    (hstart : c.start = locStartMin c.loc) (hend : c.«end» = locEndMax c.loc.blocks)
    (hplain : cdsKept c.loc (specFrames c) = bases c.loc)
    (hshallow : shallowTrim (exonWalk c.loc (specFrames c)) = true)
    (hcase : c.loc.blocks.length > 1 ∨ ∃ e, c.loc.blocks = [e] ∧ c.frames = [.ZERO])
    (lo hi : Nat) (hw : lo < hi)
    (hseq : ∀ s, c.seq = some s → hi ≤ s.length ∧ locEndMax c.loc.blocks ≤ s.length)
    (hsome : (bases c.loc).filter (inW lo hi) ≠ [])
    (htail : 3 * ((((bases c.loc).filter (beforeW c.loc.strand lo hi)).length +
        ((bases c.loc).filter (inW lo hi)).length + 2) / 3) ≤ (bases c.loc).length) :
    okCodons (specOf c) (some ⟨some (lo : Int), some (hi : Int), true⟩)
      (ans (scanChromosomeCodonLocations c (some ⟨some (lo : Int), some (hi : Int), true⟩))) = true :=
  expandWindowCodons c h hstart hend hplain hshallow hcase lo hi hw hseq hsome htail

/-- **T5** `chromosome_start=None` means `self.start`: model and clause agree on it, so every window theorem
    above transfers (`lo := c.start`). -/
theorem window_none_start (c : CDS) (hstart : c.start = locStartMin c.loc) (hi : Int) (x : Bool) :
    scanChromosomeCodonLocations c (some ⟨none, some hi, x⟩) =
        scanChromosomeCodonLocations c (some ⟨some (c.start : Int), some hi, x⟩) ∧
      ∀ a, okCodons (specOf c) (some ⟨none, some hi, x⟩) a =
        okCodons (specOf c) (some ⟨some (c.start : Int), some hi, x⟩) a :=
  ⟨scan_none_start c hi x, okCodons_none_start c hstart hi x⟩

/-- **T5** `chromosome_end=None` means `self.end`. -/
theorem window_none_end (c : CDS) (hend : c.«end» = locEndMax c.loc.blocks) (lo : Int) (x : Bool) :
    scanChromosomeCodonLocations c (some ⟨some lo, none, x⟩) =
        scanChromosomeCodonLocations c (some ⟨some lo, some (c.«end» : Int), x⟩) ∧
      ∀ a, okCodons (specOf c) (some ⟨some lo, none, x⟩) a =
        okCodons (specOf c) (some ⟨some lo, some (c.«end» : Int), x⟩) a :=
  ⟨scan_none_end c lo x, okCodons_none_end c hend lo x⟩

/-- **T5** both bounds `None`: no window (T2 applies). -/
theorem window_none_both (c : CDS) (x : Bool) :
    scanChromosomeCodonLocations c (some ⟨none, none, x⟩) = codonLocations c :=
  scan_none_both c x

/-- **T5 (arithmetic core)** `d` retained bases lie before the window, `m` inside it; iterating triples from offset
    `(−d) mod 3` (`offset_after_cut`) over the window's stretch yields exactly the codons inside the window. -/
theorem window_offset_arithmetic (kept : List Nat) (d m : Nat) :
    triples (((kept.drop d).take m).drop ((3 - d % 3) % 3)) =
      ((triples kept).drop ((d + 2) / 3)).take ((d + m) / 3 - (d + 2) / 3) :=
  window_triples kept d m

/-- **T6** a CDS without a complete codon (fewer than three kept positions): no codons, empty protein, no start codon
    (repaired F-C19e: `false`, not StopIteration), no in-frame stop, no valid stop
    (repaired 7757ccc: `false`, not ValueError from `Codon("")`). -/
theorem codonless_cds_answers (c : CDS) (h : WFCDS c)
    (hshallow : shallowTrim (exonWalk c.loc (specFrames c)) = true)
    (hkept : c.loc.blocks.length = 1 ∨ cdsKept c.loc (specFrames c) ≠ [])
    (chrom : List Char) (hs : SeqOK c chrom) (hless : (cdsKept c.loc (specFrames c)).length < 3)
    (trunc strict : Bool) (table : Int) :
    extractSequence c = .ok [] ∧
    scanCodons c trunc = .ok [] ∧
    translate c trunc table strict = .ok [] ∧
    hasCanonicalStartCodon c = .ok false ∧
    hasStartCodonIn c table = .ok false ∧
    hasInFrameStop c = .ok false ∧
    hasValidStop c = .ok false :=
  ⟨codonless_sequence c h hshallow hkept chrom hs hless,
   codonless_answers c h hshallow hkept chrom hs hless trunc strict table⟩

/-- **T6** … and `num_codons = 0`. -/
theorem codonless_cds_has_no_codons (c : CDS) (h : WFCDS c)
    (hshallow : shallowTrim (exonWalk c.loc (specFrames c)) = true)
    (hkept : c.loc.blocks.length = 1 ∨ cdsKept c.loc (specFrames c) ≠ [])
    (hless : (cdsKept c.loc (specFrames c)).length < 3) :
    numCodons c = .ok 0 :=
  codonless_numCodons c h hshallow hkept hless

/-- **T7** the chunk model of C07 (`Model/Chunk.lean`) does not re-model the chromosome-level machinery: the
    chromosome-level answers of a chunk-built CDS are these functions on `k.base`, definitionally. -/
theorem chunk_model_chromosome_answers (k : Model.Chunk.ChunkCDS) :
    Model.Chunk.chromosomeCodonLocations k = codonLocations k.base ∧
      Model.Chunk.numCodonsChunk k = numCodons k.base :=
  ⟨chunk_chromosome_codons_delegate k, chunk_numCodons_delegate k⟩

/-- **T7** a chunk-built CDS without a base in the chunk (`_location` is the EmptyLocation, so it is not
    chunk-relative) answers every chunk-relative question through the functions of this file. -/
theorem chunk_model_off_chunk (k : Model.Chunk.ChunkCDS) (h : k.location = .empty) (lo hi : Int) :
    Model.Chunk.chunkRelativeCodonLocations k = codonLocations k.base ∧
      Model.Chunk.scanChunkRelativeCodonLocations k lo hi =
        scanChromosomeCodonLocations k.base (some ⟨some lo, some hi, false⟩) :=
  ⟨chunk_codons_off_chunk k h, chunk_window_codons_off_chunk k h lo hi⟩

/-- **T7** the one stretch of control flow that `Model/Chunk.lean` repeats (`cleanedLoc`) is the cleaned location
    inside `prepareMulti`; on the chunk the only difference is the lift of the restricted location before
    `_calculate_frame_offset` (`chunkBranch`). -/
theorem chunk_model_cleaned_location (c : CDS) (win : Option Blk) :
    prepareMulti c win = (do
      let cleaned ← Model.Chunk.cleanedLoc c
      let rel ← (match windowTruthy win with
        | some w => intersectWindow cleaned w
        | none => pure (Location.compound cleaned))
      let offset ← calculateFrameOffset c (.compound cleaned) rel
      pure (rel, offset)) :=
  chunk_cleanedLoc_is_prepareMulti c win

/-! ### non-vacuity: concrete inputs satisfying the hypotheses -/

/-- a minus-strand CDS with a 0-bp gap and a programmed frameshift (frame vector not consistent) -/
def exampleCDS : CDS :=
  { loc := ⟨[(2, 7), (7, 11), (14, 20)], .minus⟩, start := 2, «end» := 20,
    frames := [.ONE, .TWO, .ZERO], seq := none }

example : WFCDS exampleCDS := by
  constructor <;> simp [exampleCDS] <;> decide
example : shallowTrim (exonWalk exampleCDS.loc (specFrames exampleCDS)) = true := by decide
-- the walk really re-synchronises here (twice): 10 of the 15 positions are kept
example : (cdsKept exampleCDS.loc (specFrames exampleCDS)).length = 10 := by decide
example : CodonOK "ATG".toList ∧ CodonOK "CTN".toList := by
  refine ⟨⟨rfl, ?_⟩, ⟨rfl, ?_⟩⟩ <;> decide
example : toLoc (.compound ⟨[(0, 5), (7, 11), (12, 18)], .minus⟩) = some ⟨[(0, 5), (7, 11), (12, 18)], .minus⟩ ∧
    (CDSFrame.TWO).value ≤ (firstLen ⟨[(0, 5), (7, 11), (12, 18)], .minus⟩ : Int) := by decide

-- a window over the example CDS that holds kept positions
example : (cdsKept exampleCDS.loc (specFrames exampleCDS)).filter (inW 3 18) ≠ [] := by decide

-- the hypotheses of `fast_path_is_codon_concatenation` are met by every well-formed CDS (`prepared_cases`)
example : ∃ (L : List Blk) (off : Nat), prepare exampleCDS none = .ok (.compound ⟨L, exampleCDS.loc.strand⟩, (off : Int)) := by
  have hwf : WFCDS exampleCDS := by constructor <;> simp [exampleCDS] <;> decide
  obtain ⟨L, off, h, _⟩ := prepared_cases exampleCDS hwf (by decide) (Or.inr (by decide))
  exact ⟨L, off, h⟩

/-- a CDS read in one frame 0 (two exons of 3 and 6 bases) for `window_codons_with_expand`, window [2, 7) -/
def plainTwoExonCDS : CDS :=
  { loc := ⟨[(1, 4), (6, 12)], .plus⟩, start := 1, «end» := 12, frames := [.ZERO, .ZERO], seq := none }
example : WFCDS plainTwoExonCDS := by constructor <;> simp [plainTwoExonCDS] <;> decide
example : plainTwoExonCDS.start = locStartMin plainTwoExonCDS.loc ∧
    plainTwoExonCDS.«end» = locEndMax plainTwoExonCDS.loc.blocks ∧
    cdsKept plainTwoExonCDS.loc (specFrames plainTwoExonCDS) = bases plainTwoExonCDS.loc ∧
    shallowTrim (exonWalk plainTwoExonCDS.loc (specFrames plainTwoExonCDS)) = true ∧
    plainTwoExonCDS.loc.blocks.length > 1 ∧
    (bases plainTwoExonCDS.loc).filter (inW 2 7) ≠ [] ∧
    3 * ((((bases plainTwoExonCDS.loc).filter (beforeW plainTwoExonCDS.loc.strand 2 7)).length +
        ((bases plainTwoExonCDS.loc).filter (inW 2 7)).length + 2) / 3) ≤ (bases plainTwoExonCDS.loc).length := by
  decide

/-- the example CDS with letters: every hypothesis of T2b / T3b holds -/
def exampleSeqCDS : CDS := { exampleCDS with seq := some "ACGTNACGTAGCTAGCTRYAcgt".toList }
example : SeqOK exampleSeqCDS "ACGTNACGTAGCTAGCTRYAcgt".toList := by
  constructor
  · rfl
  · decide
  · decide
example : ∀ ch ∈ "ACGTNACGTAGCTAGCTRYAcgt".toList, ch.toUpper ∈ Gen.codonAlphabet := by decide

/-! ### stated, not proved (these clauses rest on the correspondence run of harness/props/c05.py)

  T5 with `expand_window_to_partial_codons = True`: on a CDS in one uninterrupted frame 0 and for windows that do not
    reach the trailing incomplete codon,
      okCodons (specOf c) (some ⟨some lo, some hi, true⟩) (ans (scanChromosomeCodonLocations c (some ⟨some lo, some hi, true⟩))) = true
    (everywhere else the pinned code deviates: F-C05f, F-C05g).  `_expand_coordinates_to_codons` is modelled
    (`Model.expandCoordinatesToCodons`) and compared on every run; no theorem.

  T5 with a `None` bound (`W _ hi` / `W lo _`): the bound is replaced by `cds_starts[0]` / `cds_ends[-1]` and the
    statement above applies; not written out.
-/

/-! ### witnesses: the modelled current code deviates at the catalogued inputs (findings/C05.json) -/

/-- F-C05a: one exon [3,30) +, start frame 1, window [4,10): the modelled code returns one codon, the property
    demands two -/
def oneExonCDS : CDS := { loc := ⟨[(3, 30)], .plus⟩, start := 3, «end» := 30, frames := [.ONE], seq := none }
example : ans (scanChromosomeCodonLocations oneExonCDS (some ⟨some 4, some 10, false⟩)) =
    some [.single (7, 10) .plus] := by decide +kernel
example : expectCodons (specOf oneExonCDS) (some ⟨some 4, some 10, false⟩) = [[4, 5, 6], [7, 8, 9]] := by
  decide +kernel
example : okCodons (specOf oneExonCDS) (some ⟨some 4, some 10, false⟩)
    (ans (scanChromosomeCodonLocations oneExonCDS (some ⟨some 4, some 10, false⟩))) = false := by decide +kernel

-- … while the same CDS meets every hypothesis of `window_codons_single_exon` for windows that do not cut the 5' end
-- ([3, 10): d = 0) and for the 5'-cutting window [5, 12) (d = 2: 1 + ((−2) mod 3) = 2 < 3)
example : WFCDS oneExonCDS ∧ oneExonCDS.loc.blocks = [(3, 30)] ∧ oneExonCDS.frames = [.ONE] := by
  refine ⟨?_, rfl, rfl⟩
  constructor <;> simp [oneExonCDS] <;> decide
example : (bases oneExonCDS.loc).filter (inW 3 10) ≠ [] ∧
    CDSFrame.ONE.value.toNat + (3 - ((bases oneExonCDS.loc).filter (beforeW .plus 3 10)).length % 3) % 3 < 3 := by
  decide
example : (bases oneExonCDS.loc).filter (inW 5 12) ≠ [] ∧
    CDSFrame.ONE.value.toNat + (3 - ((bases oneExonCDS.loc).filter (beforeW .plus 5 12)).length % 3) % 3 < 3 := by
  decide
-- and the F-C05a window [4, 10) is exactly outside the guard (d = 1: 1 + 2 = 3)
example : ¬ (CDSFrame.ONE.value.toNat +
    (3 - ((bases oneExonCDS.loc).filter (beforeW .plus 4 10)).length % 3) % 3 < 3) := by decide

/-- F-C05b: starts [2,8,9] ends [6,9,10] frames [0,1,0] + : the walk needs a deep trim; the modelled code refuses -/
def deepTrimCDS : CDS :=
  { loc := ⟨[(2, 6), (8, 9), (9, 10)], .plus⟩, start := 2, «end» := 10, frames := [.ZERO, .ONE, .ZERO], seq := none }
example : shallowTrim (exonWalk deepTrimCDS.loc (specFrames deepTrimCDS)) = false := by decide
example : (cdsCodons deepTrimCDS.loc (specFrames deepTrimCDS)) = [[2, 3, 4]] := by decide
example : ans (codonLocations deepTrimCDS) = none := by decide +kernel
example : WFCDS deepTrimCDS ∧ deepTrimCDS.loc.blocks.length > 1 := by
  refine ⟨?_, by decide⟩
  constructor <;> simp [deepTrimCDS] <;> decide

/-- F-C05c: exons [1,2) [2,3) frames [0,2] + : no base survives; the modelled multi-exon path refuses -/
def emptiedCDS : CDS :=
  { loc := ⟨[(1, 2), (2, 3)], .plus⟩, start := 1, «end» := 3, frames := [.ZERO, .TWO], seq := none }
example : cdsKept emptiedCDS.loc (specFrames emptiedCDS) = [] := by decide
example : ans (numCodons emptiedCDS) = none := by decide +kernel

/-- F-C05d / F-C05e: a zero-length window returns every codon; a window without retained base is refused -/
def plainCDS : CDS := { loc := ⟨[(1, 4)], .plus⟩, start := 1, «end» := 4, frames := [.ZERO], seq := none }
example : ans (scanChromosomeCodonLocations plainCDS (some ⟨some 0, some 0, false⟩)) =
    some [.single (1, 4) .plus] := by decide +kernel
example : ans (scanChromosomeCodonLocations plainCDS (some ⟨some 5, some 9, false⟩)) = none := by decide +kernel
-- … while it satisfies every hypothesis of `window_codons_single_exon_frame0` for the window [0, 5)
example : WFCDS plainCDS ∧ plainCDS.loc.blocks = [(1, 4)] ∧ plainCDS.frames = [.ZERO] ∧
    (cdsKept plainCDS.loc (specFrames plainCDS)).filter (inW 0 5) ≠ [] := by
  refine ⟨?_, rfl, rfl, by decide⟩
  constructor <;> simp [plainCDS] <;> decide

/-- repaired F-C19e (regression): a CDS without a complete codon answers `false` -/
def codonlessCDS : CDS :=
  { loc := ⟨[(0, 3)], .plus⟩, start := 0, «end» := 3, frames := [.TWO], seq := some "ACGTACGT".toList }
example : ans (hasCanonicalStartCodon codonlessCDS) = some false := by decide +kernel
example : ans (hasStartCodonIn codonlessCDS 11) = some false := by decide +kernel
-- it satisfies the hypotheses of `codonless_cds_answers`
example : WFCDS codonlessCDS ∧ SeqOK codonlessCDS "ACGTACGT".toList ∧
    (cdsKept codonlessCDS.loc (specFrames codonlessCDS)).length < 3 := by
  refine ⟨?_, ⟨rfl, by decide, by decide⟩, by decide⟩
  constructor <;> simp [codonlessCDS] <;> decide

/-- F-C05h: first block shorter than the start offset -/
example : ans (constructFramesFromLocation (.compound ⟨[(0, 1), (7, 11)], .plus⟩) .TWO) = some [.TWO, .TWO] := by
  decide +kernel
example : okFrames ⟨[(0, 1), (7, 11)], .plus⟩ 2 (some [2, 2]) = false := by decide +kernel

end BioCantor.Props.C05
