/-
  C05 — CDS codons, frame bookkeeping and translation follow one reading-frame model.

  Property theorems only (helper lemmas live in BioCantor/Proofs/CDS*.lean).  The reference semantics is
  `Spec.refKept` (Spec/ReadingFrame.lean): walk the exons 5'→3', re-synchronise where an exon's annotated frame
  differs from `|kept| mod 3`; codons are the consecutive triples of the kept positions.

  What is proved here, for ALL exon layouts of positive-length, non-overlapping exons (any number of exons,
  0-bp gaps included), both strands, all frame vectors (consistent or with programmed frameshifts):

    T1  frame_cleaning_is_reference_walk   the frame-cleaning loop (rel_start/rel_end through
                                           parent_to_relative_pos, `next_frame`, trimming `shift`) keeps
                                           `next_frame = Σ cleaned lengths mod 3`, and its cleaned blocks read off
                                           the CDS are exactly `Spec.cdsKept` — whenever the walk is `shallowTrim`
                                           (otherwise the pinned code refuses the CDS: F-C05b)
    T1r deep_trim_is_refused               … and when it is not, the modelled code (like the library) refuses the
                                           multi-exon CDS: a trimmed block gets end < start (F-C05b)
    T1' frame_shift_is_addition_mod3       the generated kernel `CDSFrame.shift`, for every integer shift
        offset_after_cut                   `_calculate_frame_offset`'s  CDSPhase(d % 3).to_frame().value = (−d) mod 3
    T2  codon_locations_are_reference_codons   `chromosome_codon_locations` / `chunk_relative_codon_locations` /
                                           `scan_codon_locations()`: every returned Location is well formed, on the
                                           CDS strand and denotes the k-th triple of `Spec.cdsKept` (C01-T3 composed
                                           with T1 through `from_single_intervals`, `_calculate_frame_offset`,
                                           `scan_windows`); `num_codons_is_reference_count`
    T2a fast_path_is_codon_concatenation   `extract_sequence` (fast path) = concatenation of the consecutive letter
                                           triples from the offset on; length multiple of three;
        codon_chunks_of_fast_path          re-chunking it by three (scan_codons / translate) gives those triples back
    T3  translate_is_standard_code         the translation loop on the generated tables meets `Spec.okTranslateCodons`:
                                           NCBI standard code, start rule per table (0 / 1 / 11), strict refusal,
                                           truncation at the first in-frame stop; `gencode_is_ncbi_standard`
    T4  generated_frames_are_one_reading_frame   construct_frames_from_location never re-synchronises: the walk keeps
                                           every position after the first `starting_frame` (every layout, also
                                           overlapping / empty blocks, as long as the 5' block holds the offset: F-C05h)
    T5  codon_window_partial               the window arithmetic: cutting d retained bases at the 5' end and iterating
                                           triples from offset (−d) mod 3 yields exactly the codons lying inside

    T2b coding_sequence_is_codon_concatenation   `okCdsSeq`: extract_sequence() of the CDS = concatenation of the
                                           letters of the reference codons (complemented on the minus strand)
    T3b protein_is_standard_code_translation     `okTranslate`: translate(trunc, table, strict) of the CDS

  Resting on the correspondence run (stated, not proved — see the comments at the end): the cached codon path of
  `extract_sequence`, `scan_codons` / `has_*` at the level of the CDS, and T5 in terms of chromosome windows
  (`okCodons … (some window)`).
-/
import BioCantor.Proofs.CDSSeq
import BioCantor.Proofs.CDSDeepTrim
import BioCantor.Proofs.CDSConstructFrames
import BioCantor.Proofs.CDSTranslate
import BioCantor.Proofs.CDSFastPath
namespace BioCantor.Props.C05
open BioCantor BioCantor.Spec BioCantor.Model BioCantor.Proofs

-- `WFCDS c` (Proofs/CDSCodons.lean): what `CDSInterval.__init__` establishes plus the scope of C05 — directional
-- strand, exons of positive length that do not overlap, one real frame (0/1/2) per exon.
-- `specFrames c` = the frame values, `specOf c` = the spec's view ⟨c.loc, specFrames c, c.seq⟩ of the model object.

/-- **T1'** `CDSFrame.shift` (generated from gene/cds_frame.py) is addition modulo three for EVERY integer shift. -/
theorem frame_shift_is_addition_mod3 (f : CDSFrame) (hf : f ≠ .NONE) (n : Int) :
    ∃ g, frameShift f n = .ok g ∧ g.value = (f.value + n) % 3 ∧ g ≠ .NONE :=
  frameShift_ok f hf n

/-- **T1'** the offset `_calculate_frame_offset` derives from `d` bases cut at the 5' end is `(−d) mod 3`. -/
theorem offset_after_cut (d : Int) :
    (do let ph ← Model.phaseOfInt (d % 3); let fr ← phaseToFrame ph; pure fr.value : R Int) = .ok ((-d) % 3) :=
  phase_frame_offset d

/-- **T1** the frame-cleaning loop computes the reference walk.
    `sliceOf (bases loc) (s, e)` is the stretch `[s, e)` of the CDS read 5'→3', i.e. what
    `relative_interval_to_parent_location(s, e)` denotes by C01-T3. -/
theorem frame_cleaning_is_reference_walk (c : CDS) (h : WFCDS c)
    (hshallow : shallowTrim (exonWalk c.loc (specFrames c)) = true) :
    ∃ st, cleanExons c.loc CleanSt.init (c.exonIter.zip c.frameIter) = .ok st ∧
      st.nextFrame.value = cleanedSum st.cleanedRev % 3 ∧
      (∀ p ∈ st.cleanedRev, 0 ≤ p.1 ∧ p.1 ≤ p.2) ∧
      (st.cleanedRev.reverse.map (sliceOf (bases c.loc))).flatten = cdsKept c.loc (specFrames c) := by
  rcases hc : c.loc with ⟨bs, strand⟩
  rw [hc] at hshallow
  have hdir : strand = .plus ∨ strand = .minus := by have := h.dir; rw [hc] at this; exact this
  have hex : c.exonIter = scanOrder strand bs := by
    unfold CDS.exonIter scanOrder; rw [hc]
    rcases hdir with hd | hd <;> simp [hd]
  have hfr : c.frameIter = (if strand = .minus then c.frames.reverse else c.frames) := by
    unfold CDS.frameIter CDS.strand; rw [hc]
  rw [hex, hfr]
  have := cleanExons_cdsKept bs strand c.frames hdir (by have := h.valid; rw [hc] at this; exact this)
    (by have := h.nonOverlap; rw [hc] at this; exact this) (by have := h.positive; rw [hc] at this; exact this)
    (by have := h.frames_len; rw [hc] at this; exact this) h.frames_real
    (by unfold specFrames at hshallow; exact hshallow)
  exact this

/-- **T1 (refusal half)** a multi-exon CDS whose walk needs a deep trim is refused (InvalidPositionException from
    `relative_interval_to_parent_location(start > end)`), exactly the catalogued deviation F-C05b. -/
theorem deep_trim_is_refused (c : CDS) (h : WFCDS c) (hmulti : c.loc.blocks.length > 1)
    (hdeep : shallowTrim (exonWalk c.loc (specFrames c)) = false) :
    ans (codonLocations c) = none :=
  deepTrim_refused c h hmulti hdeep

/-- **T2** codon locations without a window.  `cdsKept ≠ []` excludes the multi-exon CDS without any retained
    base, which the pinned code refuses (F-C05c); a single-exon CDS needs no such guard. -/
theorem codon_locations_are_reference_codons (c : CDS) (h : WFCDS c)
    (hshallow : shallowTrim (exonWalk c.loc (specFrames c)) = true)
    (hkept : c.loc.blocks.length = 1 ∨ cdsKept c.loc (specFrames c) ≠ []) :
    okCodons (specOf c) none (ans (codonLocations c)) = true :=
  codonLocations_ok c h hshallow hkept

/-- **T2** `num_codons = |refKept| / 3`. -/
theorem num_codons_is_reference_count (c : CDS) (h : WFCDS c)
    (hshallow : shallowTrim (exonWalk c.loc (specFrames c)) = true)
    (hkept : c.loc.blocks.length = 1 ∨ cdsKept c.loc (specFrames c) ≠ []) :
    okNumCodons (specOf c) (ans (numCodons c)) = true :=
  numCodons_ok c h hshallow hkept

/-- **T2a** the fast path of `extract_sequence`: with `(location, offset)` prepared by
    `_prepare_*_window_for_scan_codon_locations` and `s` the letters of that location (one per position), the
    result is the concatenation of the consecutive triples of `s` from the offset on — a multiple of three. -/
theorem fast_path_is_codon_concatenation (c : CDS) (loc : Location) (off : Int) (s : List Char) (hoff : 0 ≤ off)
    (hp : prepare c none = .ok (loc, off)) (hs : locationSeq c.seq loc = .ok s) (hlen : s.length = locLen loc) :
    extractSequence c = .ok (triples (s.drop off.toNat)).flatten ∧
      (triples (s.drop off.toNat)).flatten.length % 3 = 0 :=
  ⟨extractSequence_fast c loc off s hoff hp hs hlen, triples_flatten_length _⟩

/-- **T2a** `seq[i:i+3] for i in range(0, len(seq), 3)` over the fast-path result returns the codons. -/
theorem codon_chunks_of_fast_path (s : List Char) : chunks3 (triples s).flatten = triples s :=
  chunks3_flatten_triples s

/-- **T2b** the coding sequence of the CDS is the concatenation of the codon sequences (`SeqOK`: the CDS carries
    the chromosome letters `chrom`, every exon lies inside them, every letter has a complement). -/
theorem coding_sequence_is_codon_concatenation (c : CDS) (h : WFCDS c)
    (hshallow : shallowTrim (exonWalk c.loc (specFrames c)) = true)
    (hkept : c.loc.blocks.length = 1 ∨ cdsKept c.loc (specFrames c) ≠ [])
    (chrom : List Char) (hs : SeqOK c chrom) :
    okCdsSeq (specOf c) (ans (extractSequence c)) = true :=
  cdsSeq_ok c h hshallow hkept chrom hs

/-- **T3b** the protein of the CDS is the standard-code translation of the reference codons, with the start rule
    of the table, the `strict` refusal and the truncation (letters: those `Codon` accepts, either case). -/
theorem protein_is_standard_code_translation (c : CDS) (h : WFCDS c)
    (hshallow : shallowTrim (exonWalk c.loc (specFrames c)) = true)
    (hkept : c.loc.blocks.length = 1 ∨ cdsKept c.loc (specFrames c) ≠ [])
    (chrom : List Char) (hs : SeqOK c chrom) (halpha : ∀ ch ∈ chrom, ch.toUpper ∈ Gen.codonAlphabet)
    (trunc strict : Bool) (table : Nat) (ht : table = 0 ∨ table = 1 ∨ table = 11) :
    okTranslate (specOf c) trunc table strict (ans (translate c trunc (table : Int) strict)) = true :=
  translate_ok c h hshallow hkept chrom hs halpha trunc strict table ht

/-- **T3** the generated `gencode` dictionary is the NCBI standard code, on every string. -/
theorem gencode_is_ncbi_standard (v : List Char) : Gen.gencode.lookup v = standardCode v :=
  gencode_eq_standard v

/-- **T3** `translate` on a list of codons (upper case, letters `Codon` accepts): standard code, start-codon
    rule of the table, `strict` refusal, truncation at the first in-frame stop. -/
theorem translate_is_standard_code (trunc strict : Bool) (table : Nat) (ht : table = 0 ∨ table = 1 ∨ table = 11)
    (cods : List (List Char)) (hok : ∀ cod ∈ cods, CodonOK cod) :
    okTranslateCodons cods trunc table strict (ans (translateLoop trunc (table : Int) strict 0 cods)) = true :=
  translateLoop_okTranslateCodons trunc strict table ht cods hok

/-- **T4** frames generated for a location from a start offset describe one uninterrupted reading frame. -/
theorem generated_frames_are_one_reading_frame (l : Location) (loc : Loc) (hl : toLoc l = some loc)
    (hne : loc.blocks ≠ []) (hdir : loc.strand = .plus ∨ loc.strand = .minus) (f : CDSFrame) (hf : f ≠ .NONE)
    (hfirst : loc.blocks.length = 1 ∨ f.value ≤ (firstLen loc : Int)) :
    okFrames loc f.value.toNat ((ans (constructFramesFromLocation l f)).map frameVals) = true :=
  constructFrames_ok l loc hl hne hdir f hf hfirst

/- **T5** (full statement, not proved): for `c` with `WFCDS c`, `shallowTrim …`, a window `w = ⟨some lo, some hi, false⟩`
   with `0 ≤ lo < hi` holding at least one kept position (and, for a single-exon CDS, start frame 0):
       okCodons (specOf c) (some w) (ans (scanChromosomeCodonLocations c (some w))) = true
   Missing for the full statement: bases of `cleaned_location.intersection(window)` = the kept positions inside the
   window (a contiguous stretch `kept[d : d+m]`), and the filter-form of the right-hand side below.
   Outside that domain the pinned code deviates: F-C05a (single exon, frame ≠ 0), F-C05d (lo = hi), F-C05e (no kept
   position in the window), F-C05f / F-C05g (expand). -/
/-- **T5 (partial)** the arithmetic of a codon window on the kept list: `d` retained bases lie before the window,
    `m` inside it; iterating triples from offset `(−d) mod 3` (`offset_after_cut`) over the window's stretch yields
    exactly the codons of the CDS that lie inside the window. -/
theorem codon_window_partial (kept : List Nat) (d m : Nat) :
    triples (((kept.drop d).take m).drop ((3 - d % 3) % 3)) =
      ((triples kept).drop ((d + 2) / 3)).take ((d + m) / 3 - (d + 2) / 3) :=
  window_triples kept d m

/-! ### non-vacuity: concrete inputs satisfying the hypotheses -/

/-- a minus-strand CDS with a 0-bp gap and a programmed frameshift (frame vector not consistent) -/
def exampleCDS : CDS :=
  { loc := ⟨[(2, 7), (7, 11), (14, 20)], .minus⟩, start := 2, «end» := 20,
    frames := [.ONE, .TWO, .ZERO], seq := none }

example : WFCDS exampleCDS := by
  constructor <;> simp [exampleCDS] <;> decide
example : shallowTrim (exonWalk exampleCDS.loc (specFrames exampleCDS)) = true := by decide
-- the walk really re-synchronises here (twice): 10 of the 15 positions are kept
example : (cdsKept exampleCDS.loc (specFrames exampleCDS)).length = 10 := by decide
example : CodonOK "ATG".toList ∧ CodonOK "CTN".toList := by
  refine ⟨⟨rfl, ?_⟩, ⟨rfl, ?_⟩⟩ <;> decide
example : toLoc (.compound ⟨[(0, 5), (7, 11), (12, 18)], .minus⟩) = some ⟨[(0, 5), (7, 11), (12, 18)], .minus⟩ ∧
    (CDSFrame.TWO).value ≤ (firstLen ⟨[(0, 5), (7, 11), (12, 18)], .minus⟩ : Int) := by decide

/-- the example CDS with letters: every hypothesis of T2b / T3b holds -/
def exampleSeqCDS : CDS := { exampleCDS with seq := some "ACGTNACGTAGCTAGCTRYAcgt".toList }
example : SeqOK exampleSeqCDS "ACGTNACGTAGCTAGCTRYAcgt".toList := by
  constructor
  · rfl
  · decide
  · decide
example : ∀ ch ∈ "ACGTNACGTAGCTAGCTRYAcgt".toList, ch.toUpper ∈ Gen.codonAlphabet := by decide

/-! ### stated, not proved (these clauses rest on the correspondence run of harness/props/c05.py)

  `okScanCodons`, `okFirstCodon`, `okHasValidStop`, `okInFrameStop` at the level of the CDS: same route as
    T2b/T3b (`extractSequence_kept` gives the letters), not written out.

  T2 (cached path) — `extractSequenceCached c = extractSequence c`; needs the letters of every codon location
    (`locationSeq_letters` applied to the sub-intervals returned by `scan_windows`).

  T5 (full) — for a window [lo, hi):
      okCodons (specOf c) (some ⟨some lo, some hi, false⟩)
        (ans (scanChromosomeCodonLocations c (some ⟨some lo, some hi, false⟩))) = true
    outside the catalogued deviation classes (Spec.codonsClass: F-C05a, d, e, f, g).
    Proved part: `codon_window_partial` + `offset_after_cut` + T2 for the cleaned location.
    Missing: bases of `cleaned_location.intersection(window)` = the kept positions inside the window.

-/

/-! ### witnesses: the modelled current code deviates at the catalogued inputs (findings/C05.json) -/

/-- F-C05a: one exon [3,30) +, start frame 1, window [4,10): the modelled code returns one codon, the property
    demands two -/
def oneExonCDS : CDS := { loc := ⟨[(3, 30)], .plus⟩, start := 3, «end» := 30, frames := [.ONE], seq := none }
example : ans (scanChromosomeCodonLocations oneExonCDS (some ⟨some 4, some 10, false⟩)) =
    some [.single (7, 10) .plus] := by decide +kernel
example : expectCodons (specOf oneExonCDS) (some ⟨some 4, some 10, false⟩) = [[4, 5, 6], [7, 8, 9]] := by
  decide +kernel
example : okCodons (specOf oneExonCDS) (some ⟨some 4, some 10, false⟩)
    (ans (scanChromosomeCodonLocations oneExonCDS (some ⟨some 4, some 10, false⟩))) = false := by decide +kernel

/-- F-C05b: starts [2,8,9] ends [6,9,10] frames [0,1,0] + : the walk needs a deep trim; the modelled code refuses -/
def deepTrimCDS : CDS :=
  { loc := ⟨[(2, 6), (8, 9), (9, 10)], .plus⟩, start := 2, «end» := 10, frames := [.ZERO, .ONE, .ZERO], seq := none }
example : shallowTrim (exonWalk deepTrimCDS.loc (specFrames deepTrimCDS)) = false := by decide
example : (cdsCodons deepTrimCDS.loc (specFrames deepTrimCDS)) = [[2, 3, 4]] := by decide
example : ans (codonLocations deepTrimCDS) = none := by decide +kernel
example : WFCDS deepTrimCDS ∧ deepTrimCDS.loc.blocks.length > 1 := by
  refine ⟨?_, by decide⟩
  constructor <;> simp [deepTrimCDS] <;> decide

/-- F-C05c: exons [1,2) [2,3) frames [0,2] + : no base survives; the modelled multi-exon path refuses -/
def emptiedCDS : CDS :=
  { loc := ⟨[(1, 2), (2, 3)], .plus⟩, start := 1, «end» := 3, frames := [.ZERO, .TWO], seq := none }
example : cdsKept emptiedCDS.loc (specFrames emptiedCDS) = [] := by decide
example : ans (numCodons emptiedCDS) = none := by decide +kernel

/-- F-C05d / F-C05e: a zero-length window returns every codon; a window without retained base is refused -/
def plainCDS : CDS := { loc := ⟨[(1, 4)], .plus⟩, start := 1, «end» := 4, frames := [.ZERO], seq := none }
example : ans (scanChromosomeCodonLocations plainCDS (some ⟨some 0, some 0, false⟩)) =
    some [.single (1, 4) .plus] := by decide +kernel
example : ans (scanChromosomeCodonLocations plainCDS (some ⟨some 5, some 9, false⟩)) = none := by decide +kernel

/-- F-C05h: first block shorter than the start offset -/
example : ans (constructFramesFromLocation (.compound ⟨[(0, 1), (7, 11)], .plus⟩) .TWO) = some [.TWO, .TWO] := by
  decide +kernel
example : okFrames ⟨[(0, 1), (7, 11)], .plus⟩ 2 (some [2, 2]) = false := by decide +kernel

end BioCantor.Props.C05
