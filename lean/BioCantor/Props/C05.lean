/- C05 — placeholder while the proofs are being written -/
import BioCantor.Spec.ReadingFrame
import BioCantor.Model.CDS
namespace BioCantor.Props.C05
open BioCantor BioCantor.Spec BioCantor.Model

theorem triples_nil : triples ([] : List Nat) = [] := rfl

end BioCantor.Props.C05
