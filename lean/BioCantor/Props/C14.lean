/-
  C14 — the BED12 record of a transcript / feature is valid BED and reproduces the interval, in chromosome
  coordinates and (chunk-relative export) in chunk coordinates.

  Property theorems only (helper lemmas: Proofs/BedCodec.lean, Proofs/BedModel.lean).
    Spec.Bed.decode          an independent 12-column reader (unsigned decimal columns; a sign is invalid)
    Spec.Bed.okBed12 w ans   `ans` decodes, satisfies the format invariants (count = |sizes| = |starts| ≥ 1,
                             first start 0, starts ascending, last start + last size = end − start, thick range
                             inside [start,end] or the `0 0` no-thick convention) and gives back exactly blocks / strand / name / chrom / score /
                             colour / coding bounds in the coordinate system with origin `w.off`
    Model.Bed.txCore / featCore   mirror of `to_bed12` (`repaired = true`: the code as it is, after /repo commit f0d82c2)
  Every theorem quantifies over ALL intervals of the domain `wf`: any number of non-empty ascending
  non-overlapping blocks (0-bp gaps included), any strand, coding or not (CDS inside the exon bounds — what the
  constructor enforces, see `constructor_gives_domain`), any parent window containing the interval, any
  coordinates (unbounded decimal rendering), any score / colour / names without a tab.
-/
import BioCantor.Proofs.BedModel
set_option autoImplicit false   -- an unresolved name in a statement must be an error, never a bound variable
namespace BioCantor.Props.C14
open BioCantor BioCantor.Spec.Bed BioCantor.Model.Bed BioCantor.Proofs.Bed

/-- T0 (`BED12.__str__` against the independent reader): the rendered line splits into exactly twelve columns
    and every column is recovered, for every record with tab-free text columns, at least one block and
    non-negative block starts. -/
theorem str_decodes (b : Bed12) (sts : List Nat) (hst : b.blockStarts = sts.map Int.ofNat)
    (hc : '\t' ∉ optStr b.chrom) (hn : '\t' ∉ optStr b.name) (h1 : b.blockSizes ≠ []) (h2 : sts ≠ []) :
    decode b.str = some (rowOf b sts) :=
  decode_str b sts hst hc hn h1 h2

/-- what a `true` verdict means, spelled out: the line is BED12, the invariants of the format hold, and the
    decoded record gives back the exported content -/
theorem verdict_meaning (w : Want) (line : List Char) (h : okBed12 w (some line) = true) :
    ∃ r, decode line = some r
      ∧ r.blockCount = r.blockSizes.length ∧ r.blockCount = r.blockStarts.length ∧ 1 ≤ r.blockCount
      ∧ r.blockStarts.head? = some 0 ∧ ascending r.blockStarts = true
      ∧ lastReach r.blockStarts r.blockSizes = some (r.«end» - r.start)
      ∧ r.thickStart ≤ r.thickEnd ∧ ((r.thickStart = 0 ∧ r.thickEnd = 0) ∨ (r.start ≤ r.thickStart ∧ r.thickEnd ≤ r.«end»))
      ∧ (blocksOf r).map (shiftUp w.off) = w.exons ∧ r.strand = w.strand ∧ r.name = w.name
      ∧ r.chrom = w.chrom ∧ (cdsOf r).map (shiftUp w.off) = w.cds ∧ r.score = w.score ∧ r.rgb = w.rgb := by
  cases hd : decode line with
  | none => simp [okBed12, hd] at h
  | some r =>
    simp only [okBed12, hd] at h
    simp only [invariants, Bool.and_eq_true, Bool.or_eq_true, decide_eq_true_eq] at h
    obtain ⟨⟨⟨⟨⟨⟨⟨⟨⟨⟨⟨⟨⟨⟨⟨i1, i2⟩, i3⟩, i4⟩, i5⟩, _⟩, i7⟩, i8⟩, i9⟩, c1⟩, c2⟩, c3⟩, c4⟩, c5⟩, c6⟩, c7⟩ := h
    exact ⟨r, rfl, i1, i2, i3, i4, i5, i7, i8, i9, c6, c5, c2, c1, c7, c3, c4⟩

/-- T1 (transcripts, chromosome coordinates): the code meets C14 on every interval of the domain. -/
theorem tx_chromosome_mode (x : Iv) (score : Nat) (rgb : Nat × Nat × Nat) (sel : NameSel)
    (hwf : wf x = true) (ht1 : '\t' ∉ optStr x.seqName) (ht2 : '\t' ∉ optStr (selName x sel)) :
    ∃ b, txToBed12 x score rgb sel true = some b ∧
         okBed12 (wantOf x score rgb sel true) (some b.str) = true :=
  txCore_ok true true x score rgb sel hwf ht1 ht2 (Or.inl rfl)

/-- T1 (features, chromosome coordinates) -/
theorem feat_chromosome_mode (x : Iv) (score : Nat) (rgb : Nat × Nat × Nat) (sel : NameSel)
    (hwf : wf x = true) (hc : x.cds = none) (ht1 : '\t' ∉ optStr x.seqName) (ht2 : '\t' ∉ optStr (selName x sel)) :
    ∃ b, featToBed12 x score rgb sel true = some b ∧
         okBed12 (wantOf x score rgb sel true) (some b.str) = true := by
  unfold featToBed12; rw [featCore_eq true true x score rgb sel hc]
  exact txCore_ok true true x score rgb sel hwf ht1 ht2 (Or.inl rfl)

/-- T2 (transcripts, chunk-relative mode): every chunk window containing the interval. -/
theorem tx_chunk_mode (x : Iv) (score : Nat) (rgb : Nat × Nat × Nat) (sel : NameSel)
    (hwf : wf x = true) (ht1 : '\t' ∉ optStr x.seqName) (ht2 : '\t' ∉ optStr (selName x sel)) :
    ∃ b, txToBed12 x score rgb sel false = some b ∧
         okBed12 (wantOf x score rgb sel false) (some b.str) = true :=
  txCore_ok true false x score rgb sel hwf ht1 ht2 (Or.inl rfl)

/-- T2 (features, chunk-relative mode) -/
theorem feat_chunk_mode (x : Iv) (score : Nat) (rgb : Nat × Nat × Nat) (sel : NameSel)
    (hwf : wf x = true) (hc : x.cds = none) (ht1 : '\t' ∉ optStr x.seqName) (ht2 : '\t' ∉ optStr (selName x sel)) :
    ∃ b, featToBed12 x score rgb sel false = some b ∧
         okBed12 (wantOf x score rgb sel false) (some b.str) = true := by
  unfold featToBed12; rw [featCore_eq true false x score rgb sel hc]
  exact txCore_ok true false x score rgb sel hwf ht1 ht2 (Or.inl rfl)

/-- the code before the repair of F-C14a was right only when the coordinate origin of the export is 0 -/
theorem tx_chunk_mode_before_repair_partial (x : Iv) (score : Nat) (rgb : Nat × Nat × Nat) (sel : NameSel)
    (hwf : wf x = true) (ht1 : '\t' ∉ optStr x.seqName) (ht2 : '\t' ∉ optStr (selName x sel))
    (h0 : offOf false x.par = 0) :
    ∃ b, txToBed12Before x score rgb sel false = some b ∧
         okBed12 (wantOf x score rgb sel false) (some b.str) = true :=
  txCore_ok false false x score rgb sel hwf ht1 ht2 (Or.inr (Or.inr h0))

/-- the repair did not change chromosome-mode output -/
theorem repair_keeps_chromosome_mode (x : Iv) (score : Nat) (rgb : Nat × Nat × Nat) (sel : NameSel) :
    txToBed12 x score rgb sel true = txToBed12Before x score rgb sel true := by
  unfold txToBed12 txToBed12Before txCore
  cases x.exons <;> rfl

/-- the chrom, name, score, strand and colour columns are copied unchanged for EVERY interval and both modes (no
    domain restriction); `str_decodes` reads them back -/
theorem plain_columns (chromRel : Bool) (x : Iv) (score : Nat) (rgb : Nat × Nat × Nat) (sel : NameSel)
    (b : Bed12) (h : txToBed12 x score rgb sel chromRel = some b) :
    b.chrom = x.seqName ∧ b.name = selName x sel ∧ b.score = score ∧ b.strand = x.strand ∧ b.rgb = rgb :=
  txCore_plain_columns true chromRel x score rgb sel b h

/-- the non-coding convention: a transcript without CDS, and every feature, is written with thickStart = thickEnd = 0
    (for EVERY interval and both modes).  This is the one place where the record's thick columns lie outside
    [start, end]; `Spec.Bed.invariants` accepts exactly this pair and no other out-of-range pair. -/
theorem noncoding_thick_zero (chromRel : Bool) (x : Iv) (score : Nat) (rgb : Nat × Nat × Nat) (sel : NameSel)
    (hc : x.cds = none) (b : Bed12) (h : txToBed12 x score rgb sel chromRel = some b) :
    b.thickStart = 0 ∧ b.thickEnd = 0 :=
  txCore_noncoding_thick true chromRel x score rgb sel hc b h

theorem feature_thick_zero (chromRel : Bool) (x : Iv) (score : Nat) (rgb : Nat × Nat × Nat) (sel : NameSel)
    (b : Bed12) (h : featToBed12 x score rgb sel chromRel = some b) : b.thickStart = 0 ∧ b.thickEnd = 0 := by
  unfold featToBed12 featCore at h
  cases hex : x.exons with
  | nil => rw [hex] at h; simp at h
  | cons e0 erest =>
    rw [hex] at h
    cases chromRel with
    | true => simp only [if_true, Option.some.injEq] at h; subst h; exact ⟨rfl, rfl⟩
    | false =>
      simp only [Bool.false_eq_true, if_false] at h
      split at h
      · simp only [Option.some.injEq] at h; subst h; exact ⟨rfl, rfl⟩
      · simp at h

/-- in the domain `wf` (non-empty blocks) nothing is dropped: the record has one block per exon in both modes -/
theorem block_count_in_domain (chromRel : Bool) (x : Iv) (score : Nat) (rgb : Nat × Nat × Nat) (sel : NameSel)
    (hwf : wf x = true) (b : Bed12) (h : txToBed12 x score rgb sel chromRel = some b) :
    b.blockCount = x.exons.length ∧ b.blockSizes.length = x.exons.length ∧ b.blockStarts.length = x.exons.length :=
  txCore_count true chromRel x score rgb sel hwf b h

/-- an interval with a zero-length block is OUTSIDE the domain `wf`, deliberately: on a chunk parent the
    chunk-relative location keeps only the blocks that overlap the window, so chunk-relative export silently drops
    the zero-length block (2 blocks), while chromosome mode still writes it (3 blocks, one of size 0).  The model
    mirrors this; the specification's domain is intervals whose blocks all have bases. -/
def ivZ : Iv := ⟨[(20, 30), (35, 35), (40, 60)], .plus, none, some ['c'], some ['t'], none, .chunk 10 90⟩

theorem zero_length_block_witness :
    wf ivZ = false
    ∧ (txToBed12 ivZ 0 (0, 0, 0) .symbol true).map (fun b => (b.blockCount, b.blockSizes)) = some (3, [10, 0, 20])
    ∧ (txToBed12 ivZ 0 (0, 0, 0) .symbol false).map (fun b => (b.blockCount, b.blockSizes, b.blockStarts))
        = some (2, [10, 20], [0, 20]) := by
  decide

/-- T3: the constructor's checks are what puts an interval into the domain (they give `thick ⊆ [start,end]`). -/
theorem constructor_gives_domain (exons : List Blk) (st : Strand) (cds : Option (List Blk))
    (sn sy id : Option (List Char)) (par : Par) (x : Iv) (h : mkIv exons st cds sn sy id par = .ok x)
    (hg : good exons = true) (hgc : ∀ cb, cds = some cb → good cb = true) (hw : inWindow par exons = true) :
    wf x = true ∧ x = ⟨exons, st, cds, sn, sy, id, par⟩ :=
  mkIv_wf exons st cds sn sy id par x h hg hgc hw

/-- the interval of F-C14a: exons [20,30),[40,60) on the chunk [10,90) -/
def ivF : Iv := ⟨[(20, 30), (40, 60)], .plus, none, some ['c'], some ['t'], none, .chunk 10 90⟩

/-- T4 (regression witness, F-C14a): in chunk-relative mode the code BEFORE the repair wrote block starts
    −10,10 (taken against the chromosome start), which no BED reader accepts. -/
theorem chunk_mode_defect_witness_before_repair :
    (txToBed12Before ivF 0 (0, 0, 0) .symbol false).map (·.blockStarts) = some [-10, 10]
    ∧ okBed12 (wantOf ivF 0 (0, 0, 0) .symbol false) ((txToBed12Before ivF 0 (0, 0, 0) .symbol false).map (·.str)) = false := by
  decide

-- non-vacuity: ivF is in the domain, and so is a coding minus-strand transcript with a 0-bp gap on a window
example : wf ivF = true := by decide
example : wf ⟨[(3, 5), (5, 9), (12, 14)], .minus, some [(4, 5), (5, 9), (12, 13)], none, some ['a', ',', 'b'], none,
              .chunk 2 20⟩ = true := by decide
example : '\t' ∉ optStr ivF.seqName ∧ '\t' ∉ optStr (selName ivF .symbol) := by decide
example : offOf false (Par.chunk 0 50) = 0 := rfl
example : (txToBed12 ivF 0 (0, 0, 0) .symbol false).map (·.blockStarts) = some [0, 20] := by decide
example : (txToBed12 ivF 7 (255, 0, 9) .symbol true).map (·.str)
    = some "c\t20\t60\tt\t7\t+\t0\t0\t255,0,9\t2\t10,20\t0,20".toList := by decide

end BioCantor.Props.C14
