import BioCantor.Spec.Bed
import BioCantor.Model.Bed
namespace BioCantor.Props.C14
end BioCantor.Props.C14
