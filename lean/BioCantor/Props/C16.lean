/-
  C16 — genomic bin assignment is the UCSC scheme and never hides a contained / overlapping feature.
  All theorems are about `Gen.bins`, the definition REGENERATED from util/bins.py on every run
  (tools/translate.py); a changed shift, offset, comparison or clamp makes them fail to compile.
-/
import BioCantor.Gen.Kernels
import BioCantor.Gen.Tables
import BioCantor.Spec.Bins
set_option autoImplicit false   -- an unresolved name in a statement must be an error, never a bound variable
namespace BioCantor.Props.C16
open BioCantor BioCantor.GenP BioCantor.Gen BioCantor.Spec

/-- T1a (bed): for every pair of integers `bins(start, stop, "bed")` returns the int `expectBin`
    (bin 1 for out-of-range input, else the level-wise smallest bin). -/
theorem bins_one_bed (s e : Int) : bins s e .bed true = .ok (.one (expectBin s e 0)) := by
  unfold bins expectBin binOf
  simp only [if_true]
  repeat' split
  all_goals first | rfl | omega | (simp only [Except.ok.injEq, BinsResult.one.injEq]; omega)

/-- T1a (gff, 1-based start) -/
theorem bins_one_gff (s e : Int) : bins s e .gff true = .ok (.one (expectBin s e 1)) := by
  unfold bins expectBin binOf
  simp only [if_true]
  repeat' split
  all_goals first | rfl | omega | (simp only [Except.ok.injEq, BinsResult.one.injEq]; omega)

/-- T1b: for in-range coordinates the assigned number is that of the smallest window of the five-level
    scheme containing both coordinates (declarative form: a level, an index, containment, minimality). -/
theorem binOf_isSmallest (lo hi : Int) (h0 : 0 ≤ lo) (h1 : 0 ≤ hi) (h2 : lo < 536870912) (h3 : hi < 536870912) :
    IsSmallestBin lo hi (binOf lo hi) := by
  unfold binOf IsSmallestBin
  split
  · refine ⟨0, by omega, lo / 131072, rfl, ?_, ?_, ?_⟩
    · simp only [inWindow, binWindowSize]; omega
    · simp only [inWindow, binWindowSize]; omega
    · intro L' hL'; omega
  · split
    · refine ⟨1, by omega, lo / 1048576, rfl, ?_, ?_, ?_⟩
      · simp only [inWindow, binWindowSize]; omega
      · simp only [inWindow, binWindowSize]; omega
      · intro L' hL' j
        have : L' = 0 := by omega
        subst this; simp only [inWindow, binWindowSize]; omega
    · split
      · refine ⟨2, by omega, lo / 8388608, rfl, ?_, ?_, ?_⟩
        · simp only [inWindow, binWindowSize]; omega
        · simp only [inWindow, binWindowSize]; omega
        · intro L' hL' j
          have : L' = 0 ∨ L' = 1 := by omega
          rcases this with rfl | rfl <;> simp only [inWindow, binWindowSize] <;> omega
      · split
        · refine ⟨3, by omega, lo / 67108864, rfl, ?_, ?_, ?_⟩
          · simp only [inWindow, binWindowSize]; omega
          · simp only [inWindow, binWindowSize]; omega
          · intro L' hL' j
            have : L' = 0 ∨ L' = 1 ∨ L' = 2 := by omega
            rcases this with rfl | rfl | rfl <;> simp only [inWindow, binWindowSize] <;> omega
        · refine ⟨4, by omega, 0, rfl, ?_, ?_, ?_⟩
          · simp only [inWindow, binWindowSize]; omega
          · simp only [inWindow, binWindowSize]; omega
          · intro L' hL' j
            have : L' = 0 ∨ L' = 1 ∨ L' = 2 ∨ L' = 3 := by omega
            rcases this with rfl | rfl | rfl | rfl <;> simp only [inWindow, binWindowSize] <;> omega

/-- T1c: the numeric labels of the five levels are disjoint, so a bin number identifies (level, index). -/
theorem labels_disjoint (lo hi : Int) (h0 : 0 ≤ lo) (h2 : lo < 536870912) :
    let b := binOf lo hi
    (b = 1 ∨ (9 ≤ b ∧ b < 17) ∨ (73 ≤ b ∧ b < 137) ∨ (585 ≤ b ∧ b < 1097) ∨ (4681 ≤ b ∧ b < 8777)) := by
  unfold binOf
  simp only
  repeat' split
  all_goals omega

/-- T2 (bed): the bin set of a query range contains the assigned bin of EVERY interval that is contained
    in or overlaps the range (`fs ≤ fe`, `qs ≤ fe`, `fs ≤ qe` covers both), for every non-negative query
    start — also when the query reaches past 2^29.  Hence the pre-filter cannot change an answer. -/
theorem never_hides_bed (qs qe fs fe : Int) (S : RangeSet)
    (h0 : 0 ≤ qs) (hfe : fs ≤ fe) (h1 : qs ≤ fe) (h2 : fs ≤ qe)
    (hS : bins qs qe .bed false = .ok (.many S)) :
    S.mem (expectBin fs fe 0) = true := by
  unfold bins at hS
  simp only [Bool.false_eq_true, if_false] at hS
  repeat' split at hS
  all_goals (simp only [Except.ok.injEq, BinsResult.many.injEq] at hS; subst hS)
  all_goals (unfold expectBin binOf; simp only [RangeSet.mem, List.any_cons, List.any_nil, List.cons_append,
    List.nil_append, Bool.or_false, Bool.or_eq_true, Bool.and_eq_true, decide_eq_true_eq])
  all_goals (repeat' split)
  all_goals omega

/-- T2 (gff) -/
theorem never_hides_gff (qs qe fs fe : Int) (S : RangeSet)
    (h0 : 1 ≤ qs) (hfe : fs ≤ fe) (h1 : qs ≤ fe) (h2 : fs ≤ qe)
    (hS : bins qs qe .gff false = .ok (.many S)) :
    S.mem (expectBin fs fe 1) = true := by
  unfold bins at hS
  simp only [Bool.false_eq_true, if_false] at hS
  repeat' split at hS
  all_goals (simp only [Except.ok.injEq, BinsResult.many.injEq] at hS; subst hS)
  all_goals (unfold expectBin binOf; simp only [RangeSet.mem, List.any_cons, List.any_nil, List.cons_append,
    List.nil_append, Bool.or_false, Bool.or_eq_true, Bool.and_eq_true, decide_eq_true_eq])
  all_goals (repeat' split)
  all_goals omega

/-- T2b (bed): the whole set returned for `one=False` is, for every pair of ints, bin 1 plus at every level
    the windows from the start's to the stop's (stop clamped to the binned range); `{1}` for invalid input. -/
theorem bins_all_bed (qs qe : Int) : bins qs qe .bed false = .ok (.many (rawBinSet qs qe 0)) := by
  unfold bins rawBinSet
  simp only [Bool.false_eq_true, if_false]
  repeat' split
  all_goals first
    | rfl
    | (exfalso; omega)
    | (simp only [Except.ok.injEq, BinsResult.many.injEq, List.cons_append, List.nil_append, List.cons.injEq,
        Prod.mk.injEq, and_true, true_and]; omega)

/-- T2b (gff) -/
theorem bins_all_gff (qs qe : Int) : bins qs qe .gff false = .ok (.many (rawBinSet qs qe 1)) := by
  unfold bins rawBinSet
  simp only [Bool.false_eq_true, if_false]
  repeat' split
  all_goals first
    | rfl
    | (exfalso; omega)
    | (simp only [Except.ok.injEq, BinsResult.many.injEq, List.cons_append, List.nil_append, List.cons.injEq,
        Prod.mk.injEq, and_true, true_and]; omega)

/-- `one=False` always yields a set (so the hypothesis `hS` above is satisfiable for every query). -/
theorem bins_all_is_set (qs qe : Int) (fmt : CoordFmt) : ∃ S, bins qs qe fmt false = .ok (.many S) := by
  unfold bins
  simp only [Bool.false_eq_true, if_false]
  repeat' split
  all_goals exact ⟨_, rfl⟩

/-- T3 (syntactic tie of the call sites, regenerated from source): every interval class stores
    `bins(<its start>, <its end>, fmt='bed')` at construction, the only other call is the query set in
    `_query_by_position`, and that set is only computed under `completely_within and start and end`. -/
theorem call_sites :
    (binCallSites.map (fun s => (s.2.1, s.2.2))) =
      [("AnnotationCollection.__init__".toList, "self.start, self.end, fmt='bed'".toList),
       ("AnnotationCollection._query_by_position".toList, "start, end, fmt='bed', one=False".toList),
       ("FeatureInterval.__init__".toList, "self.start, self.end, fmt='bed'".toList),
       ("FeatureIntervalCollection.__init__".toList, "self.start, self.end, fmt='bed'".toList),
       ("GeneInterval.__init__".toList, "self.start, self.end, fmt='bed'".toList),
       ("TranscriptInterval.__init__".toList, "self.start, self.end, fmt='bed'".toList),
       ("VariantInterval.__init__".toList, "start, end, fmt='bed'".toList)]
    ∧ binPrefilterGuard = "completely_within and start and end".toList := by
  decide

-- non-vacuity / regression witnesses (F-C16a, F-C16b are repaired in /repo; these pin the repaired behaviour)
example : bins 5 10 .bed true = .ok (.one 4681) := by rfl
example : bins 0 10 .gff true = .ok (.one 1) := by rfl
example : ∃ S, bins 5 (536870912 + 5) .bed false = .ok (.many S) ∧ S.mem 4681 = true := ⟨_, rfl, by decide⟩

end BioCantor.Props.C16
