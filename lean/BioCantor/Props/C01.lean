/-
  C01 — Location <-> parent coordinate maps are exact, mutually inverse and strand-aware.

  Property theorems only (helper lemmas live in BioCantor/Proofs).  Every theorem quantifies over ALL
  well-formed locations (`WF` = what the constructors establish: any number of blocks, zero-length,
  adjacent, nested and duplicate blocks included), all strands and all integer arguments.
  `ans` turns a result into the observable answer (`some v` / `none` = raised).
-/
import BioCantor.Proofs.PointMaps
import BioCantor.Proofs.RelInterval
import BioCantor.Proofs.RelativeTo
set_option autoImplicit false   -- an unresolved name in a statement must be an error, never a bound variable
namespace BioCantor.Props.C01
open BioCantor BioCantor.Spec BioCantor.Model BioCantor.Proofs

/-- T1: relative → parent enumerates the bases 5'→3' (defined exactly on `0 ≤ r < len`). -/
theorem r2p_spec (l : Location) (h : WF l) (r : Int) : okR2P l r (ans (r2p l r)) = true :=
  r2p_ok l h r

/-- T2: parent → relative is the index of the first occurrence; uncovered positions are refused. -/
theorem p2r_spec (l : Location) (h : WF l) (p : Int) : okP2R l p (ans (p2r l p)) = true :=
  p2r_ok l h p

/-- T2 corollary (all layouts, self-overlapping included): `r2p` inverts `p2r`. -/
theorem r2p_inverts_p2r (l : Location) (h : WF l) (p r : Int) (hp : p2r l p = .ok r) :
    r2p l r = .ok p :=
  r2p_of_p2r l h p r hp

/-- T3: a relative sub-interval converted to the parent has the composed strand, is well formed
    (normalised for non-self-overlapping layouts) and covers exactly the bases `(bases l)[rs:re]` —
    same 5'→3' order for non-self-overlapping layouts, same multiset otherwise; out-of-range requests
    and undirected locations are refused. -/
theorem relint_spec (l : Location) (h : WF l) (rs re : Int) (rst : Strand) :
    okRelint l rs re rst (ans (relInterval l rs re rst)) = true :=
  relInterval_ok l h rs re rst

/-- T4: `a.location_relative_to(b)` (= `b.parent_to_relative_location(a)`): refused exactly when the
    operands share no position; for non-self-overlapping operands and directional `b` the answer covers
    exactly the relative positions (in `b`) of the shared parent positions, has `a`'s strand relative to
    `b`'s, is well formed, and is normalised when `optimize_blocks`. -/
theorem locrel_spec (a b : Location) (ha : WF a) (hb : WF b) (opt : Bool) :
    okLocRel a b opt (ans (locationRelativeTo a b opt)) = true :=
  locationRelativeTo_ok a b ha hb opt

-- non-vacuity: a minus-strand layout with a zero-length block, a 0-bp gap and a nested block is WF
example : WF (.compound ⟨[(0, 5), (2, 3), (5, 9), (5, 5)], .minus⟩) := by decide
example : r2p (.compound ⟨[(0, 5), (5, 9), (5, 5)], .minus⟩) 4 = .ok 4 := by rfl
example : p2r (.compound ⟨[(0, 5), (5, 9), (5, 5)], .minus⟩) 4 = .ok 4 := by rfl

end BioCantor.Props.C01
