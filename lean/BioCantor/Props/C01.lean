import BioCantor.Spec.LocationCheck
import BioCantor.Model.Location
namespace BioCantor.Props.C01
theorem placeholder : True := trivial
end BioCantor.Props.C01
