/-
  C19 — invalid input is refused with documented errors; nothing ill-formed is built.

  Property theorems only (helper lemmas live in BioCantor/Proofs/Val*.lean).  The constructors are the
  `Except`-valued functions of Model/Validate.lean (control flow of the Python `__init__`s; tied to the real
  constructors on every run by the exact-class correspondence of `./check C19`).  `outOf` projects a result to
  what a caller observes: `ok v` / `refused` (a documented class) / `internal`.  Each `Spec.Validate.okMk…`
  says: never internal; refused ⇒ the arguments are invalid; ok ⇒ the arguments are valid AND the object is
  well formed.  Every theorem quantifies over ALL argument values (lists of any length, any integers).

  Where the code that exists deviates from the property the full statement is kept in the comment, the
  theorem is named `…_partial` with the exact extra hypothesis, and a `…_witness` theorem shows that the
  modelled current code really deviates outside it (remaining: F-C19h, F-C19i).  The defects F-C19g / F-C19m /
  F-C19n / F-C19s are repaired in the library (0fcdb58, cb56bb9, 7977ad0, f283aa2): the model mirrors the repaired
  code, the former `_partial` theorems are now unconditional, and each repair keeps a `…_refused` regression fact.
-/
import BioCantor.Proofs.ValBasics
import BioCantor.Proofs.ValCompound
import BioCantor.Proofs.ValBridge
import BioCantor.Proofs.ValParent
import BioCantor.Proofs.ValCDS
import BioCantor.Proofs.ValTx
import BioCantor.Proofs.ValVar
import BioCantor.Proofs.ValScan
import BioCantor.Proofs.ValWindows
import BioCantor.Proofs.ValMore
import BioCantor.Proofs.ValColl
import BioCantor.Proofs.ValPairs
import BioCantor.Proofs.ValHier
set_option autoImplicit false   -- an unresolved name in a statement must be an error, never a bound variable
namespace BioCantor.Props.C19
open BioCantor BioCantor.Model BioCantor.Model.Validate BioCantor.Proofs.Val
open BioCantor.Spec.Validate (okMkSingle okMkCompound okMkParent okMkSeq okMkCDS okMkTx okMkVarColl okScanWin ascending
  upperAscii validTx okMkVar okMkCodon okFromInt okFromSymbol okMkFeature okMkColl okMkAnnot okAppend distinctNat)

/-! ### SingleInterval -/

/-- T1 `SingleInterval(start, end, strand, parent)`: built exactly when `0 ≤ start ≤ end` (and `end` within the
    parent's sequence); otherwise InvalidPositionException; the object stores the arguments. -/
theorem single_spec (s e : Int) (st : Strand) (plen : Option Nat) :
    okMkSingle s e st plen (outOf projSingle (mkSingleP s e st plen)) = true :=
  mkSingleP_spec s e st plen

/-! ### CompoundInterval -/

/-- T2 `CompoundInterval(starts, ends, strand, parent)`, ALL arguments: refused ⇔ unequal/empty lists, a start > end,
    a negative start, or an end beyond the parent sequence; built ⇒ the blocks are a sorted permutation of the given
    pairs, all valid.  (Unconditional since 0fcdb58; before, negative starts in ≥ 2 blocks were accepted: F-C19g.) -/
theorem compound_spec (starts ends : List Int) (st : Strand) (plen : Option Nat) :
    okMkCompound starts ends st plen (outOf id (mkCompoundRaw starts ends st plen)) = true :=
  mkCompoundRaw_spec starts ends st plen

/-- regression fact for F-C19g: `CompoundInterval([-2,5],[3,7],+)` is refused with a documented class -/
theorem compound_negative_start_refused :
    ∃ k, mkCompoundRaw [-2, 5] [3, 7] .plus none = .error (.doc k) :=
  mkCompoundRaw_negative_refused

/-- T2' for ALL inputs: the constructor accepts exactly the as-coded condition
    (equal non-zero lengths, every 0 ≤ start ≤ end, every end within the parent sequence), answers the stable sort of
    the pairs, and otherwise raises a documented class — never an internal error. -/
theorem compound_exact (starts ends : List Int) (st : Strand) (plen : Option Nat) :
    (acceptedCompound starts ends plen → mkCompoundRaw starts ends st plen = .ok (sortBlocksI st (starts.zip ends))) ∧
    (¬ acceptedCompound starts ends plen → ∃ k, mkCompoundRaw starts ends st plen = .error (.doc k)) :=
  mkCompoundRaw_eq starts ends st plen

/-- on natural-number coordinates the raw constructor is `Model.mkCompoundLoc`, the constructor the C01 / C02 / C04
    theorems are stated about (same blocks when it accepts, a documented refusal when it refuses). -/
theorem compound_is_mkCompoundLoc (bs : List Blk) (st : Strand) :
    (∀ l, mkCompoundLoc bs st = .ok l →
        mkCompoundRaw (bs.map fun b => (b.1 : Int)) (bs.map fun b => (b.2 : Int)) st none = .ok (l.blocks.map castBlk)) ∧
    (∀ e, mkCompoundLoc bs st = .error e →
        ∃ k, mkCompoundRaw (bs.map fun b => (b.1 : Int)) (bs.map fun b => (b.2 : Int)) st none = .error (.doc k)) :=
  mkCompoundRaw_agrees_nat bs st

/-! ### Parent -/

/-- T3 `Parent(id, sequence_type, strand, location, sequence, parent)`: refused exactly when the ids / types disagree,
    the strand contradicts the location, the location ends beyond the sequence, the sequence is longer than the
    parent's sequence, or `sequence.parent` differs from `parent`; otherwise built with the unique id / type.
    (`location=EmptyLocation()`: either answer is accepted, the documentation is silent.) -/
theorem parent_spec (a : ParentArgs) :
    okMkParent (specArgs a) (outOf specOut (mkParent a)) = true :=
  mkParent_spec a

/-! ### Sequence -/

/-- the validation idiom `sequence.upper().strip(alphabet.value) != ""` is membership of every letter -/
theorem alphabet_strip_is_membership (alph data : List Char) :
    alphabetOk alph data = data.all (fun c => alph.contains (upperAscii c)) :=
  alphabetOk_eq alph data

/-- T4 `Sequence(data, alphabet, parent)`, ALL arguments: refused ⇔ a letter outside the alphabet or a length different
    from the parent location's.  (Unconditional since f283aa2; before, a zero-length parent location was not
    compared: F-C19s.) -/
theorem sequence_spec (alph data : List Char) (ploc : Option (Option Nat)) :
    okMkSeq alph data ploc (outOf id (mkSeq alph data ploc)) = true :=
  mkSeq_spec alph data ploc

/-- regression fact for F-C19s -/
theorem sequence_zero_length_location_refused :
    mkSeq ['A', 'C', 'G', 'T'] ['A', 'C', 'G', 'T'] (some (some 0)) = .error (.doc .MismatchedParent) :=
  mkSeq_zero_length_location_refused

/-! ### CDSInterval -/

/-- T5 (partial).  Full statement: `∀ starts ends st fps, okMkCDS starts ends (fps.map fpv) (out …) = true` (refused
    ⇔ unequal / empty lists, a bad block, a wrong number of frames, an empty CDS, frames mixed with phases; built ⇒
    start = smallest start, end = largest end, phases converted).  FAILS for lists not in ascending order (F-C19i:
    start/end are the first start / last end as given).  Proved for lists in ascending order (negative starts are
    refused since 0fcdb58, so that hypothesis is gone). -/
theorem cds_spec_partial (starts ends : List Int) (st : Strand) (fps : List FP)
    (hasc : ascending (starts.zip ends) = true) :
    okMkCDS starts ends (fps.map fpv) (outOf projCDS (mkCDS starts ends st fps)) = true :=
  mkCDS_spec_partial starts ends st fps hasc

example : ascending ([0, 12].zip [9, 21]) = true := by decide

/-- for ALL inputs: a CDS constructor call ends in an object or in a documented class -/
theorem cds_never_internal (starts ends : List Int) (st : Strand) (fps : List FP) :
    NoInternal (mkCDS starts ends st fps) :=
  mkCDS_noInternal starts ends st fps

/-! ### TranscriptInterval -/

/-- T6 (partial).  Full statement: `∀ exS exE st cdsS cdsE cdsF, okMkTx exS exE cdsS cdsE (specF cdsF) (out …) = true`
    (refused ⇔ invalid exon lists, only one of cds_starts/cds_ends, an invalid CDS, or a CDS block not covered by the
    exons; built ⇒ start/end are the smallest start / largest end of the exons and of the CDS).  FAILS outside the
    hypotheses: lists not ascending (F-C19i), a CDS inside the exon span but partly in an intron (F-C19h: only the outer
    bounds are compared).  (Negative starts and empty CDS lists are refused since 0fcdb58 / cb56bb9: those two
    hypotheses are gone.) -/
theorem transcript_spec_partial (exS exE : List Int) (st : Strand) (cdsS cdsE : Option (List Int))
    (cdsF : Option (List CDSFrame))
    (hasc : ascending (exS.zip exE) = true) (H : CdsHyp exS exE cdsS cdsE) :
    okMkTx exS exE cdsS cdsE (specF cdsF) (outOf projTx (mkTx exS exE st cdsS cdsE cdsF)) = true :=
  mkTx_spec_partial exS exE st cdsS cdsE cdsF hasc H

/-- the hypotheses are satisfiable by a two-exon coding transcript (exons [5,10) [15,20), CDS [7,10) [15,18)) -/
example : ascending ([5, 15].zip [10, 20]) = true ∧ CdsHyp [5, 15] [10, 20] (some [7, 15]) (some [10, 18]) := by
  refine ⟨by decide, ⟨?_, ?_⟩⟩
  · intro cs ce h1 h2; cases h1; cases h2; decide
  · intro cs ce c0 cN x0 xN h1 h2 _ _ _ _ _ _; cases h1; cases h2; decide

/-- T6' for ALL arguments the constructor ends in an object or a documented class (before cb56bb9: IndexError exactly
    when the exon lists were accepted and both CDS lists were empty, F-C19m) -/
theorem transcript_never_internal (exS exE : List Int) (st : Strand) (cdsS cdsE : Option (List Int))
    (cdsF : Option (List CDSFrame)) : NoInternal (mkTx exS exE st cdsS cdsE cdsF) :=
  mkTx_noInternal exS exE st cdsS cdsE cdsF

/-- regression fact for F-C19m: `TranscriptInterval([1],[5],+,cds_starts=[],cds_ends=[],cds_frames=[])` -/
theorem transcript_empty_cds_refused :
    mkTx [1] [5] .plus (some []) (some []) (some []) = .error (.doc .InvalidCDSInterval) :=
  mkTx_empty_cds_refused

/-- F-C19h witness: exons [5,10) [15,20), CDS [7,13) is accepted although the CDS is not covered by the exons. -/
theorem transcript_cds_in_intron_witness :
    (mkTx [5, 15] [10, 20] .plus (some [7]) (some [13]) (some [.ZERO])).toOption.map projTx
      = some (5, 20, true, 7, 13) ∧
    validTx [5, 15] [10, 20] (some [7]) (some [13]) (some [0]) = false :=
  mkTx_cds_in_intron_witness

/-- F-C19i witness: `TranscriptInterval([15,5],[20,10],+)` is built with start = 15 > end = 10. -/
theorem transcript_unsorted_witness :
    (mkTx [15, 5] [20, 10] .plus none none none).toOption.map projTx = some (15, 10, false, 0, 0) :=
  mkTx_unsorted_witness

/-! ### VariantIntervalCollection -/

/-- T7 `VariantIntervalCollection([VariantInterval(s, e), …])`, ALL lists: refused ⇔ empty list, a variant window that is
    empty / reversed / negative, or two overlapping variants; built ⇒ bounds = smallest start, largest end.  In
    particular the check of ADJACENT pairs of the start-sorted list finds every overlapping pair.  (Unconditional
    since 7977ad0; before, the empty list ended in a builtin ValueError: F-C19n.) -/
theorem variant_collection_spec (raw : List (Int × Int)) :
    okMkVarColl raw (outOf projVar (mkVarColl raw)) = true :=
  mkVarColl_spec raw

/-- regression fact for F-C19n -/
theorem variant_collection_empty_refused : mkVarColl [] = .error (.doc .InvalidAnnotation) :=
  mkVarColl_empty_refused

/-! ### Location.scan_windows -/

/-- T8 `scan_windows(window_size, step_size, start_pos)` on ANY location: refused (ValueError /
    InvalidStrandException) exactly when the location is undirected or the arguments leave `0 ≤ start_pos < len`,
    `window, step ≥ 1`, `start_pos + window ≤ len`; otherwise `k ≥ 1` windows where window `k-1` still fits and window
    `k` does not (window = length gives exactly one). -/
theorem scan_windows_spec (l : Location) (w step sp : Int) :
    okScanWin (dirOf l) (locLen l) w step sp (outOf id (scanWinCount l w step sp)) = true :=
  scanWinCount_spec l w step sp

/-- T8' every window produced on a well-formed location is well formed (corollary of C01-T3 `relint_spec`) -/
theorem scan_windows_wf (l : Location) (h : Proofs.WF l) (w step sp : Int) (ws : List Location)
    (hws : scanWindows l w step sp = .ok ws) : ∀ m ∈ ws, Spec.wfLocation m = true :=
  scanWindows_wf l h w step sp ws hws

example : Proofs.WF (.compound ⟨[(0, 3), (5, 8)], .minus⟩) := by decide

/-! ### VariantInterval, Codon, enum lookups -/

/-- T10 `VariantInterval(start, end, sequence)`, ALL arguments: refused ⇔ `start == end` (EmptyLocationException),
    reversed / negative window, or an ALT letter outside the alphabet (here: any alphabet; the library uses
    NT_STRICT_UNKNOWN). -/
theorem variant_spec (alph : List Char) (s e : Int) (alt : List Char) :
    okMkVar alph s e alt (outOf projVar (mkVariantFull alph s e alt)) = true :=
  mkVariantFull_spec alph s e alt

/-- T11 `Codon(str)`, ALL strings, with the GENERATED alphabet `Gen.codonAlphabet`: built ⇔ exactly three letters of
    the alphabet after upper-casing; otherwise ValueError; the value is the upper-cased string. -/
theorem codon_spec (s : List Char) :
    okMkCodon Gen.codonAlphabet s (outOf id (mkCodon Gen.codonAlphabet s)) = true :=
  mkCodon_spec Gen.codonAlphabet s

/-- T12 `Strand.from_int` / `CDSFrame.from_int` / `CDSPhase.from_int` (prelude kernels `GenP.*OfInt`), ALL ints: the
    member whose value is the argument; ValueError for every other int; never KeyError. -/
theorem from_int_spec (v : Int) :
    okFromInt [1, -1, 0] v (outPy Strand.value (GenP.strandOfInt v)) = true ∧
    okFromInt [-1, 0, 1, 2] v (outPy CDSFrame.value (GenP.frameOfInt v)) = true ∧
    okFromInt [-1, 0, 1, 2] v (outPy CDSPhase.value (GenP.phaseOfInt v)) = true :=
  ⟨strandOfInt_spec v, frameOfInt_spec v, phaseOfInt_spec v⟩

/-- T12g the methods REGENERATED from gene/cds_frame.py (`CDSFrame.from_int`, `CDSPhase.from_int`: `return CDSFrame(value)`
    / `CDSPhase(value)`) are the enum-by-value look-ups of T12, whose member values are tied to the regenerated member
    tables in `Props/C15` (`Gen.cdsFrameMembers`, `Gen.cdsPhaseMembers`): a changed body or a changed member value
    breaks a proof. -/
theorem from_int_generated (v : Int) :
    Gen.CDSFrame_from_int v = GenP.frameOfInt v ∧ Gen.CDSPhase_from_int v = GenP.phaseOfInt v ∧
    okFromInt [-1, 0, 1, 2] v (outPy CDSFrame.value (Gen.CDSFrame_from_int v)) = true ∧
    okFromInt [-1, 0, 1, 2] v (outPy CDSPhase.value (Gen.CDSPhase_from_int v)) = true := by
  have h1 : Gen.CDSFrame_from_int v = GenP.frameOfInt v := by
    unfold Gen.CDSFrame_from_int; cases GenP.frameOfInt v <;> rfl
  have h2 : Gen.CDSPhase_from_int v = GenP.phaseOfInt v := by
    unfold Gen.CDSPhase_from_int; cases GenP.phaseOfInt v <;> rfl
  exact ⟨h1, h2, by rw [h1]; exact frameOfInt_spec v, by rw [h2]; exact phaseOfInt_spec v⟩

/-- T13 `Strand.from_symbol` (GENERATED kernel `Gen.Strand_from_symbol`), ALL strings: `+ - .` give the member with that
    symbol, everything else ValueError. -/
theorem from_symbol_spec (s : List Char) :
    okFromSymbol s (outPy id (Gen.Strand_from_symbol s)) = true :=
  strand_from_symbol_spec s

/-! ### FeatureInterval -/

/-- T14 (partial).  Full statement: `∀ starts ends st q, okMkFeature starts ends (specQual q) (out …) = true` (refused ⇔
    invalid block lists or qualifiers that are not a dict of lists; built ⇒ start = smallest start, end = largest
    end).  FAILS for lists not in ascending order (F-C19i).  Proved for ascending lists. -/
theorem feature_spec_partial (starts ends : List Int) (st : Strand) (q : QualShape)
    (hasc : ascending (starts.zip ends) = true) :
    okMkFeature starts ends (specQual q) (outOf projFeat (mkFeature starts ends st q)) = true :=
  mkFeature_spec_partial starts ends st q hasc

example : ascending ([2, 8].zip [5, 9]) = true := by decide

/-- F-C19i witness for FeatureInterval -/
theorem feature_unsorted_witness :
    (mkFeature [15, 5] [20, 10] .plus .none).toOption.map projFeat = some (15, 10) :=
  mkFeature_unsorted_witness

/-! ### GeneInterval / FeatureIntervalCollection / AnnotationCollection -/

/-- T15 `GeneInterval(transcripts, qualifiers)` over well-formed children (what T6 returns), ANY number of children:
    refused ⇔ no children (InvalidAnnotationError), qualifiers of the wrong shape, two primary flags
    (ValidationException) or a repeated guid (DuplicateTranscriptError); built ⇒ `start` = smallest child start,
    `end` = largest child end. -/
theorem gene_spec (cs : List Child) (q : QualShape) (hwf : ChildrenWF cs) :
    okMkColl (cs.map specChild) (specQual q) (outOf id (mkColl true cs q)) = true :=
  mkColl_spec true cs q hwf

/-- T16 the same for `FeatureIntervalCollection(feature_intervals, qualifiers)` (DuplicateFeatureError) -/
theorem feature_collection_spec (cs : List Child) (q : QualShape) (hwf : ChildrenWF cs) :
    okMkColl (cs.map specChild) (specQual q) (outOf id (mkColl false cs q)) = true :=
  mkColl_spec false cs q hwf

example : ChildrenWF [⟨0, 3, 0, true⟩, ⟨2, 9, 1, false⟩] := by
  intro c hc; simp at hc; rcases hc with rfl | rfl <;> decide

/-- T17 (partial).  Full statement: `∀ start end kids, okMkAnnot start end (kids.map specChild) (out …) = true` (refused ⇔
    only one of start/end, bounds that are not `0 ≤ start ≤ end`, or two children with the same guid; built ⇒ the given
    bounds, else smallest start / largest end of the children, else an empty collection).  FAILS for repeated guids
    (F-C19o: the guid map is a dict comprehension).  Proved for well-formed children with distinct guids. -/
theorem annotation_collection_spec_partial (start endp : Option Int) (kids : List Child) (hwf : ChildrenWF kids)
    (hdist : distinctNat (kids.map (·.guid)) = true) :
    okMkAnnot start endp (kids.map specChild) (outOf projAnnot (mkAnnot start endp kids)) = true :=
  mkAnnot_spec_partial start endp kids hwf hdist

example : ChildrenWF [⟨0, 3, 0, false⟩, ⟨2, 7, 1, false⟩] ∧
    distinctNat (([⟨0, 3, 0, false⟩, ⟨2, 7, 1, false⟩] : List Child).map (·.guid)) = true := by
  refine ⟨?_, by decide⟩
  intro c hc; simp at hc; rcases hc with rfl | rfl <;> decide

/-- F-C19o witness: two children with the same guid are accepted -/
theorem annotation_collection_duplicate_witness :
    mkAnnot none none [⟨0, 3, 0, false⟩, ⟨0, 3, 0, false⟩] = .ok (.bounds 0 3) ∧
    okMkAnnot none none [(0, 3, 0, false), (0, 3, 0, false)] (.ok (some (0, 3))) = false :=
  mkAnnot_duplicate_witness

/-! ### Sequence.append; parent compatibility of operand lists -/

/-- T18 `x.append(y)` for two non-empty located pieces of a parent `P` (C03's `Model.Sq.append`, nucleotide alphabet),
    ALL positions and strands: refused exactly for different / undirected strands or a second piece that does not follow
    the first one without overlap (plus: to its right, minus: to its left); otherwise `len(data) = len(location)`, the
    location lies inside the parent, covers exactly the two pieces, and reads the text (C03-T4). -/
theorem append_spec (P alph : List Char) (hnt : Spec.Sq.isNt alph = true) (st1 st2 : Strand) (a b : Blk)
    (ha : a.1 < a.2) (hb : b.1 < b.2) (hwa : a.2 ≤ P.length) (hwb : b.2 ≤ P.length)
    (dx dy : List Char) (px py : Option Strand)
    (hx : st1.isDirectional = true → Spec.Sq.expectExtract P alph (.single a st1) = some dx)
    (hy : st2.isDirectional = true → Spec.Sq.expectExtract P alph (.single b st2) = some dy) :
    okAppend P.length st1 a.1 a.2 st2 b.1 b.2 false
      (outAppend P alph (Model.Sq.append P ⟨dx, some ⟨px, some (.single a st1)⟩⟩ ⟨dy, some ⟨py, some (.single b st2)⟩⟩)) = true :=
  append_pieces_spec P alph hnt st1 st2 a b ha hb hwa hwb dx dy px py hx hy

example : Spec.Sq.isNt "NT_STRICT".toList = true ∧
    Spec.Sq.expectExtract "ACGTTGCA".toList "NT_STRICT".toList (.single (4, 7) .minus) = some "GCA".toList := by
  decide +kernel

/-- T19 every multi-operand operation (from_single_intervals, Parent(sequence.parent vs parent), Sequence.append,
    location_relative_to, the binary location operations) x every ordered pair of the 17 parent kinds of the grid: the
    modelled parent test refuses exactly the pairs whose plain descriptors are incompatible, with a documented class. -/
theorem parent_rule_pairs (op : POp) (i j : Nat) (hi : i < nKinds) (hj : j < nKinds) : pconsPoint op [i, j] = true :=
  pcons_pairs op i j hi hj

/-- T19' from_single_intervals x every ordered triple of the 17 parent kinds -/
theorem from_single_intervals_triples (i j k : Nat) (hi : i < nKinds) (hj : j < nKinds) (hk : k < nKinds) :
    pconsPoint .fsi [i, j, k] = true :=
  fsi_triples i j k hi hj hk

/-- T19'' for ANY operand list: from_single_intervals accepts exactly when every parent equals the first one -/
theorem from_single_intervals_exact (k : PChain) (rest : List PChain) :
    fsiParents (k :: rest) = .ok () ↔ ∀ k' ∈ rest, k' = k :=
  fsiParents_ok_iff k rest

/-! ### the hierarchy handed in as `parent_or_seq_chunk_parent` -/

/-- T20 (partial).  Full statement: `∀ c k, k < nHierKinds → hierPoint c k = true` - every interval / collection
    constructor (`.located`: everything with coordinates of its own; `.emptyAnnot`: an AnnotationCollection without
    children and bounds) x every one of the 20 parent hierarchies of the grid (`Spec.Validate.hierKinds`): the modelled
    parent validation accepts exactly the hierarchies the documentation allows and refuses the others with the class the
    documentation names (NoSuchAncestorException: a sequence chunk without a chromosome above it;
    NullSequenceException: a chunk level without sequence), never with an internal error.  FAILS on the grid points
    `hierDeviation`: the empty AnnotationCollection on kinds 7-10, 12, 17, 18 (it never looks at its parent, F-C19w).
    Kinds 12, 18 (the chunk does not say where it sits on a parent) were F-C19t for the located classes, repaired by
    43c4851; on kinds 16, 19 a valid chunk-on-chromosome hierarchy written with a sequence on the chromosome / with
    `Parent(id, type, location)` is refused with MismatchedParentException - a documented class, which the
    specification lets pass (outside C19; DESIGN 11.5).  Proved for every other point. -/
theorem parent_hierarchy_grid_partial (c : HCls) (k : Nat) (hk : k < nHierKinds) (hdev : hierDeviation c k = false) :
    hierPoint c k = true := by
  rw [hier_grid c k hk, hdev]; rfl

example : (6 : Nat) < nHierKinds ∧ hierDeviation .located 6 = false ∧ hierDeviation .emptyAnnot 11 = false := by decide

/-- T20w the listed deviations are real: on each of them the modelled current code gives an answer the specification
    rejects -/
theorem parent_hierarchy_deviation_witness (c : HCls) (k : Nat) (hk : k < nHierKinds) (hdev : hierDeviation c k = true) :
    hierPoint c k = false := by
  rw [hier_grid c k hk, hdev]; rfl

example : (12 : Nat) < nHierKinds ∧ hierDeviation .emptyAnnot 12 = true ∧ hierDeviation .emptyAnnot 7 = true := by decide

/-- T21 ANY hierarchy without a sequence chunk is taken as it is -/
theorem hierarchy_without_chunk_accepted (chain : List HLevel) (h : hasAncestor .chunk chain = false) :
    liftoverParents chain = .ok () :=
  liftover_without_chunk chain h

example : hasAncestor .chunk [⟨.chromosome, true, .none⟩] = false := by decide

/-- T22 ANY hierarchy with a sequence chunk and no chromosome is refused with NoSuchAncestorException - whatever
    parent the chunk has (another type, no type, another chunk) or does not have -/
theorem chunk_without_chromosome_refused (chain : List HLevel) (hk : hasAncestor .chunk chain = true)
    (hc : hasAncestor .chromosome chain = false) :
    liftoverParents chain = .error (.doc .NoSuchAncestor) :=
  liftover_chunk_without_chromosome chain hk hc

example : hasAncestor .chunk [⟨.chunk, true, .none⟩, ⟨.other, false, .ptr false⟩] = true ∧
    hasAncestor .chromosome [⟨.chunk, true, .none⟩, ⟨.other, false, .ptr false⟩] = false := by decide

/-- T23 ANY hierarchy whose first chunk level has no sequence (and that holds a chromosome) is refused with
    NullSequenceException -/
theorem chunk_without_sequence_refused (chain : List HLevel) (c : HLevel) (above : List HLevel)
    (hc : hasAncestor .chromosome chain = true)
    (hd : chain.dropWhile (fun l => l.ty != .chunk) = c :: above) (hs : c.hasSeq = false) :
    liftoverParents chain = .error (.doc .NullSequence) :=
  liftover_chunk_without_sequence chain c above hc hd hs

example : hasAncestor .chromosome [⟨.chunk, false, .none⟩, ⟨.chromosome, false, .ptr false⟩] = true ∧
    [(⟨.chunk, false, .none⟩ : HLevel), ⟨.chromosome, false, .ptr false⟩].dropWhile (fun l => l.ty != .chunk) =
      [⟨.chunk, false, .none⟩, ⟨.chromosome, false, .ptr false⟩] := by decide

/-- T24 ANY hierarchy: the parent validation ends in acceptance or in NoSuchAncestorException /
    NullSequenceException / MismatchedParentException / ValidationException -/
theorem parent_validation_outcomes (chain : List HLevel) :
    liftoverParents chain = .ok () ∨ liftoverParents chain = .error (.doc .NoSuchAncestor) ∨
    liftoverParents chain = .error (.doc .NullSequence) ∨ liftoverParents chain = .error (.doc .MismatchedParent) ∨
    liftoverParents chain = .error (.doc .Validation) :=
  liftover_outcomes chain

/-- T24 ANY hierarchy: never an internal error (F-C19t - AttributeError when the level above the chunk carries no
    location - is repaired by 43c4851; the partial form of this theorem needed that level to be located). -/
theorem parent_validation_never_internal (chain : List HLevel) :
    ∀ cls, liftoverParents chain ≠ .error (.internal cls) :=
  liftover_noInternal chain

/-- T25 ANY hierarchy whose first chunk level (with its sequence, below a chromosome) does not record where it sits on
    the level above is refused with ValidationException -/
theorem unlocated_chunk_refused (chain : List HLevel) (c : HLevel) (above : List HLevel)
    (hc : hasAncestor .chromosome chain = true)
    (hd : chain.dropWhile (fun l => l.ty != .chunk) = c :: above) (hs : c.hasSeq = true)
    (hl : ∀ a rest, above = a :: rest → a.loc = .none) :
    liftoverParents chain = .error (.doc .Validation) :=
  liftover_unlocated_refused chain c above hc hd hs hl

example : hasAncestor .chromosome [⟨.chunk, true, .none⟩, ⟨.chromosome, false, .none⟩] = true ∧
    [(⟨.chunk, true, .none⟩ : HLevel), ⟨.chromosome, false, .none⟩].dropWhile (fun l => l.ty != .chunk) =
      [⟨.chunk, true, .none⟩, ⟨.chromosome, false, .none⟩] := by decide

/-! ### never an internal error, for ALL arguments -/

/-- T9 every modelled constructor ends in an object or a documented class, for every argument value. -/
theorem never_internal :
    (∀ s e st plen, NoInternal (mkSingleP s e st plen)) ∧
    (∀ starts ends st plen, NoInternal (mkCompoundRaw starts ends st plen)) ∧
    (∀ a, NoInternal (mkParent a)) ∧
    (∀ alph data ploc, NoInternal (mkSeq alph data ploc)) ∧
    (∀ starts ends st fps, NoInternal (mkCDS starts ends st fps)) ∧
    (∀ exS exE st cdsS cdsE cdsF, NoInternal (mkTx exS exE st cdsS cdsE cdsF)) ∧
    (∀ raw, NoInternal (mkVarColl raw)) ∧
    (∀ l w step sp, NoInternal (scanWinCount l w step sp)) ∧
    (∀ starts ends st q, NoInternal (mkFeature starts ends st q)) ∧
    (∀ start endp kids, NoInternal (mkAnnot start endp kids)) ∧
    (∀ g cs q, ChildrenWF cs → NoInternal (mkColl g cs q)) := by
  refine ⟨?_, mkCompoundRaw_noInternal, mkParent_noInternal, mkSeq_noInternal, mkCDS_noInternal, mkTx_noInternal,
    mkVarColl_noInternal, scanWinCount_noInternal, mkFeature_noInternal, mkAnnot_noInternal,
    fun g cs q h => mkColl_noInternal g cs q h⟩
  intro s e st plen c h
  have := mkSingleP_spec s e st plen
  rw [h] at this
  simp [outOf, okMkSingle] at this

end BioCantor.Props.C19
