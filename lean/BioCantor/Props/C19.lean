import BioCantor.Model.Validate
import BioCantor.Spec.Validate
namespace BioCantor.Props.C19
theorem placeholder : True := trivial
end BioCantor.Props.C19
