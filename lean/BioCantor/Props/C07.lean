/-
  C07 — a chunk-relative view is the chromosome view restricted to the chunk.   (first version; extended below)
-/
import BioCantor.Proofs.ChunkLoc
namespace BioCantor.Props.C07
open BioCantor BioCantor.Spec BioCantor.Spec.Chunk BioCantor.Model BioCantor.Model.Chunk BioCantor.Proofs
open BioCantor.Proofs.Chunk

/-- **T2** the chunk-relative location of an interval built on a chunk, lifted back, is exactly the part of its
    chromosome location inside the chunk (block structure kept), on the strand relative to the chunk's. -/
theorem chunk_location_is_restriction (bs : List Blk) (st : Strand) (h : ValidBlocks bs) (ch : Model.Chunk.Chunk) :
    okChunkDown (initLoc bs st) ch.w ch.wst (ans (initializeLocation bs st (.chunk ch))) = true :=
  initializeLocation_chunk_ok bs st h ch

end BioCantor.Props.C07
