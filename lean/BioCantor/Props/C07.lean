/-
  C07 — a chunk-relative view is the chromosome view restricted to the chunk.

  Property theorems only (helper lemmas live in BioCantor/Proofs/Chunk*.lean).  The model is Model/Chunk.lean: the
  chunk branches of gene/interval.py, cds.py, transcript.py, feature.py, gene.py, collections.py on top of the C04
  lift (`chunkDown`, `liftOnce`) and the C05 CDS (`Model.CDS`).  The reference semantics is Spec/Chunk.lean:
  clips of the chromosome blocks by the chunk window (`Spec.clip`), the position map chunk → chromosome
  (`Spec.Chunk.unchunkPos`) and THE codons of the CDS (`Spec.cdsCodons`).

  Proved here, for ALL inputs in the stated scope (any number of exons, 0-bp gaps, both strands, chunks on + and −,
  every window, every frame vector):

    T1  cds_chromosome_answers_unchanged      a CDS built on a chunk holds the chromosome-level members (location,
                                              start, end, frames) of its chromosome-built twin and answers
                                              `chromosome_codon_locations` / `num_codons` identically
        feature_view_unchanged, cds_view_unchanged, transcript_view_unchanged
                                              what `start`/`end`/`chromosome_location`/`to_dict()` show and what
                                              `digest_object` receives (feature, CDS, transcript: the classes whose
                                              digest does not read the chunk-relative location) is the same for the twins
        transcript_never_drops_its_cds        the `except LocationOverlapException: self.cds = None` branch of the
                                              transcript constructor is dead: a sliced-out CDS is kept, with an empty
                                              chunk-relative location
    T2  chunk_location_is_restriction         `initialize_location` on a chunk: the chunk-relative location, lifted
        collection_location_is_restriction    back, is exactly the chromosome location clipped by the chunk window
                                              (block structure kept, strand relative to the chunk's)  [C04-T4]
    T3  chunk_codons_are_the_inner_codons     `chunk_relative_codon_locations` of a multi-exon CDS (every frame
                                              vector, programmed frameshifts included), lifted back position by
                                              position, are exactly the codons of the WHOLE CDS lying fully inside the
                                              chunk: the frame is kept where the chunk cuts the 5' end
        chunk_codons_single_exon_frame0       the same for a single-exon CDS with start frame 0 (frame 1 / 2: F-C05a)
        chunk_branch_scans_inner_codons       the core: lift down, lift back, `_calculate_frame_offset`, scan — on any
                                              prepared ascending location (the cleaned location or the single exon)
        chunk_window_codons_are_the_inner_codons, chunk_window_codons_single_exon_frame0
                                              `scan_chunk_relative_codon_locations(lo, hi)`: a codon window on top of
                                              the chunk yields the codons inside BOTH (code after d8ca372, which
                                              repaired F-C07d: the 5' distance is measured on the whole cleaned location)
    T4  no_base_in_chunk_gives_empty_location an interval without a base in the chunk gets the empty location
        base_in_chunk_gives_location          … and only then

    T5  chunk_built_chromosome_codons_unchanged
                                              QUERY ORDER: `chromosome_codon_locations`, `num_codons` and
                                              `scan_chromosome_codon_locations(lo, hi)` of a chunk-built CDS are
                                              functions of the constructor arguments alone — the same for every chunk
                                              window and strand, hence independent of anything asked about the chunk
                                              view before (the model has no cache; that the real object answers the same
                                              in both query orders is the spec-decided `order` line of every run)
    T6  lift_of_chunk_relative_location_is_the_chromosome_location
                                              ALTERNATIVE CONSTRUCTORS: chunk-down then lift-up is the identity, block for
                                              block, on an interval inside the chunk whose blocks do not touch
        from_chunk_relative_location_is_ordinary_construction
                                              `from_chunk_relative_location` of FeatureInterval (plus-strand chunks: F-C07e),
                                              CDSInterval and TranscriptInterval (chunks of BOTH strands) hands the
                                              ordinary constructor the description the location was written from
        from_dict_on_a_chunk_is_ordinary_construction, liftover_to_a_chunk_is_ordinary_construction
                                              `from_dict(o.to_dict(), parent_or_seq_chunk_parent=chunk)` and
                                              `liftover_to_parent_or_seq_chunk_parent(chunk)` of an object built on any
                                              parent = the ordinary construction on the chunk (all six classes)

  Resting on the correspondence run (stated at the end, not proved): the sequence clauses (`get_spliced_sequence`,
  `extract_sequence`, `translate` of the chunk-built twin), `chunk_relative_frames`, the pre-order composition of T1/T2
  over collection trees, and the identifier flags of collections (F-C07a).
-/
import BioCantor.Proofs.ChunkMain
import BioCantor.Proofs.ChunkWindow
import BioCantor.Proofs.ChunkAlt
import BioCantor.Props.C05
namespace BioCantor.Props.C07
open BioCantor BioCantor.Spec BioCantor.Spec.Chunk BioCantor.Model BioCantor.Model.Chunk BioCantor.Proofs
open BioCantor.Proofs.Chunk

/-! ### T1 — chromosome-level answers -/

/-- **T1** a CDS built on a chunk (`mkChunkCDS`) and on the whole chromosome (`mkWholeCDS`) from the same arguments:
    same chromosome location, `start`, `end`, frames; same `chromosome_codon_locations`, same `num_codons`. -/
theorem cds_chromosome_answers_unchanged (x : CdsD) (letters : List Char) (ch : Model.Chunk.Chunk) (cw : CDS)
    (k : ChunkCDS) (hw : mkWholeCDS x letters = .ok cw) (hk : mkChunkCDS x ch = .ok k) :
    k.base.loc = cw.loc ∧ k.base.start = cw.start ∧ k.base.«end» = cw.«end» ∧ k.base.frames = cw.frames ∧
      chromosomeCodonLocations k = codonLocations cw ∧ numCodonsChunk k = numCodons cw :=
  cds_twins_agree x letters ch cw k hw hk

/-- **T1** FeatureInterval: `nodeView` = (class, depth, `start`, `end`, `chromosome_location`, the coordinate
    entries of `to_dict()`, the arguments of `digest_object`). -/
theorem feature_view_unchanged (f : FeatD) (letters : List Char) (ch : Model.Chunk.Chunk) (depth : Nat) (a b : Node)
    (ha : mkFeat f (.whole letters) depth = .ok a) (hb : mkFeat f (.chunk ch) depth = .ok b) :
    nodeView a = nodeView b :=
  feat_twins_agree f letters ch depth a b ha hb

/-- **T1** CDSInterval as a node (standalone or inside a transcript) -/
theorem cds_view_unchanged (x : CdsD) (letters : List Char) (ch : Model.Chunk.Chunk) (depth : Nat) (a b : Node)
    (ha : mkCdsNode x (.whole letters) depth = .ok a) (hb : mkCdsNode x (.chunk ch) depth = .ok b) :
    nodeView a = nodeView b :=
  cdsNode_twins_agree x letters ch depth a b ha hb

/-- **T1** TranscriptInterval (coding or not): the transcript node and, when coding, its CDS node -/
theorem transcript_view_unchanged (t : TxD) (letters : List Char) (ch : Model.Chunk.Chunk) (depth : Nat)
    (as bs : List Node) (ha : mkTx t (.whole letters) depth = .ok as) (hb : mkTx t (.chunk ch) depth = .ok bs) :
    as.map nodeView = bs.map nodeView :=
  (tx_twins_agree t letters ch depth as bs ha hb).1

/-- **T1** the transcript constructor never drops the CDS (on either parent): the result of the CDS part is
    "non-coding" or the CDS node, never "coding but dropped". -/
theorem transcript_never_drops_its_cds (t : TxD) (p : Par) (depth : Nat) (r : Option (Option Node))
    (h : txCds t p depth = .ok r) : r ≠ some none := by
  rcases txCds_cases t p depth r h with ⟨_, rfl⟩ | ⟨_, n, _, rfl⟩ <;> simp

/-! ### T2 — the chunk-relative location is the chromosome location inside the chunk -/

/-- **T2** feature / transcript / CDS: for every block list the constructors accept (`ValidBlocks`: at least one
    block, each `start ≤ end`), strand, and chunk. `okChunkDown` (Spec/Lift.lean): empty exactly when no block has a
    base in the window; otherwise the blocks, lifted back, are exactly the non-empty clips, one block per clip, all
    inside the chunk, on the strand relative to the chunk's. -/
theorem chunk_location_is_restriction (bs : List Blk) (st : Strand) (h : ValidBlocks bs) (ch : Model.Chunk.Chunk) :
    okChunkDown (initLoc bs st) ch.w ch.wst (ans (initializeLocation bs st (.chunk ch))) = true :=
  initializeLocation_chunk_ok bs st h ch

/-- **T2** gene / feature collection / annotation collection: the span `[s, e)` on the plus strand -/
theorem collection_location_is_restriction (s e : Nat) (h : s ≤ e) (ch : Model.Chunk.Chunk) :
    okChunkDown (.single (s, e) .plus) ch.w ch.wst (ans (spanLocation s e (.chunk ch))) = true :=
  spanLocation_chunk_ok s e h ch

/-! ### T4 — no base in the chunk ⇔ empty location, never an error -/

/-- **T4** no block of the interval has a base inside the (non-empty, directional) chunk: the location is the
    empty location — the constructor answers, it does not raise. -/
theorem no_base_in_chunk_gives_empty_location (bs : List Blk) (st : Strand) (h : ValidBlocks bs)
    (ch : Model.Chunk.Chunk) (hw : ch.w.1 < ch.w.2) (hd : ch.wst = .plus ∨ ch.wst = .minus)
    (hno : (locationBlocks (initLoc bs st)).filterMap (clip ch.w) = []) :
    ans (initializeLocation bs st (.chunk ch)) = some .empty :=
  okChunkDown_empty _ ch.w ch.wst _ hw hd hno (initializeLocation_chunk_ok bs st h ch)

/-- **T4 (converse)** a CDS with a base inside the chunk has a non-empty chunk-relative location -/
theorem base_in_chunk_gives_location (k : ChunkCDS) (h : WFChunk k) (x : Nat)
    (hx : ∃ b ∈ k.base.loc.blocks, b.1 ≤ x ∧ x < b.2) (hin : inW k.chunk.w.1 k.chunk.w.2 x = true) :
    k.location ≠ .empty :=
  location_ne_empty k h x hx hin

/-! ### T3 — chunk-relative codons are the whole-chromosome codons fully inside the chunk -/

-- `WFChunk k` (Proofs/ChunkMain.lean): `WFCDS k.base` (C05's scope: directional strand, exons of positive length
-- that do not overlap, one real frame per exon), the chunk holds a base and has a direction, and `_location` is
-- the chunk lift of the CDS location.  `descOf k` / `winOf k`: the spec's view of the object and of its chunk.
-- `okChunkCodons` (Spec/Chunk.lean): every returned location is well formed, lies on the CDS strand as seen from
-- the chunk, and its positions read 5'→3' and lifted back one by one are the k-th codon of `Spec.cdsCodons` among
-- those with all three positions inside the window.

/-- **T3** multi-exon CDS, every frame vector (consistent or with programmed frameshifts), every window, chunk on
    either strand.  Guards = complement of the catalogued deviations: `shallowTrim` (F-C05b), a retained base inside
    the chunk (F-C07b: none retained; F-C07c: no base at all). -/
theorem chunk_codons_are_the_inner_codons (k : ChunkCDS) (h : WFChunk k) (hmulti : k.base.loc.blocks.length > 1)
    (hshallow : shallowTrim (exonWalk k.base.loc (specFrames k.base)) = true)
    (hsome : (cdsKept k.base.loc (specFrames k.base)).filter (inW k.chunk.w.1 k.chunk.w.2) ≠ []) :
    okChunkCodons (descOf k) (winOf k) (ans (chunkRelativeCodonLocations k)) = true :=
  chunkCodons_multi k h hmulti hshallow hsome

/-- **T3** single-exon CDS with start frame 0 (with frame 1 / 2 the pinned code adds the offsets without reducing
    modulo three and loses codons where the chunk cuts the 5' end: F-C05a, witness below). -/
theorem chunk_codons_single_exon_frame0 (k : ChunkCDS) (h : WFChunk k) (e : Blk) (hone : k.base.loc.blocks = [e])
    (hf : k.base.frames = [.ZERO])
    (hsome : (cdsKept k.base.loc (specFrames k.base)).filter (inW k.chunk.w.1 k.chunk.w.2) ≠ []) :
    okChunkCodons (descOf k) (winOf k) (ans (chunkRelativeCodonLocations k)) = true :=
  chunkCodons_single k h e hone hf hsome

/-- **T3 (core)** the chunk branch of both `_prepare_*` functions on a prepared ascending location `L` (positive,
    non-overlapping blocks; the cleaned location or the single exon) holding a position inside the window: it answers
    with a chunk-relative location and an offset `o < 3` such that scanning from `o` yields, lifted back, exactly the
    triples of `bases L` lying inside the window. -/
theorem chunk_branch_scans_inner_codons (k : ChunkCDS) (L : List Blk)
    (hst : k.base.strand = .plus ∨ k.base.strand = .minus)
    (hL2 : L ≠ []) (hL3 : ∀ b ∈ L, b.1 < b.2) (hL4 : L.Pairwise (fun a b => a.2 ≤ b.1))
    (hw : k.chunk.wst = .plus ∨ k.chunk.wst = .minus) (hwl : k.chunk.w.1 < k.chunk.w.2)
    (hsome : (bases ⟨L, k.base.strand⟩).filter (inW k.chunk.w.1 k.chunk.w.2) ≠ []) :
    ∃ (crl : Location) (o : Nat) (ms : List Location), o < 3 ∧
      chunkBranch k (.compound ⟨L, k.base.strand⟩) (.compound ⟨L, k.base.strand⟩) = .ok (crl, (o : Int)) ∧
      (if ((locLen crl : Nat) : Int) - (o : Int) ≥ 3 then scanWindows3 crl (o : Int) else pure []) = .ok ms ∧
      chunkCodonsMatch ⟨k.chunk.w, k.chunk.wst⟩ k.base.strand
        ((triples (bases ⟨L, k.base.strand⟩)).filter (fun t => t.all (inW k.chunk.w.1 k.chunk.w.2))) ms = true :=
  chunk_core k L hst hL2 hL3 hL4 hw hwl hsome

/-- **T3 + C05-T5** a codon window `[lo, hi)` (lo < hi, inside the chromosome letters if there are any) on a
    chunk-built multi-exon CDS: `scan_chunk_relative_codon_locations(lo, hi)`, lifted back position by position, are
    exactly the codons of the whole CDS lying inside the window AND inside the chunk — whichever of the two cuts the
    5' end, the frame is kept (F-C07d, repaired by d8ca372; the model mirrors the repaired code). -/
theorem chunk_window_codons_are_the_inner_codons (k : ChunkCDS) (h : WFChunk k)
    (hmulti : k.base.loc.blocks.length > 1)
    (hshallow : shallowTrim (exonWalk k.base.loc (specFrames k.base)) = true)
    (lo hi : Nat) (hlh : lo < hi) (hseq : ∀ s, k.base.seq = some s → hi ≤ s.length)
    (hsome : (cdsKept k.base.loc (specFrames k.base)).filter
      (fun p => inW lo hi p && inW k.chunk.w.1 k.chunk.w.2 p) ≠ []) :
    okChunkWindowCodons (descOf k) (winOf k) lo hi
      (ans (scanChunkRelativeCodonLocations k (lo : Int) (hi : Int))) = true :=
  chunkWindowCodons_multi k h hmulti hshallow lo hi hlh hseq hsome

/-- … and on a single-exon CDS with start frame 0 (frame 1 / 2: F-C05a) -/
theorem chunk_window_codons_single_exon_frame0 (k : ChunkCDS) (h : WFChunk k) (e : Blk)
    (hone : k.base.loc.blocks = [e]) (hf : k.base.frames = [.ZERO]) (lo hi : Nat) (hlh : lo < hi)
    (hseq : ∀ s, k.base.seq = some s → hi ≤ s.length)
    (hsome : (cdsKept k.base.loc (specFrames k.base)).filter
      (fun p => inW lo hi p && inW k.chunk.w.1 k.chunk.w.2 p) ≠ []) :
    okChunkWindowCodons (descOf k) (winOf k) lo hi
      (ans (scanChunkRelativeCodonLocations k (lo : Int) (hi : Int))) = true :=
  chunkWindowCodons_single k h e hone hf lo hi hlh hseq hsome


/-! ### T5 — query order: the chromosome-level codon answers do not depend on the chunk (nor on the chunk view) -/

/-- **T5** two CDSs built from the same arguments on ANY two chunks (any window, either strand — in particular a
    chunk holding every codon and one holding a few) answer `chromosome_codon_locations`, `num_codons` and
    `scan_chromosome_codon_locations(lo, hi)` identically: these observables read the chromosome-level members only.
    Together with T1 (`cds_chromosome_answers_unchanged`) they are the whole-chromosome twin's answers; there is no
    state through which an earlier question about the chunk view could reach them. -/
theorem chunk_built_chromosome_codons_unchanged (x : CdsD) (ch ch' : Model.Chunk.Chunk) (k k' : ChunkCDS)
    (hk : mkChunkCDS x ch = .ok k) (hk' : mkChunkCDS x ch' = .ok k') :
    chromosomeCodonLocations k = chromosomeCodonLocations k' ∧ numCodonsChunk k = numCodonsChunk k' ∧
      ∀ lo hi : Int, scanChromosomeCodonLocationsChunk k lo hi = scanChromosomeCodonLocationsChunk k' lo hi := by
  have h := mkChunkCDS_base x ch ch' k k' hk hk'
  unfold chromosomeCodonLocations numCodonsChunk scanChromosomeCodonLocationsChunk
  rw [h]
  exact ⟨rfl, rfl, fun _ _ => rfl⟩

/-! ### T6 — alternative constructors end in the ordinary construction on the same chunk -/

-- `ChunkOk ch`: the chunk holds a base and lies on the plus or the minus strand.  `AltBlocks bs ch`: at least one
-- block, each of positive length, strictly separated (`Sep`: no two touch), all inside the chunk window.
-- `AltDesc d ch` (Proofs/ChunkAlt.lean): `d` is a feature / CDS / transcript on a directional strand whose exon and CDS
-- blocks are `AltBlocks`; a coding transcript's CDS part is accepted by the CDS constructor; a FEATURE needs a chunk
-- on the plus strand (F-C07e, witness below).

/-- **T6 (core)** chunk-down then lift-up is the identity: `initialize_location` of blocks `W` on a chunk (either
    strand) gives a non-empty chunk-relative location on the strand relative to the chunk's, and
    `lift_over_to_first_ancestor_of_type("chromosome")` of it gives back exactly the blocks `W` on strand `st`. -/
theorem lift_of_chunk_relative_location_is_the_chromosome_location (W : List Blk) (st : Strand)
    (ch : Model.Chunk.Chunk) (hch : ChunkOk ch) (hst : st = .plus ∨ st = .minus) (hW : AltBlocks W ch) :
    ∃ crl m, initializeLocation W st (.chunk ch) = .ok crl ∧ liftToChromosome ch crl = .ok m ∧
      locStrand crl = .ok (strandRelativeTo st ch.wst) ∧ locBlocks m = W ∧ locStrand m = .ok st :=
  handed_roundtrip W st ch hch hst hW

/-- **T6** `FeatureInterval` / `CDSInterval` / `TranscriptInterval.from_chunk_relative_location`, handed the
    chunk-relative location(s) of a description `d` (for a coding transcript: with the CDS object the CDS constructor
    of the same name builds): the nodes, the description the ordinary constructor finally receives and the chunk are
    those of the ordinary construction of `d` on that chunk.  Chunks of BOTH strands for CDS and transcript. -/
theorem from_chunk_relative_location_is_ordinary_construction (d : Desc) (letters : List Char)
    (ch before other : Model.Chunk.Chunk) (hch : ChunkOk ch) (hd : AltDesc d ch) :
    viaNodes .fcrl d letters ch before other = (do let b ← buildNodes d (.chunk ch); pure (b, d, ch)) := by
  simp only [viaNodes, descFromChunkRelative_id d ch hch hd, bind, Except.bind]

/-- **T6** `Cls.from_dict(o.to_dict(), parent_or_seq_chunk_parent=p)` where `o` was built from `d` on ANY parent
    `src` (whole chromosome, another chunk): the ordinary construction of `d` on `p`.  All six classes; an
    AnnotationCollection with explicit bounds (inferred bounds are a property of the parent it was built on). -/
theorem from_dict_on_a_chunk_is_ordinary_construction (d : Desc) (src p : Par)
    (hsrc : ∃ a, buildNodes d src = .ok a) (hb : ∀ ac, d = .ac ac → ac.bounds ≠ none) :
    viaDict d src p = buildNodes d p :=
  viaDict_eq d src p hsrc hb

/-- **T6** `o.liftover_to_parent_or_seq_chunk_parent(p)` -/
theorem liftover_to_a_chunk_is_ordinary_construction (d : Desc) (src p : Par)
    (hsrc : ∃ a, buildNodes d src = .ok a) (hb : ∀ ac, d = .ac ac → ac.bounds ≠ none) :
    viaLift d src p = buildNodes d p :=
  viaDict_eq d src p hsrc hb

/-! ### non-vacuity: concrete inputs satisfying the hypotheses

  (`List.mergeSort` does not reduce in the kernel, so facts about sorted multi-block lists are shown through the
  closed forms `initLoc_ascending` / `chunkDown_closed` instead of `decide`.) -/

/-- C05's example CDS (minus strand, 0-bp gap, programmed frameshift) on the minus-strand chunk [3, 18): the chunk
    cuts the first exon (3' end of the CDS) and the last exon (5' end); `_location` in closed form -/
def exampleChunkCDS : ChunkCDS :=
  ⟨C05.exampleCDS,
   .compound ⟨relBlocks (3, 18) .minus (partsOf [(2, 7), (7, 11), (14, 20)] (3, 18)), strandRelativeTo .minus .minus⟩,
   ⟨(3, 18), .minus, []⟩⟩

example : exampleChunkCDS.location = .compound ⟨[(0, 4), (7, 11), (11, 15)], .plus⟩ := by decide

theorem exampleChunkCDS_wf : WFChunk exampleChunkCDS := by
  refine ⟨?_, Or.inr rfl, by decide, ?_⟩
  · constructor <;> simp [exampleChunkCDS, C05.exampleCDS] <;> decide
  · show ans (chunkDown (initLoc [(2, 7), (7, 11), (14, 20)] .minus) (3, 18) .minus) = _
    rw [initLoc_ascending _ _ _ _ (by decide),
      chunkDown_closed _ .minus (3, 18) .minus (Or.inr rfl) (by decide) (by decide) (by decide) (by decide)]
    rfl
example : exampleChunkCDS.base.loc.blocks.length > 1 ∧
    shallowTrim (exonWalk exampleChunkCDS.base.loc (specFrames exampleChunkCDS.base)) = true ∧
    (cdsKept exampleChunkCDS.base.loc (specFrames exampleChunkCDS.base)).filter (inW 3 18) ≠ [] := by decide
-- three codons on the chromosome, two of them fully inside the chunk
example : cdsCodons exampleChunkCDS.base.loc (specFrames exampleChunkCDS.base) = [[19, 18, 17], [16, 15, 14], [5, 4, 3]] ∧
    innerCodons (descOf exampleChunkCDS) (winOf exampleChunkCDS) = [[16, 15, 14], [5, 4, 3]] := by decide +kernel
-- T3 applied: the model answers, and with exactly those two codons
example : okChunkCodons (descOf exampleChunkCDS) (winOf exampleChunkCDS)
    (ans (chunkRelativeCodonLocations exampleChunkCDS)) = true :=
  chunk_codons_are_the_inner_codons exampleChunkCDS exampleChunkCDS_wf (by decide) (by decide) (by decide)

-- a codon window [4, 17) on top of the chunk [3, 18): the hypotheses hold (a chunk-built CDS carries no chromosome
-- letters: `hseq` is vacuous), and the windowed theorem applies
example : (cdsKept exampleChunkCDS.base.loc (specFrames exampleChunkCDS.base)).filter
    (fun p => inW 4 17 p && inW 3 18 p) ≠ [] ∧ exampleChunkCDS.base.seq = none := by decide
example : okChunkWindowCodons (descOf exampleChunkCDS) (winOf exampleChunkCDS) 4 17
    (ans (scanChunkRelativeCodonLocations exampleChunkCDS 4 17)) = true :=
  chunk_window_codons_are_the_inner_codons exampleChunkCDS exampleChunkCDS_wf (by decide) (by decide) 4 17
    (by decide) (by intro s hs; cases hs) (by decide)

/-- a single-exon CDS with start frame 0 on a chunk that cuts its 5' end -/
def plainChunkCDS : ChunkCDS :=
  ⟨{ loc := ⟨[(3, 30)], .plus⟩, start := 3, «end» := 30, frames := [.ZERO], seq := none },
   .single (0, 6) .plus, ⟨(4, 10), .plus, []⟩⟩
example : WFChunk plainChunkCDS ∧ plainChunkCDS.base.loc.blocks = [(3, 30)] ∧ plainChunkCDS.base.frames = [.ZERO] ∧
    (cdsKept plainChunkCDS.base.loc (specFrames plainChunkCDS.base)).filter (inW 4 10) ≠ [] := by
  refine ⟨⟨?_, Or.inl rfl, by decide, by decide +kernel⟩, rfl, rfl, by decide +kernel⟩
  constructor <;> simp [plainChunkCDS] <;> decide
-- the chunk cuts the codon 3-6; the first full codon inside it is 6-9 (chunk 2-5): the frame is kept
example : ans (chunkRelativeCodonLocations plainChunkCDS) = some [.single (2, 5) .plus] := by decide +kernel

example : ValidBlocks [(1, 4), (6, 10)] := ⟨by simp, by decide⟩
-- chunk [12, 14) misses the interval: hypotheses of T4
example : (locationBlocks (initLoc [(1, 4), (6, 10)] .minus)).filterMap (clip (12, 14)) = [] := by
  rw [initLoc_ascending _ _ _ _ (by decide)]; decide
-- the twins of T1 exist: a feature, a coding transcript and a CDS on an 8-letter chromosome and on the chunk [2, 6)
-- of its minus strand (single-block objects: evaluated by the kernel)
example : (ans (mkFeat ⟨.minus, [(1, 5)]⟩ (.whole "ACGTACGT".toList) 0)).isSome = true ∧
    (ans (mkFeat ⟨.minus, [(1, 5)]⟩ (.chunk ⟨(2, 6), .minus, "GTAC".toList⟩) 0)).isSome = true := by decide +kernel
example : (ans (mkTx ⟨.plus, [(1, 7)], [((2, 6), 1)]⟩ (.whole "ACGTACGT".toList) 0)).isSome = true ∧
    (ans (mkTx ⟨.plus, [(1, 7)], [((2, 6), 1)]⟩ (.chunk ⟨(2, 6), .minus, "GTAC".toList⟩) 0)).isSome = true ∧
    (ans (txCds ⟨.plus, [(1, 7)], [((2, 6), 1)]⟩ (.chunk ⟨(6, 8), .minus, "AC".toList⟩) 0)).isSome = true := by
  decide +kernel
example : (ans (mkWholeCDS ⟨.minus, [((2, 7), 1)]⟩ "ACGTACGT".toList)).isSome = true ∧
    (ans (mkChunkCDS ⟨.minus, [((2, 7), 1)]⟩ ⟨(3, 8), .plus, "TACGT".toList⟩)).isSome = true ∧
    (ans (mkCdsNode ⟨.minus, [((2, 7), 1)]⟩ (.whole "ACGTACGT".toList) 1)).isSome = true ∧
    (ans (mkCdsNode ⟨.minus, [((2, 7), 1)]⟩ (.chunk ⟨(3, 8), .plus, "TACGT".toList⟩) 1)).isSome = true := by
  decide +kernel


/-! ### T5 / T6: the hypotheses are satisfiable, and the guards are needed -/

-- two chunks of one CDS: [4,6) on the plus strand holds no codon, [1,8) on the minus strand holds both
example : (ans (mkChunkCDS ⟨.plus, [((1, 8), 1)]⟩ ⟨(4, 6), .plus, "AC".toList⟩)).isSome = true ∧
    (ans (mkChunkCDS ⟨.plus, [((1, 8), 1)]⟩ ⟨(1, 8), .minus, "ACGTACG".toList⟩)).isSome = true := by decide +kernel

/-- a minus-strand chunk [2, 12) and a two-exon minus-strand CDS [3,5) [7,10) inside it -/
def altChunk : Model.Chunk.Chunk := ⟨(2, 12), .minus, "ACGTACGTAC".toList⟩
example : ChunkOk altChunk := ⟨Or.inr rfl, by decide⟩
theorem altBlocks_example : AltBlocks [(3, 5), (7, 10)] altChunk :=
  ⟨by simp, by simp [Chunk.Sep], by
    intro b hb
    simp only [List.mem_cons, List.not_mem_nil, or_false] at hb
    rcases hb with rfl | rfl <;> exact ⟨by decide, by decide⟩⟩
example : AltDesc (.cds ⟨.minus, [((3, 5), 0), ((7, 10), 2)]⟩) altChunk := ⟨Or.inr rfl, altBlocks_example⟩
-- a coding transcript with that exon structure and a one-block CDS [7,9) on the same chunk
example : AltDesc (.tx ⟨.minus, [(3, 5), (7, 10)], [((7, 9), 0)]⟩) altChunk := by
  refine ⟨Or.inr rfl, altBlocks_example, fun _ => ⟨⟨by simp, by simp [Chunk.Sep], ?_⟩, ?_⟩⟩
  · intro b hb
    simp only [List.map_cons, List.map_nil, List.mem_cons, List.not_mem_nil, or_false] at hb
    subst hb; exact ⟨by decide, by decide⟩
  · cases h : mkChunkCDS (TxD.cdsD ⟨.minus, [(3, 5), (7, 10)], [((7, 9), 0)]⟩) altChunk with
    | ok k => exact ⟨k, rfl⟩
    | error e =>
      have : (ans (mkChunkCDS (TxD.cdsD ⟨.minus, [(3, 5), (7, 10)], [((7, 9), 0)]⟩) altChunk)).isSome = true := by
        decide +kernel
      rw [h] at this; simp [ans] at this
-- a feature on a plus-strand chunk
example : AltDesc (.feat ⟨.minus, [(3, 5), (7, 10)]⟩) ⟨(2, 12), .plus, "ACGTACGTAC".toList⟩ :=
  ⟨Or.inr rfl, ⟨by simp, by simp [Chunk.Sep], by
    intro b hb
    simp only [List.mem_cons, List.not_mem_nil, or_false] at hb
    rcases hb with rfl | rfl <;> exact ⟨by decide, by decide⟩⟩, rfl⟩
-- a gene built on the whole chromosome exists, and has no bounds to worry about (hypotheses of the from_dict theorems)
example : (ans (buildNodes (.gene ⟨[⟨.plus, [(1, 10)], []⟩]⟩) (.whole "ACGTACGTACGTAC".toList))).isSome = true := by
  decide +kernel

/-- F-C07e: `FeatureInterval.from_chunk_relative_location` on a chunk of the MINUS strand: the feature [3,8) + comes
    back on the minus strand of the chromosome (the modelled code passes the chunk-relative strand on) -/
example : ans (descFromChunkRelative (.feat ⟨.plus, [(3, 8)]⟩) ⟨(2, 10), .minus, "ACGTACGT".toList⟩) =
    some (.feat ⟨.minus, [(3, 8)]⟩) := by decide +kernel
-- … while the CDS constructor of the same name keeps the chromosome strand
example : ans (descFromChunkRelative (.cds ⟨.plus, [((3, 8), 0)]⟩) ⟨(2, 10), .minus, "ACGTACGT".toList⟩) =
    some (.cds ⟨.plus, [((3, 8), 0)]⟩) := by decide +kernel
/-- touching blocks are merged by the lift back to the chromosome (why `Sep` is asked for): exons [3,5) [5,8) -/
example : ans (descFromChunkRelative (.feat ⟨.plus, [(3, 8)]⟩) ⟨(2, 10), .plus, "ACGTACGT".toList⟩) =
    some (.feat ⟨.plus, [(3, 8)]⟩) := by decide +kernel

/-! ### stated, not proved (these clauses rest on the correspondence run of harness/props/c07.py)

  Sequences: for a chunk whose letters are the chromosome letters of the window (reverse-complemented on −),
      okSeq letters d win (cells of `nodeSequence`)          get_spliced_sequence / get_reference_sequence
      okChunkCdsSeq letters x win (ans (extractSequenceChunk k))   extract_sequence() = letters of the inner codons
      okChunkProtein letters x win (ans (translateChunk k))        translate()        = their standard-code translation
    (`extractSequenceChunk` reads `prepareChunk`, i.e. the location and offset of `chunk_branch_scans_inner_codons`;
    what is missing is the letter-level reading of a chunk-relative location against reverse-complemented letters.)

  Codon windows with `expand_window_to_partial_codons` or a `None` bound on a chunk-built CDS: not modelled here
    (C05 covers them on the chromosome; findings F-C05f/g).

  Chunk-relative frames: for a CDS in one uninterrupted reading frame (`oneFrame`) whose 5'-most in-chunk block holds
    the offset,  okChunkFrames x win (ans (chunkRelativeFrames k))  (F-C05h otherwise).  Modelled, compared on every run.

  Collections: `buildNodes d (.whole l) = .ok a → buildNodes d (.chunk ch) = .ok b → okLoc d win (some (b as answer))`
    and `a.map nodeView = b.map nodeView` for gene / feature collection / annotation collection.  The leaf cases are
    the theorems above; the span of a collection is min / max over the `start` / `end` of its children (parent
    independent by T1); the composition over the pre-order listing is not written out.

  Query order: that the REAL object gives the same answers whichever view is asked first is decided on every run by
    `okOrder` (Spec/Chunk.lean) on the `order` lines (both recordings) and by the usual predicates on `@k` / `@c` lines.
    The one place where the library's control flow depends on the history — `extract_sequence` joins the cached chunk
    codons when `chunk_relative_codon_locations` was evaluated before — is mirrored by
    `extractSequenceChunkAfterCodons`; that both paths give the same letters is compared, not proved.

  Alternative constructors: `okAltCtor d win (flags of viaNodes … against buildNodes d (.chunk ch))` for `via:snv`
    (`descIncorporateSnv`, modelled incl. F-C07f / F-C07g; on a plus-strand chunk and one reading frame it re-creates
    the description — compared on every run, the proof needs the Python type of the lifted-back location) and the
    identifier copy of `from_dict` (`copyGuids`).

  Identifier flags: `guidFlags a b` is all-true for feature, CDS and transcript nodes (their `guidKey` is part of
    `nodeView`); for collections it is false exactly when the chunk-relative location differs (F-C07a, witness below).
-/

/-! ### witnesses: the modelled current code deviates at the catalogued inputs (findings/C07.json) -/

/-- F-C05a through a chunk: one exon [3,30) +, start frame 1, chunk [4,10) +: the modelled code returns one codon
    (chunk 3-6 = chromosome 7-10), the property demands two (4-7 and 7-10) -/
def oneExonChunkCDS : ChunkCDS := ⟨C05.oneExonCDS, .single (0, 6) .plus, ⟨(4, 10), .plus, []⟩⟩
example : WFChunk oneExonChunkCDS := by
  refine ⟨?_, Or.inl rfl, by decide, by decide +kernel⟩
  constructor <;> simp [oneExonChunkCDS, C05.oneExonCDS] <;> decide
example : ans (chunkRelativeCodonLocations oneExonChunkCDS) = some [.single (3, 6) .plus] := by decide +kernel
example : innerCodons (descOf oneExonChunkCDS) (winOf oneExonChunkCDS) = [[4, 5, 6], [7, 8, 9]] := by decide +kernel
example : okChunkCodons (descOf oneExonChunkCDS) (winOf oneExonChunkCDS)
    (ans (chunkRelativeCodonLocations oneExonChunkCDS)) = false := by decide +kernel

/-- F-C07b: exons [6,8) [14,16) −, frames [0,2], chunk [15,78): the chunk holds the CDS base 15, which the frame
    walk trims; the cleaned location lifts to EmptyLocation and the lift back raises -/
def trimmedChunkCDS : ChunkCDS :=
  ⟨{ loc := ⟨[(6, 8), (14, 16)], .minus⟩, start := 6, «end» := 16, frames := [.ZERO, .TWO], seq := none },
   .compound ⟨[(0, 1)], .minus⟩, ⟨(15, 78), .plus, []⟩⟩
example : WFChunk trimmedChunkCDS := by
  refine ⟨?_, Or.inl rfl, by decide, ?_⟩
  · constructor <;> simp [trimmedChunkCDS] <;> decide
  · show ans (chunkDown (initLoc [(6, 8), (14, 16)] .minus) (15, 78) .plus) = _
    rw [initLoc_ascending _ _ _ _ (by decide),
      chunkDown_closed _ .minus (15, 78) .plus (Or.inl rfl) (by decide) (by decide) (by decide) (by decide)]
    rfl
example : cdsKept trimmedChunkCDS.base.loc (specFrames trimmedChunkCDS.base) = [7, 6] := by decide
example : ans (chunkRelativeCodonLocations trimmedChunkCDS) = none := by decide +kernel
example : okChunkCodons (descOf trimmedChunkCDS) (winOf trimmedChunkCDS) (some []) = true := by decide +kernel

/-- F-C07c: a CDS without a base in the chunk answers "chunk-relative" questions in chromosome coordinates -/
def slicedOutCDS : ChunkCDS := ⟨C05.plainCDS, .empty, ⟨(4, 5), .plus, []⟩⟩
example : WFChunk slicedOutCDS := by
  refine ⟨?_, Or.inl rfl, by decide, by decide +kernel⟩
  constructor <;> simp [slicedOutCDS, C05.plainCDS] <;> decide
example : ans (chunkRelativeCodonLocations slicedOutCDS) = some [.single (1, 4) .plus] := by decide +kernel
example : innerCodons (descOf slicedOutCDS) (winOf slicedOutCDS) = [] := by decide +kernel

/-- F-C07d (repaired, d8ca372) as a regression: one exon [1,11) +, frame 0, chunk [1,11), codon window [2,11): the
    window cuts one base at the 5' end; the model of the repaired code keeps the frame (chromosome codons 4-7, 7-10;
    before the repair it answered with the out-of-frame triples 2-5, 5-8, 8-11) -/
def windowedChunkCDS : ChunkCDS :=
  ⟨{ loc := ⟨[(1, 11)], .plus⟩, start := 1, «end» := 11, frames := [.ZERO], seq := none },
   .single (0, 10) .plus, ⟨(1, 11), .plus, []⟩⟩
example : ans (scanChunkRelativeCodonLocations windowedChunkCDS 2 11) =
    some [.single (3, 6) .plus, .single (6, 9) .plus] := by decide +kernel
example : innerWindowCodons (descOf windowedChunkCDS) (winOf windowedChunkCDS) 2 11 = [[4, 5, 6], [7, 8, 9]] := by
  decide +kernel
example : WFChunk windowedChunkCDS ∧ windowedChunkCDS.base.loc.blocks = [(1, 11)] ∧
    (cdsKept windowedChunkCDS.base.loc (specFrames windowedChunkCDS.base)).filter
      (fun p => inW 2 11 p && inW 1 11 p) ≠ [] := by
  refine ⟨⟨?_, Or.inl rfl, by decide, by decide +kernel⟩, rfl, by decide +kernel⟩
  constructor <;> simp [windowedChunkCDS] <;> decide

/-- F-C07a: the digest of a gene reads the chunk-relative location: gene [1,10) (one transcript) on chunk [2,9) -/
example : ans (do
    let a ← buildNodes (.gene ⟨[⟨.plus, [(1, 10)], []⟩]⟩) (.whole "ACGTACGTACGTAC".toList)
    let b ← buildNodes (.gene ⟨[⟨.plus, [(1, 10)], []⟩]⟩) (.chunk ⟨(2, 9), .plus, "GTACGTA".toList⟩)
    pure (guidFlags a b, dictEqual a b) : R (List Bool × Bool)) = some ([false, true], true) := by decide +kernel

end BioCantor.Props.C07
