/-
  C19 — ties of GENERATED validation code to the hand-written C19 model (`Model/Validate.lean`).

    Gen.Location_scan_windows_checks   location/location.py  Location.scan_windows, everything before the window loop
                                       (argument validation + `self.strand.assert_directional()`), on a SingleInterval
                                       ↔ Model.Validate.scanWinCount
  The loop after the cut is pinned as text (`scan_windows_tail_pinned`): the model's `scanWindows` reads exactly that
  loop (`range(start_pos, len - window + 1, step)`, one `relative_interval_to_parent_location(s, s + window, +)` each).
-/
import BioCantor.Gen.Kernels
import BioCantor.Model.Validate
import BioCantor.Proofs.Ties
set_option autoImplicit false
namespace BioCantor.Props.C19Ties
open BioCantor BioCantor.GenP BioCantor.Model BioCantor.Model.Validate BioCantor.Proofs.Ties

/-- For every single-block location, window size, step and start position: the regenerated validation refuses with
    ValueError / InvalidStrandException exactly when the model does, and otherwise hands `(start_pos, window_size)` to
    the loop whose length the model computes. -/
theorem scan_windows_checks_tie (b : Blk) (hb : b.1 ≤ b.2) (st : Strand) (w step sp : Int) :
    match Gen.Location_scan_windows_checks (si b st) w step sp with
    | .ok p => p = (sp, w) ∧
        scanWinCount (.single b st) w step sp = .ok (rangeCount sp (((b.2 - b.1 : Nat) : Int) - w + 1) step)
    | .error e => ∃ c, mapExc e = some c ∧ scanWinCount (.single b st) w step sp = .error (.doc c) := by
  unfold Gen.Location_scan_windows_checks scanWinCount
  have hlen : (si b st).«end» - (si b st).start = ((b.2 - b.1 : Nat) : Int) := by
    show (b.2 : Int) - (b.1 : Int) = _; omega
  have hll : ((locLen (.single b st) : Nat) : Int) = ((b.2 - b.1 : Nat) : Int) := rfl
  simp only [hlen, hll]
  by_cases h1 : (0 : Int) ≤ sp ∧ sp < ((b.2 - b.1 : Nat) : Int)
  · simp only [h1, not_true_eq_false, if_false]
    by_cases h2 : min w step < 1
    · simp only [h2, if_true]; exact ⟨.ValueError, rfl, rfl⟩
    · simp only [h2, if_false]
      by_cases h3 : w > ((b.2 - b.1 : Nat) : Int)
      · simp only [h3, if_true]; exact ⟨.ValueError, rfl, rfl⟩
      · simp only [h3, if_false]
        by_cases h4 : sp + w > ((b.2 - b.1 : Nat) : Int)
        · simp only [h4, if_true]; exact ⟨.ValueError, rfl, rfl⟩
        · simp only [h4, if_false]
          cases st <;> simp [Gen.Strand_assert_directional, si, locStrand, liftR, assertDirectional, bind, Except.bind,
            pure, Except.pure, mapExc, throw, throwThe, MonadExceptOf.throw]
  · simp only [h1, not_false_eq_true, if_true]; exact ⟨.ValueError, rfl, rfl⟩

/-- the window loop after the cut, as the model reads it -/
theorem scan_windows_tail_pinned :
    Gen.Location_scan_windows_checks_tail =
      ["for curr_start in range(start_pos, len(self) - window_size + 1, step_size):\n    yield self.relative_interval_to_parent_location(curr_start, curr_start + window_size, Strand.PLUS)".toList] := by
  decide +kernel

/-! ### non-vacuity -/
example : Gen.Location_scan_windows_checks ⟨5, 14, .plus⟩ 3 3 1 = .ok (1, 3) := rfl
example : Gen.Location_scan_windows_checks ⟨5, 14, .plus⟩ 3 3 7 = .error .ValueError := rfl
example : Gen.Location_scan_windows_checks ⟨5, 14, .unstranded⟩ 3 3 1 = .error .InvalidStrandException := rfl

end BioCantor.Props.C19Ties
