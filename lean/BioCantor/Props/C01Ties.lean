/-
  C01 ties — the hand-written model functions that the C01 / C02 theorems are about agree, on every input of
  the model's domain, with the kernels REGENERATED from /repo's Python sources on every run
  (tools/translate.py → Gen/Kernels.lean).  A change of `SingleInterval.parent_to_relative_pos`,
  `relative_to_parent_pos`, `relative_interval_to_parent_location`, `_has_overlap_single_interval`,
  `_intersection_single_interval`, `Strand.reverse`, `Strand.relative_to` or `Strand.assert_directional` that
  alters behaviour changes the generated definition and makes the corresponding theorem fail to compile.

  Vocabulary (Proofs/Ties.lean): `si b st : SI := ⟨b.1, b.2, st⟩`; `siLoc s = Location.single (s.start.toNat,
  s.end.toNat) s.strand`; `Agree f g m` ⇔ `view f g = some m`, i.e. generated answer `g` and model answer `m` are
  both ok with `f value_g = value_m`, or both errors with `mapExc class_g = some class_m`
  (InvalidPositionException ↦ InvalidPosition, InvalidStrandException ↦ InvalidStrand, ValueError ↦ ValueError, …).
  Only `theorem` declarations here; helper lemmas and the satisfiability examples are in Proofs/Ties.lean.
-/
import BioCantor.Proofs.Ties
set_option autoImplicit false   -- an unresolved name in a statement must be an error, never a bound variable
namespace BioCantor.Props.C01Ties
open BioCantor BioCantor.GenP BioCantor.Proofs.Ties

/-- T1: `SingleInterval.parent_to_relative_pos` — generated kernel = `Model.singleP2R`, values and error classes
    (holds for every pair of naturals, `b.1 ≤ b.2` is not even needed). -/
theorem parent_to_relative_pos_tie (b : Blk) (st : Strand) (p : Int) :
    Agree id (Gen.SingleInterval_parent_to_relative_pos (si b st) p) (Model.singleP2R b st p) := by
  exact Proofs.Ties.p2r b st p

/-- T2: `SingleInterval.relative_to_parent_pos` — generated kernel = `Model.singleR2P`. -/
theorem relative_to_parent_pos_tie (b : Blk) (hb : b.1 ≤ b.2) (st : Strand) (r : Int) :
    Agree id (Gen.SingleInterval_relative_to_parent_pos (si b st) r) (Model.singleR2P b st r) := by
  exact Proofs.Ties.r2p b hb st r

/-- T3: `SingleInterval.relative_interval_to_parent_location` — generated kernel (including its call of the
    generated `Strand.relative_to` and of the SingleInterval constructor check) = `Model.singleRelInterval`,
    the result interval read as `Location.single (start.toNat, end.toNat) strand`. -/
theorem relative_interval_to_parent_location_tie (b : Blk) (hb : b.1 ≤ b.2) (st : Strand) (rs re : Int)
    (rst : Strand) :
    Agree siLoc (Gen.SingleInterval_relative_interval_to_parent_location (si b st) rs re rst)
      (Model.singleRelInterval b st rs re rst) := by
  exact Proofs.Ties.relInterval b hb st rs re rst

/-- T4: `SingleInterval._has_overlap_single_interval` — never raises and returns `Model.overlapKernel`. -/
theorem has_overlap_single_interval_tie (a b : Blk) (ha : a.1 ≤ a.2) (hb : b.1 ≤ b.2) (sa sb : Strand) :
    Gen.SingleInterval_has_overlap_single_interval (si a sa) (si b sb) = .ok (Model.overlapKernel a b) := by
  exact Proofs.Ties.overlap a b ha hb sa sb

/-- T5a: `SingleInterval._intersection_single_interval` — the block `(max starts, min ends)` with self's strand;
    InvalidPositionException exactly when `max starts > min ends`. -/
theorem intersection_single_interval_tie (a b : Blk) (sa sb : Strand) :
    Gen.SingleInterval_intersection_single_interval (si a sa) (si b sb)
      = if max a.1 b.1 ≤ min a.2 b.2 then .ok (si (max a.1 b.1, min a.2 b.2) sa)
        else .error .InvalidPositionException := by
  exact Proofs.Ties.intersection a b sa sb

/-- T5b: when the overlap kernel holds (the only situation in which Model/Algebra.lean takes `isectBlk`) the
    generated intersection returns the max/min block, and that block is non-empty. -/
theorem intersection_single_interval_of_overlap (a b : Blk) (sa sb : Strand)
    (h : Model.overlapKernel a b = true) :
    Gen.SingleInterval_intersection_single_interval (si a sa) (si b sb)
      = .ok (si (max a.1 b.1, min a.2 b.2) sa) ∧ max a.1 b.1 < min a.2 b.2 := by
  exact Proofs.Ties.intersection_of_overlap a b sa sb h

/-- T6a: `Strand.reverse` never raises and is `Model.strandReverse`. -/
theorem strand_reverse_tie (s : Strand) : Gen.Strand_reverse s = .ok (Model.strandReverse s) := by
  exact Proofs.Ties.strand_reverse s

/-- T6b: `Strand.relative_to` never raises and is `Model.strandRelativeTo`, which is the specification's
    `Spec.compose` and is commutative (so `self.strand.relative_to(relative_strand)` and
    `relative_strand.relative_to(self.strand)` are interchangeable). -/
theorem strand_relative_to_tie (a b : Strand) :
    Gen.Strand_relative_to a b = .ok (Model.strandRelativeTo a b)
      ∧ Model.strandRelativeTo a b = Spec.compose a b
      ∧ Model.strandRelativeTo a b = Model.strandRelativeTo b a := by
  exact ⟨Proofs.Ties.strand_relative_to a b, Proofs.Ties.strandRelativeTo_eq_compose a b, Proofs.Ties.strandRelativeTo_comm a b⟩

/-- T6c: `Strand.assert_directional` — InvalidStrandException ↦ `Err.InvalidStrand` exactly on `unstranded`
    (the Python method returns None; the translated kernel's dummy value is forgotten). -/
theorem strand_assert_directional_tie (s : Strand) :
    Agree (fun _ => ()) (Gen.Strand_assert_directional s) (Model.assertDirectional s) := by
  exact Proofs.Ties.strand_assert_directional s

/-- Reading of `Agree`: the model returns `v` iff the generated kernel returns a value that `f` maps to `v`. -/
theorem agree_ok_iff {α β} {f : α → β} {g : PyR α} {m : Except Err β} (h : Agree f g m) (v : β) :
    m = .ok v ↔ ∃ a, g = .ok a ∧ f a = v := by
  exact Agree.ok_iff h v

/-- Reading of `Agree`: the model raises `e` iff the generated kernel raises a class that `mapExc` maps to `e`. -/
theorem agree_error_iff {α β} {f : α → β} {g : PyR α} {m : Except Err β} (h : Agree f g m) (e : Err) :
    m = .error e ↔ ∃ x, g = .error x ∧ mapExc x = some e := by
  exact Agree.error_iff h e

end BioCantor.Props.C01Ties
