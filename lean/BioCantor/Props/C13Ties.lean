/-
  C13 — tie of the GENERATED compound lift (`Gen.VariantInterval_lift_over_chromosome_location_compound_interval`,
  re-translated from gene/variants.py on every run: the `for single_interval in location.blocks` loop with its
  `try … except EmptyLocationException: continue`, and the tail `EmptyLocation()` / the single block /
  `CompoundInterval.from_single_intervals(…).optimize_blocks()`) to the hand-written model
  (`Model.Variants.liftBlocks` followed by `Model.Variants.assemble`) that the C13 theorems are about.

  The object construction `from_single_intervals(…).optimize_blocks()` stays symbolic in the kernel
  (`LocOut.fromBlocks bs true`); `Proofs.AlgTies2.finishLoc` is the model's reading of it.
-/
import BioCantor.Proofs.VarLift
import BioCantor.Proofs.AlgTies2
set_option autoImplicit false
namespace BioCantor.Props.C13Ties
open BioCantor BioCantor.GenP BioCantor.Proofs.Ties BioCantor.Proofs.LoopTies BioCantor.Proofs.AlgTies2
open BioCantor.Proofs.Var BioCantor.Model
open BioCantor.Model.LoopGlue (siBlk)
open BioCantor.Model.Variants (Var kernel liftBlocks assemble)

/-- the variant as the generated kernels see it -/
def vi (v : Var) : VI := ⟨v.s, v.e, v.alt.length⟩

/-- the block constructor's guarantee, and: a lifted block keeps the strand of the block it comes from -/
theorem mkSI_ok (s e : Int) (st : Strand) (t : SI) (h : mkSI s e st = .ok t) : t.strand = st ∧ 0 ≤ t.start ∧ t.start ≤ t.«end» := by
  unfold mkSI at h
  split at h
  · simp only [Except.ok.injEq] at h; subst h; rename_i hc; exact ⟨rfl, hc.1, hc.2⟩
  · simp only [reduceCtorEq] at h
theorem liftK_some (v : VI) (b t : SI) (h : liftK v b = .ok (some t)) :
    t.strand = b.strand ∧ 0 ≤ t.start ∧ t.start ≤ t.«end» := by
  unfold liftK Gen.VariantInterval_lift_over_chromosome_location_single_interval at h
  simp only [] at h
  repeat' split at h
  all_goals first
    | (simp only [reduceCtorEq] at h; done)
    | (simp only [Except.ok.injEq, Option.some.injEq, reduceCtorEq] at h; done)
    | (rename_i heq; simp only [Except.ok.injEq, Option.some.injEq] at h; subst h; exact mkSI_ok _ _ _ _ heq)

/-- the model's kernel wrapper in terms of the generated kernel's three outcomes -/
theorem kernel_ok_some (v : Var) (b : Blk) (st : Strand) (t : SI) (h : liftK (vi v) (si b st) = .ok (some t)) :
    kernel v b st = .ok (some (siBlk t)) := by
  unfold kernel
  have : Gen.VariantInterval_lift_over_chromosome_location_single_interval ⟨v.s, v.e, v.alt.length⟩ ⟨b.1, b.2, st⟩
      = .ok (some t) := h
  rw [this]; rfl

theorem kernel_ok_none (v : Var) (b : Blk) (st : Strand) (h : liftK (vi v) (si b st) = .ok none) :
    kernel v b st = .ok none := by
  unfold kernel
  have : Gen.VariantInterval_lift_over_chromosome_location_single_interval ⟨v.s, v.e, v.alt.length⟩ ⟨b.1, b.2, st⟩
      = .ok none := h
  rw [this]; rfl

theorem kernel_err (v : Var) (b : Blk) (st : Strand) (e : PyExc) (h : liftK (vi v) (si b st) = .error e) :
    kernel v b st = .error .InvalidPosition ∧ e = .InvalidPositionException := by
  refine ⟨?_, k_error_kind _ _ e h⟩
  unfold kernel
  have : Gen.VariantInterval_lift_over_chromosome_location_single_interval ⟨v.s, v.e, v.alt.length⟩ ⟨b.1, b.2, st⟩
      = .error e := h
  rw [this]; rfl

/-- what the generated loop answers, given what the model's `liftBlocks` answers -/
def LoopRel (st : Strand) (acc : List SI) (g : PyR (LoopOut LocOut (List SI))) : R (List Blk) → Prop
  | .ok ls => ∃ ts : List SI, g = .ok (.done (acc ++ ts)) ∧ ts.map siBlk = ls ∧
      ∀ t ∈ ts, t.strand = st ∧ 0 ≤ t.start ∧ t.start ≤ t.«end»
  | .error c => c = .InvalidPosition ∧ g = .error .InvalidPositionException

/-- **Loop tie.** The generated loop (accumulator `acc`) and the model's `liftBlocks` produce the same blocks, in
    the same order, for every block list; an exception of either is the block constructor's InvalidPositionException
    (the `except EmptyLocationException: continue` branch of the source is dead: the kernel never raises it). -/
theorem loop_tie (v : Var) (st : Strand) (bs : List Blk) (acc : List SI) :
    LoopRel st acc
      (Gen.VariantInterval_lift_over_chromosome_location_compound_interval_loop1 (vi v) (bs.map (fun b => si b st)) acc)
      (liftBlocks v st bs) := by
  induction bs generalizing acc with
  | nil =>
    simp only [List.map_nil, Gen.VariantInterval_lift_over_chromosome_location_compound_interval_loop1, liftBlocks, pure,
      Except.pure, LoopRel]
    exact ⟨[], by simp⟩
  | cons b bs ih =>
    simp only [List.map_cons, Gen.VariantInterval_lift_over_chromosome_location_compound_interval_loop1, liftBlocks]
    cases hk : liftK (vi v) (si b st) with
    | error e =>
      obtain ⟨hm, he⟩ := kernel_err v b st e hk
      have hk' : Gen.VariantInterval_lift_over_chromosome_location_single_interval (vi v) (si b st) = .error e := hk
      subst he
      rw [hk', hm]
      exact ⟨rfl, rfl⟩
    | ok o =>
      have hk' : Gen.VariantInterval_lift_over_chromosome_location_single_interval (vi v) (si b st) = .ok o := hk
      rw [hk']
      cases o with
      | none =>
        rw [kernel_ok_none v b st hk]
        have := ih acc
        cases hb : liftBlocks v st bs with
        | error c =>
          rw [hb] at this
          exact ⟨this.1, this.2⟩
        | ok ls =>
          rw [hb] at this
          obtain ⟨ts, h1, h2, h3⟩ := this
          exact ⟨ts, h1, h2, h3⟩
      | some t =>
        rw [kernel_ok_some v b st t hk]
        have ht := liftK_some (vi v) (si b st) t hk
        have := ih (acc ++ [t])
        cases hb : liftBlocks v st bs with
        | error c =>
          rw [hb] at this
          exact ⟨this.1, this.2⟩
        | ok ls =>
          rw [hb] at this
          obtain ⟨ts, h1, h2, h3⟩ := this
          refine ⟨t :: ts, by show _ = _; simp only []; rw [h1]; simp, by simp [h2], ?_⟩
          intro x hx
          rcases List.mem_cons.mp hx with rfl | hx
          · exact ⟨ht.1, ht.2.1, ht.2.2⟩
          · exact h3 x hx

/-- `from_single_intervals` accepts every list whose members carry one strand -/
theorem fromSingleIntervalsCheck_same (t : SI) (ts : List SI) (st : Strand) (h : ∀ x ∈ t :: ts, x.strand = st) :
    fromSingleIntervalsCheck (t :: ts) = .ok (t :: ts) := by
  unfold fromSingleIntervalsCheck
  have : ts.all (fun x => x.strand == t.strand) = true := by
    rw [List.all_eq_true]
    intro x hx
    have h1 := h x (List.mem_cons_of_mem _ hx)
    have h2 := h t (List.mem_cons_self)
    simp [h1, h2]
  simp only [this, if_true]

/-- **Whole-method tie.** For every variant and every block list on any strand, the method regenerated from the
    source answers what the model's `liftBlocks` + `assemble` answers: the same location (after the model's reading of
    the symbolic constructions) or the same exception class. -/
theorem lift_compound_tie (v : Var) (st : Strand) (bs : List Blk) :
    AgreeK finishLoc
      (Gen.VariantInterval_lift_over_chromosome_location_compound_interval (vi v) ⟨bs.map (fun b => si b st), st⟩)
      (liftBlocks v st bs >>= fun ls => assemble ls st) := by
  unfold Gen.VariantInterval_lift_over_chromosome_location_compound_interval
  have hl := loop_tie v st bs []
  simp only []
  cases hb : liftBlocks v st bs with
  | error c =>
    rw [hb] at hl
    obtain ⟨rfl, hg⟩ := hl
    rw [hg]
    exact ⟨.InvalidPosition, rfl, rfl⟩
  | ok ls =>
    rw [hb] at hl
    obtain ⟨ts, hg, h2, h3⟩ := hl
    rw [hg]
    simp only [List.nil_append]
    subst h2
    match ts, h3 with
    | [], _ => simp [AgreeK, finishLoc, assemble, pure, Except.pure, bind, Except.bind]
    | [t], h3 =>
      have := h3 t (List.mem_singleton.mpr rfl)
      simp [AgreeK, finishLoc, assemble, pure, Except.pure, listGetFirst, siLoc, siBlk, this.1, bind, Except.bind]
    | t :: u :: ts, h3 =>
      have hs : ∀ x ∈ t :: u :: ts, x.strand = st := fun x hx => (h3 x hx).1
      have hne : (t :: u :: ts) ≠ [] := by simp
      have hlen : ¬ (((t :: u :: ts).length : Nat) : Int) = 1 := by
        simp only [List.length_cons]; omega
      rw [if_pos hne, if_neg hlen, fromSingleIntervalsCheck_same t (u :: ts) st hs]
      have hneg : (t :: u :: ts).any (fun x => decide (x.start < 0)) = false := by
        rw [List.any_eq_false]
        intro x hx
        have := (h3 x hx).2.1
        simp only [decide_eq_true_eq]; omega
      simp only [AgreeK, finishLoc, hneg, Bool.false_eq_true, if_false, if_true, assemble, List.map_cons,
        (h3 t List.mem_cons_self).1, bind, Except.bind]

/-! ### non-vacuity: a deletion that removes the middle block of three, and one that leaves a single block -/

example : Gen.VariantInterval_lift_over_chromosome_location_compound_interval ⟨10, 20, 0⟩
      ⟨[⟨2, 6, .plus⟩, ⟨12, 18, .plus⟩, ⟨25, 30, .plus⟩], .plus⟩
    = .ok (.fromBlocks [⟨2, 6, .plus⟩, ⟨15, 20, .plus⟩] true) := by decide
example : Gen.VariantInterval_lift_over_chromosome_location_compound_interval ⟨10, 20, 0⟩
      ⟨[⟨12, 18, .plus⟩, ⟨25, 30, .plus⟩], .plus⟩ = .ok (.single ⟨15, 20, .plus⟩) := by decide
example : Gen.VariantInterval_lift_over_chromosome_location_compound_interval ⟨10, 20, 0⟩
      ⟨[⟨12, 18, .minus⟩, ⟨13, 14, .minus⟩], .minus⟩ = .ok .empty := by decide

end BioCantor.Props.C13Ties
