import BioCantor.Model.Aggregates
namespace BioCantor.Props.C20
theorem stub : True := trivial
end BioCantor.Props.C20
