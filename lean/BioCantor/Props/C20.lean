/-
  C20 — gene and collection aggregates are the stated functions of their children.

  Property theorems only (helper lemmas: Proofs/Agg*.lean).  `Model.Agg.*` mirrors gene/interval.py
  (`_find_primary_feature`), gene/gene.py, gene/feature.py and gene/collections.py; `Spec.Agg.ok*` are the
  reference predicates the spec driver evaluates on the real library's answers; `ansA` = the observable answer
  (`none` = raised).  Child lists are of ARBITRARY length, children have any number of blocks.

  `mkGene`, `mkFcoll`, `geneAccessors` are the code AS IT IS NOW (`currentRule = Rule.repaired`:
  `if primary_feature is not None:` since 91b82e4; `gene_type=None` no longer raises in the merged features since
  e559054).  The `…_before_repair` theorems pin the old behaviour as regression facts.
-/
import BioCantor.Proofs.AggMerged
set_option autoImplicit false   -- an unresolved name in a statement must be an error, never a bound variable
namespace BioCantor.Props.C20
open BioCantor BioCantor.Spec BioCantor.Spec.Agg BioCantor.Model.Agg BioCantor.Proofs BioCantor.Proofs.Agg

/-- T1 (the code as it is): `GeneInterval(transcripts)` for EVERY child list — refused when empty or when more
    than one child is flagged; otherwise span = (min start, max end), coding ⇔ some child is coding, the primary
    transcript is the flagged child, or else the lexicographic argmax of (CDS size, spliced length) with the
    EARLIEST index (stability of Python's sort), and `get_primary_cds` is that member's CDS. -/
theorem gene_spec (cs : List Child) : okGene cs (ansA (mkGene cs)) = true :=
  gene_ok cs

/-- T1b (the code as it is): the accessors — `get_primary_transcript`, `get_primary_feature`, `get_primary_cds`,
    `get_primary_transcript_sequence`, `get_primary_feature_sequence`, `get_primary_cds_sequence`,
    `get_primary_protein` — return the values of the primary member `p` (for arbitrary member methods `seq`,
    `cdsSeq`, `prot`), the protein being `None` for a non-coding member; an empty list or several flags are refused. -/
theorem primary_accessors_spec {α : Type} [DecidableEq α] (seq cdsSeq prot : Child → α) (cs : List Child) :
    (cs = [] ∨ multiFlag cs = true) ∧ ansA (geneAccessors seq cdsSeq prot cs) = none ∨
    ∃ p c a, geneAccessors seq cdsSeq prot cs = .ok a ∧ cs[p]? = some c ∧ okPrimary cs p = true ∧
      okAccessors seq cdsSeq prot c p a = true :=
  geneAccessors_ok seq cdsSeq prot cs

/-- F-C20b regression fact: before 91b82e4 (`if primary_feature:`) a flagged zero-length transcript followed by a
    second flagged transcript was accepted (the second became primary); the code as it is refuses it. -/
theorem f_c20b_before_repair :
    ansA (mkGeneWith Rule.asCoded
      [⟨.plus, true, (3, 3), [], none, []⟩, ⟨.plus, true, (0, 4), [], none, []⟩]) =
      some ⟨0, 4, false, 1, none⟩ ∧
    okGene [⟨.plus, true, (3, 3), [], none, []⟩, ⟨.plus, true, (0, 4), [], none, []⟩] (some ⟨0, 4, false, 1, none⟩) = false ∧
    ansA (mkGene [⟨.plus, true, (3, 3), [], none, []⟩, ⟨.plus, true, (0, 4), [], none, []⟩]) = none := by
  decide

/-- regression fact: away from flagged zero-length children the old test and the new one agree on every child list. -/
theorem flag_test_before_repair_agrees (cs : List Child) (h : ∀ c ∈ cs, c.primary = true → c.len ≠ 0) :
    mkGeneWith Rule.asCoded cs = mkGene cs ∧ mkFcollWith Rule.asCoded cs = mkFcoll cs :=
  ⟨gene_coded_eq cs h, fcoll_coded_eq cs h⟩

/-- T2 (the code as it is): `FeatureIntervalCollection(feature_intervals)` for every child list — span, primary
    feature (flag, else longest spliced length, else earliest), feature types = the union of the children's types. -/
theorem fcoll_spec (cs : List Child) : okFcoll cs (ansA (mkFcoll cs)) = true :=
  fcoll_ok cs

/-- T3: `get_merged_transcript` (children on ONE strand, each with ANY number of valid blocks; `ht` = whether
    gene_type is set — it no longer matters): a plus-strand feature
    whose blocks are valid and cover exactly the union of all children's blocks (every position, unbounded).
    The union step is `Model.unionWithSingle` (location_impl.py, shared with C02). -/
theorem merged_transcript_spec (ht : Bool) (cs : List Child) (st : Strand) (hne : cs ≠ [])
    (hst : ∀ c ∈ cs, c.strand = st) (hv : ∀ c ∈ cs, ∀ b ∈ c.blocks, b.1 ≤ b.2) :
    okMergedAll cs (ansA (mergedTranscript ht cs)) = true := by
  have hne' : (cs.flatMap fun c => singlesOf c.strand c.blocks) ≠ [] := by
    obtain ⟨c, rest, rfl⟩ := List.exists_cons_of_ne_nil hne
    simp only [List.flatMap_cons]
    intro h
    have := List.append_eq_nil_iff.mp h
    have hc : singlesOf c.strand c.blocks ≠ [] := by
      unfold singlesOf Child.blocks
      cases c.bs with
      | nil => simp
      | cons b bs => simp only [ne_eq, List.map_eq_nil_iff]; exact sortBlocks_ne_nil _ (List.cons_ne_nil _ _)
    exact hc this.1
  obtain ⟨out, ho, hone, hov, hoc⟩ := produceMerged_ok _ st hne'
    (by intro x hx
        simp only [List.mem_flatMap] at hx
        obtain ⟨c, hc, hx⟩ := hx
        rw [(singlesOf_mem hx).1]; exact hst c hc)
    (by intro x hx
        simp only [List.mem_flatMap] at hx
        obtain ⟨c, hc, hx⟩ := hx
        exact hv c hc _ (singlesOf_mem hx).2)
  unfold mergedTranscript okMergedAll okMergedBlocks
  rw [produceMerged_ht, ho]
  simp only [ansA_ok, beq_self_eq_true, Bool.true_and, hov, Bool.and_eq_true, Bool.not_eq_true', List.isEmpty_eq_false_iff]
  refine ⟨hone, sameCover_of_forall fun q => ?_⟩
  rw [hoc, List.map_flatMap]
  exact flatMap_cover _ _ cs q (fun c _ => singlesOf_cover c.strand c.blocks q)

/-- T3b: `FeatureIntervalCollection.get_merged_feature`, same statement. -/
theorem merged_feature_spec (cs : List Child) (st : Strand) (hne : cs ≠ [])
    (hst : ∀ c ∈ cs, c.strand = st) (hv : ∀ c ∈ cs, ∀ b ∈ c.blocks, b.1 ≤ b.2) :
    okMergedAll cs (ansA (mergedFeature cs)) = true :=
  merged_transcript_spec true cs st hne hst hv

/-- T3c: `get_merged_cds`: refused exactly when no transcript is coding, else the union of the CDS blocks. -/
theorem merged_cds_spec (ht : Bool) (cs : List Child) (st : Strand)
    (hst : ∀ c ∈ cs, c.strand = st) (hv : ∀ c ∈ cs, ∀ l, c.cds = some l → l ≠ [] ∧ ∀ b ∈ l, b.1 ≤ b.2) :
    okMergedCds cs (ansA (mergedCds ht cs)) = true := by
  unfold okMergedCds mergedCds
  by_cases hcod : cs.any Child.coding = true
  · have hne' : (cs.flatMap cdsSingles) ≠ [] := by
      obtain ⟨c, hc, hcc⟩ := List.any_eq_true.mp hcod
      intro h
      have hall := List.flatMap_eq_nil_iff.mp h c hc
      unfold Child.coding at hcc
      cases hl : c.cds with
      | none => rw [hl] at hcc; cases hcc
      | some l =>
        unfold cdsSingles at hall
        rw [hl] at hall
        simp only at hall
        have hl' := (hv c hc l hl).1
        unfold singlesOf at hall
        match l, hl' with
        | [b], _ => simp at hall
        | a :: b :: r, _ =>
          simp only [List.map_eq_nil_iff] at hall
          exact sortBlocks_ne_nil _ (List.cons_ne_nil _ _) hall
    obtain ⟨out, ho, hone, hov, hoc⟩ := produceMerged_ok _ st hne'
      (by intro x hx
          simp only [List.mem_flatMap] at hx
          obtain ⟨c, hc, hx⟩ := hx
          unfold cdsSingles at hx
          cases hl : c.cds with
          | none => rw [hl] at hx; cases hx
          | some l => rw [hl] at hx; rw [(singlesOf_mem hx).1]; exact hst c hc)
      (by intro x hx
          simp only [List.mem_flatMap] at hx
          obtain ⟨c, hc, hx⟩ := hx
          unfold cdsSingles at hx
          cases hl : c.cds with
          | none => rw [hl] at hx; cases hx
          | some l => rw [hl] at hx; exact (hv c hc l hl).2 _ (singlesOf_mem hx).2)
    have hie : (cs.flatMap cdsSingles).isEmpty = false := by
      simpa using hne'
    simp only [hcod, if_true, hie, Bool.false_eq_true, if_false, produceMerged_ht ht, ho, ansA_ok, okMergedBlocks, beq_self_eq_true,
      Bool.true_and, hov, Bool.and_eq_true, Bool.not_eq_true', List.isEmpty_eq_false_iff]
    refine ⟨hone, sameCover_of_forall fun q => ?_⟩
    rw [hoc, List.map_flatMap]
    unfold cdsBlocksOf
    apply flatMap_cover _ _ cs q
    intro c _
    unfold cdsSingles
    cases c.cds with
    | none => rfl
    | some l => exact singlesOf_cover c.strand l q
  · have hie : (cs.flatMap cdsSingles).isEmpty = true := by
      rw [List.isEmpty_iff, List.flatMap_eq_nil_iff]
      intro c hc
      have : c.coding = false := by
        cases h : c.coding
        · rfl
        · exact absurd (List.any_eq_true.mpr ⟨c, hc, h⟩) hcod
      unfold Child.coding at this
      unfold cdsSingles
      cases hl : c.cds with
      | none => rfl
      | some l => rw [hl] at this; cases this
    simp only [hcod, Bool.false_eq_true, if_false, hie, if_true]
    rfl

/-- F-C20a in general: whenever two children (with valid blocks) lie on different strands, `get_merged_transcript`
    / `get_merged_feature` raise (Location.union refuses) although the property asks for the union of the blocks. -/
theorem merged_mixed_strands_raise (ht : Bool) (cs : List Child) (hv : ∀ c ∈ cs, ∀ b ∈ c.blocks, b.1 ≤ b.2)
    (hmix : ∃ c ∈ cs, ∃ d ∈ cs, c.strand ≠ d.strand) :
    ansA (mergedTranscript ht cs) = none ∧ okMergedAll cs (ansA (mergedTranscript ht cs)) = false := by
  have h1 : ansA (mergedTranscript ht cs) = none := by
    unfold mergedTranscript
    apply produceMerged_mixed
    · intro x hx
      simp only [List.mem_flatMap] at hx
      obtain ⟨c, hc, hx⟩ := hx
      exact hv c hc _ (singlesOf_mem hx).2
    · obtain ⟨c, hc, d, hd, hne⟩ := hmix
      have hex : ∀ e ∈ cs, ∃ x ∈ (cs.flatMap fun c => singlesOf c.strand c.blocks), x.2 = e.strand := by
        intro e he
        refine ⟨(e.b0, e.strand) |> fun _ => ((singlesOf e.strand e.blocks).head (by
          unfold singlesOf Child.blocks
          cases e.bs with
          | nil => simp
          | cons b bs => simp only [ne_eq, List.map_eq_nil_iff]; exact sortBlocks_ne_nil _ (List.cons_ne_nil _ _))), ?_, ?_⟩
        · exact List.mem_flatMap.mpr ⟨e, he, List.head_mem _⟩
        · exact (singlesOf_mem (List.head_mem _)).1
      obtain ⟨x, hx, hxs⟩ := hex c hc
      obtain ⟨y, hy, hys⟩ := hex d hd
      exact ⟨x, hx, y, hy, by rw [hxs, hys]; exact hne⟩
  exact ⟨h1, by rw [h1]; rfl⟩

/-- T4: `AnnotationCollection(genes, feature_collections, start, end, parent)` — `len` counts genes and feature
    collections, `is_empty` ⇔ no member, iteration = the chain genes ++ feature_collections sorted by start with
    ties in chain order (stable); bounds = the explicit ones (both or neither; start ≤ end), else the location `pb`
    of the parent's chromosome ancestor when there is one, else (min start, max end) of the members, none for an
    empty collection without either. -/
theorem acoll_spec (pb : Option (Nat × Nat)) (genes fcs : List Member) (bnd : Option Nat × Option Nat)
    (hd : KeysDistinct (genes ++ fcs)) :
    okAcollP pb genes fcs bnd (ansA (mkAcollP pb genes fcs bnd)) = true :=
  acollP_ok pb genes fcs bnd hd

/-- T4b: the iteration order on its own: sorted by start, a permutation, members of equal start in input order. -/
theorem children_sorted_stable (ms : List Member) : isStableSortByStart ms (sortMembers ms) = true :=
  stable_sortMembers ms

/-- T4c (op `aciter`): `iter_children` / `children_guids` of a collection that also holds variant collections
    (`AnnotationCollection.children`: `sorted(chain(genes, feature_collections, variant_collections), key=start)`): the
    iteration is the stable sort by start of ALL members — none is dropped, also when there is no gene and no feature
    collection — and it lists exactly as many members as were handed in. -/
theorem all_member_kinds_iterated (genes fcs vcs : List Member) :
    isStableSortByStart (genes ++ fcs ++ vcs) (sortMembers (genes ++ fcs ++ vcs)) = true ∧
    (sortMembers (genes ++ fcs ++ vcs)).length = genes.length + fcs.length + vcs.length := by
  refine ⟨stable_sortMembers _, ?_⟩
  unfold sortMembers
  rw [List.length_mergeSort]
  simp only [List.length_append]

example : isStableSortByStart ([] ++ [] ++ [⟨false, 1000, 5, 6⟩, ⟨false, 1001, 0, 5⟩])
    [⟨false, 1001, 0, 5⟩, ⟨false, 1000, 5, 6⟩] = true := by decide

-- non-vacuity of the hypotheses
example : ∀ c ∈ ([⟨.minus, true, (0, 4), [(6, 6), (7, 9)], some [(1, 3)], []⟩, ⟨.minus, false, (3, 3), [], none, []⟩] : List Child),
    c.primary = true → c.len ≠ 0 := by decide
example : ∀ c ∈ ([⟨.minus, true, (0, 4), [(6, 6), (7, 9)], some [(1, 3)], []⟩, ⟨.minus, false, (3, 3), [], none, []⟩] : List Child),
    c.strand = .minus ∧ (∀ b ∈ c.blocks, b.1 ≤ b.2) ∧ ∀ l, c.cds = some l → l ≠ [] ∧ ∀ b ∈ l, b.1 ≤ b.2 := by decide
example : ∃ c ∈ ([⟨.plus, false, (1, 3), [], none, []⟩, ⟨.minus, false, (1, 4), [], none, []⟩] : List Child),
    ∃ d ∈ ([⟨.plus, false, (1, 3), [], none, []⟩, ⟨.minus, false, (1, 4), [], none, []⟩] : List Child), c.strand ≠ d.strand := by decide
example : KeysDistinct ([⟨true, 0, 5, 9⟩, ⟨true, 1, 0, 3⟩] ++ [⟨false, 0, 0, 9⟩]) := by
  unfold KeysDistinct; decide

end BioCantor.Props.C20
