/-
  C05 tie, part 3 — the READING-FRAME CLEANING LOOP of
  `CDSInterval._prepare_multi_exon_window_for_scan_codon_locations` (gene/cds.py) is REGENERATED from source on every
  run as `Gen.CDSInterval_clean_frames` (+ `_loop1`), together with the two iterators it consumes,
  `Gen.CDSInterval_exon_iter` = `_exon_iter(False)` and `Gen.CDSInterval_frame_iter` = `_frame_iter(False)`:
  `zip_longest` (NOT zip: `zipLongest` pads the shorter side with None) and its `if exon is None or frame is None:
  raise MismatchedFrameException` guard, the two `loc.parent_to_relative_pos` calls (the generated
  `CompoundInterval.parent_to_relative_pos`), `min/max … + 1`, the `next_frame != frame` resynchronisation with
  `rel_start += frame.value`, `shift = sum(…) % 3`, `cleaned_rel_ends[-1] = cleaned_rel_ends[-1] - shift`, the
  `rel_start >= rel_end: continue` skip, the two appends and `next_frame.shift(rel_end - rel_start)` (the generated
  `CDSFrame.shift`).  The kernel is CUT before `cleaned_blocks = [loc.relative_interval_to_parent_location(…) …]` and
  returns `(cleaned_rel_starts, cleaned_rel_ends)`; the statements after the cut are pinned as text (T4).

  View: `toCDSV c = ⟨toCI c.loc, c.frames⟩` — a parent-less chromosome-level CDS, `self.chromosome_location` as the
  `CI` view of C01Ties2 and `self.frames`; `self.strand` is `self.chromosome_location.strand` (the translator checks
  these readings against the classes on every run: `ci_view_guards`, `cdsv_view_guards`).
  `S rev` / `E rev` = the Python lists `cleaned_rel_starts` / `cleaned_rel_ends` of the model state's zipped,
  most-recent-first `cleanedRev`.  Only theorems and examples here; lemmas are in Proofs/LoopTiesClean.lean.
  Also regenerated and tied here (T5, T6): `CDSInterval._calculate_frame_offset`, the function both
  `_prepare_*_window_for_scan_codon_locations` call on the cleaned location (`Gen.CDSInterval_calculate_frame_offset`,
  cut before `fivep_distance_mod3 = len(fivep_loc) % 3`).

  FINDING (model vs source, order of two raises).  `Model.prepareMulti` tests `exonIter.length ≠ frameIter.length`
  BEFORE the loop; the source has no such test: `zip_longest` runs the loop body on the common prefix first and raises
  MismatchedFrameException only when the shorter iterator is exhausted.  So when the lengths differ AND an iteration
  of the common prefix raises (unstranded location: InvalidStrandException from `parent_to_relative_pos`; a 0-bp exon:
  InvalidPositionException), the source raises that class and the model MismatchedFrame.  Observed on the real
  library (frames shortened after construction — `__init__` rejects unequal lengths, so this needs a mutated
  `.frames`): `CDSInterval([0,7,12],[5,11,18],UNSTRANDED,[0,1,2])` with `.frames = [ZERO, ONE]` raises
  InvalidStrandException; `CDSInterval([0,7,12],[5,7,18],PLUS,[0,1,2])` with four frames raises
  InvalidPositionException.  T1 states what the source does for EVERY frame list; T2 (`…_partial`) is the tie to
  `Model.prepareMulti`'s own head on the domain where the order cannot be observed, which contains every CDS that
  `__init__` can build (equal lengths).
-/
import BioCantor.Proofs.LoopTiesClean
set_option autoImplicit false
namespace BioCantor.Props.C05Ties3
open BioCantor BioCantor.GenP BioCantor.Proofs BioCantor.Proofs.Ties BioCantor.Proofs.LoopTies
open BioCantor.Proofs.LoopTiesClean (S E stLists toCDSV prepareMultiHead)
open BioCantor.Model.LoopGlue (finishRel)

/-- T0: the generated iterators are the model's `exonIter` / `frameIter` (5'→3' exons, each carrying the location's
    strand; frames reversed on the minus strand) and cannot raise. -/
theorem iterators_tie (c : Model.CDS) :
    Gen.CDSInterval_exon_iter (toCDSV c) = .ok (c.exonIter.map (fun b => si b c.loc.strand))
      ∧ Gen.CDSInterval_frame_iter (toCDSV c) = .ok c.frameIter := by
  exact ⟨LoopTiesClean.exon_iter_eq c, LoopTiesClean.frame_iter_eq c⟩

/-- T1 (full, every frame list): on a multi-block CDS whose location the CompoundInterval constructor accepts
    (`_scan_codon_locations` dispatches here exactly when `num_blocks > 1`; a SingleInterval-shaped CDS never reaches
    this function), the generated kernel returns the lists of the model state that `Model.cleanExons` reaches from
    `CleanSt.init` on the zipped iterators, raises the class the model loop raises (InvalidStrand, InvalidPosition)
    when an iteration of the common prefix raises, and MismatchedFrameException when the loop over the common prefix
    succeeds but the two iterators differ in length.  In particular the IndexError of `cleaned_rel_ends[-1]` on an
    empty list is unreachable.  (The hypothesis `_hmulti` records the dispatch; the proof does not need it.) -/
theorem clean_frames_tie (c : Model.CDS) (hl : WF (.compound c.loc)) (_hmulti : 1 < c.numBlocks) :
    Agree id (Gen.CDSInterval_clean_frames (toCDSV c))
      (do let st ← Model.cleanExons c.loc Model.CleanSt.init (c.exonIter.zip c.frameIter)
          if c.exonIter.length ≠ c.frameIter.length then throw Err.MismatchedFrame
          pure (S st.cleanedRev, E st.cleanedRev)) := by
  rw [← LoopTiesClean.finishM_eq_do]
  exact LoopTiesClean.clean_frames_tie c hl.2.1

/-- T2 (partial: the tie to the head of `Model.prepareMulti` as written, length test first).
    FULL STATEMENT (false, see FINDING above): for every WF multi-block `c`,
      `Agree id (Gen.CDSInterval_clean_frames (toCDSV c)) (Except.map stLists (prepareMultiHead c))`.
    Proved on the domain `hdom`: the frame list is as long as the exon list (every CDS `__init__` builds), or the
    model loop over the common prefix does not raise.  Outside it the generated code (= the source) raises the loop's
    class and the model MismatchedFrame. -/
theorem clean_frames_prepareMulti_partial (c : Model.CDS) (hl : WF (.compound c.loc)) (_hmulti : 1 < c.numBlocks)
    (hdom : c.frames.length = c.loc.blocks.length
      ∨ ∃ st, Model.cleanExons c.loc Model.CleanSt.init (c.exonIter.zip c.frameIter) = .ok st) :
    Agree id (Gen.CDSInterval_clean_frames (toCDSV c)) (Except.map stLists (prepareMultiHead c)) := by
  exact LoopTiesClean.clean_frames_head c hl.2.1 hdom

/-- T3: `prepareMultiHead` IS the head of `Model.prepareMulti` (the function the C05 theorems are about): the rest of
    `prepareMulti` is the model of the statements after the cut. -/
theorem prepareMulti_reads_head (c : Model.CDS) (win : Option Blk) :
    Model.prepareMulti c win
      = (do let st ← prepareMultiHead c
            let cleaned ← Model.cleanedLocation c.loc st
            let relativeCleaned ← match Model.windowTruthy win with
              | some w => Model.intersectWindow cleaned w
              | none => pure (Location.compound cleaned)
            let offset ← Model.calculateFrameOffset c (.compound cleaned) relativeCleaned
            pure (relativeCleaned, offset)) := by
  exact LoopTiesClean.prepareMulti_head c win

set_option maxRecDepth 100000 in
/-- T4: the statements after the cut, which the translator does not compile, read exactly as `Model.cleanedLocation`,
    `intersectWindow`, `calculateFrameOffset` mirror them (pinned as text; `chars! "…"` is the `List Char` literal of the
    string, expanded at elaboration time: a change of the tail breaks this theorem). -/
theorem clean_frames_tail_pinned :
    Gen.CDSInterval_clean_frames_tail
      = [chars! "cleaned_blocks = [loc.relative_interval_to_parent_location(cleaned_rel_starts[i], cleaned_rel_ends[i], Strand.PLUS) for i in range(len(cleaned_rel_starts)) if cleaned_rel_ends[i] != cleaned_rel_starts[i]]",
         chars! "cleaned_location = CompoundInterval.from_single_intervals(cleaned_blocks)",
         chars! "if relative_window:\n    relative_cleaned_location = cleaned_location.intersection(relative_window)\nelse:\n    relative_cleaned_location = cleaned_location",
         chars! "if chunk_relative_coordinates and self.is_chunk_relative:\n    chunk_relative_cleaned_location = self.liftover_location_to_seq_chunk_parent(relative_cleaned_location, self.chunk_relative_location.parent)\n    loc_on_chrom = chunk_relative_cleaned_location.lift_over_to_first_ancestor_of_type(SequenceType.CHROMOSOME)\n    offset = self._calculate_frame_offset(cleaned_location, loc_on_chrom)\n    return (chunk_relative_cleaned_location, offset)\nelse:\n    offset = self._calculate_frame_offset(cleaned_location, relative_cleaned_location)\n    return (relative_cleaned_location, offset)"] := by
  decide

/-! ### The hypotheses are satisfiable; sanity facts on concrete CDSs.  Every right-hand side was ALSO obtained from
    the real library (`PYTHONPATH=/verif:/repo /venv/bin/python`, a `sys.settrace` hook reading the locals
    `cleaned_rel_starts` / `cleaned_rel_ends` of `_prepare_multi_exon_window_for_scan_codon_locations(None, False)` at
    its last line, resp. the exception class it raised):  exons 0-5, 7-11, 12-18. -/

def mk (bs : List Blk) (st : Strand) (fs : List CDSFrame) : Model.CDS :=
  { loc := ⟨bs, st⟩, start := 0, «end» := 0, frames := fs, seq := none }

def exBlocks : List Blk := [(0, 5), (7, 11), (12, 18)]
/-- plus strand, consistent frames -/
def exInFrame : Model.CDS := mk exBlocks .plus [.ZERO, .ONE, .TWO]
/-- plus strand, FRAMESHIFT at the second and third exon (frames 0, 1, 0): trailing partial codons are trimmed -/
def exShift : Model.CDS := mk exBlocks .plus [.ZERO, .ONE, .ZERO]
/-- minus strand, consistent frames (stored 5'→3' on plus: 1, 0, 0) -/
def exMinus : Model.CDS := mk exBlocks .minus [.ONE, .ZERO, .ZERO]
/-- minus strand with frameshifts -/
def exMinusShift : Model.CDS := mk exBlocks .minus [.TWO, .TWO, .ONE]
/-- one frame fewer / one frame more than exons (reachable only by assigning `.frames` after construction) -/
def exShort : Model.CDS := mk exBlocks .plus [.ZERO, .ONE]
def exLong : Model.CDS := mk exBlocks .plus [.ZERO, .ONE, .TWO, .ZERO]
/-- outside the domain of T2: unstranded + mismatched, 0-bp exon + mismatched -/
def exUnstrShort : Model.CDS := mk exBlocks .unstranded [.ZERO, .ONE]
def exEmptyLong : Model.CDS := mk [(0, 5), (7, 7), (12, 18)] .plus [.ZERO, .ONE, .TWO, .ZERO]
/-- a frame `NONE` (value -1) moves `rel_start` back by one -/
def exNone : Model.CDS := mk exBlocks .plus [.ZERO, .NONE, .ZERO]

example : WF (.compound exShift.loc) ∧ 1 < exShift.numBlocks ∧ exShift.frames.length = exShift.loc.blocks.length := by
  decide
example : WF (.compound exMinus.loc) ∧ 1 < exMinus.numBlocks ∧ exMinus.frames.length = exMinus.loc.blocks.length := by
  decide
example : WF (.compound exShort.loc) ∧ 1 < exShort.numBlocks := by decide
-- second disjunct of `hdom`: lengths differ but the prefix loop succeeds
example : exShort.frames.length ≠ exShort.loc.blocks.length
    ∧ ∃ st, Model.cleanExons exShort.loc Model.CleanSt.init (exShort.exonIter.zip exShort.frameIter) = .ok st := by
  refine ⟨by decide, ⟨⟨.ZERO, [(6, 9), (0, 3)]⟩, by decide⟩⟩

example : Gen.CDSInterval_clean_frames (toCDSV exInFrame) = .ok ([0, 6, 11], [3, 9, 15]) := by decide
example : Gen.CDSInterval_clean_frames (toCDSV exShift) = .ok ([0, 6, 9], [3, 9, 15]) := by decide
example : Gen.CDSInterval_clean_frames (toCDSV exMinus) = .ok ([0, 6, 10], [6, 10, 15]) := by decide
example : Gen.CDSInterval_clean_frames (toCDSV exMinusShift) = .ok ([1, 6, 12], [6, 10, 15]) := by decide
example : Gen.CDSInterval_clean_frames (toCDSV exShort) = .error .MismatchedFrameException := by decide
example : Gen.CDSInterval_clean_frames (toCDSV exLong) = .error .MismatchedFrameException := by decide
example : Gen.CDSInterval_clean_frames (toCDSV exNone) = .ok ([0, 4, 9], [3, 7, 15]) := by decide
-- the two inputs of the FINDING: the source (and the generated kernel) raise the loop's class …
example : Gen.CDSInterval_clean_frames (toCDSV exUnstrShort) = .error .InvalidStrandException := by decide
example : Gen.CDSInterval_clean_frames (toCDSV exEmptyLong) = .error .InvalidPositionException := by decide
-- … while the model's head answers MismatchedFrame
example : prepareMultiHead exUnstrShort = .error .MismatchedFrame
    ∧ prepareMultiHead exEmptyLong = .error .MismatchedFrame := by decide
-- the iterators on the minus strand
example : Gen.CDSInterval_exon_iter (toCDSV exMinus) = .ok [⟨12, 18, .minus⟩, ⟨7, 11, .minus⟩, ⟨0, 5, .minus⟩]
    ∧ Gen.CDSInterval_frame_iter (toCDSV exMinus) = .ok [.ZERO, .ZERO, .ONE] := by decide

/-! ### `_calculate_frame_offset` (regenerated as `Gen.CDSInterval_calculate_frame_offset`) -/

/-- T5: `CDSInterval._calculate_frame_offset(cleaned_location, loc_on_chrom)` — the strand dispatch on
    `self.strand`, `cleaned_location.parent_to_relative_pos(loc_on_chrom.start)` resp. `(loc_on_chrom.end - 1)` and
    `cleaned_location.relative_interval_to_parent_location(0, …, Strand.PLUS)` (both the generated CompoundInterval
    kernels) — generated up to `fivep_loc`, continued by the model's own tail `finishOffset` (`finishRel`, then
    `len(fivep_loc) % 3`, `CDSPhase(…)`, `.to_frame().value` through the generated `CDSPhase.to_frame`), IS
    `Model.calculateFrameOffset`; when the generated kernel raises, the model raises the corresponding class.
    `cleaned_location` is a CompoundInterval the constructor accepts (both callers pass one); `loc_on_chrom` is any
    location, read only through `.start` / `.end` (the SI view `⟨s, e, _⟩` of the model's `locStart` / `locEnd`). -/
theorem calculate_frame_offset_tie (c : Model.CDS) (cl : Loc) (hcl : WF (.compound cl)) (loc : Location)
    (s e : Nat) (st : Strand) (hs : Model.locStart loc = .ok s) (he : Model.locEnd loc = .ok e) :
    AgreeK (LoopTiesClean.finishOffset cl.strand)
      (Gen.CDSInterval_calculate_frame_offset (toCDSV c) (toCI cl) ⟨s, e, st⟩)
      (Model.calculateFrameOffset c (.compound cl) loc) := by
  exact LoopTiesClean.frame_offset_tie c cl hcl.2.1 loc s e st hs he

/-- T6: the statements of `_calculate_frame_offset` after the cut read as `finishOffset` mirrors them (pinned as text). -/
theorem calculate_frame_offset_tail_pinned :
    Gen.CDSInterval_calculate_frame_offset_tail
      = [chars! "fivep_distance_mod3 = len(fivep_loc) % 3",
         chars! "phase = CDSPhase(fivep_distance_mod3)",
         chars! "offset = phase.to_frame().value",
         chars! "return offset"] := by
  decide

/-  real library, cds = CDSInterval([0,7,12],[5,11,18],strand,…), cl = CompoundInterval([0,7,12],[5,11,18],strand):
    cds._calculate_frame_offset(cl, SingleInterval(9,18,+)) = 2 with fivep_loc = <0-5:+, 7-9:+>;
    (…, SingleInterval(0,18,+)) = 0 with fivep_loc = <0-0:+>; (…, SingleInterval(5,18,+)) raises
    InvalidPositionException (5 is in the intron); minus strand: (…, SingleInterval(0,10,-)) = 2 with
    fivep_loc = <10-11:-, 12-18:->; (…, SingleInterval(0,16,-)) = 1 with fivep_loc = <16-18:-> -/
example : WF (.compound exShift.loc) ∧ Model.locStart (.single (9, 18) .plus) = .ok 9
    ∧ Model.locEnd (.single (9, 18) .plus) = .ok 18 := by decide
example : Gen.CDSInterval_calculate_frame_offset (toCDSV exShift) (toCI exShift.loc) ⟨9, 18, .plus⟩
    = .ok (.blocks [⟨0, 5, .plus⟩, ⟨7, 9, .plus⟩] .plus) := by decide
example : Gen.CDSInterval_calculate_frame_offset (toCDSV exShift) (toCI exShift.loc) ⟨0, 18, .plus⟩
    = .ok (.single ⟨0, 0, .plus⟩) := by decide
example : Gen.CDSInterval_calculate_frame_offset (toCDSV exShift) (toCI exShift.loc) ⟨5, 18, .plus⟩
    = .error .InvalidPositionException := by decide
example : Gen.CDSInterval_calculate_frame_offset (toCDSV exMinus) (toCI exMinus.loc) ⟨0, 10, .minus⟩
    = .ok (.blocks [⟨12, 18, .minus⟩, ⟨10, 11, .minus⟩] .minus) := by decide
example : Gen.CDSInterval_calculate_frame_offset (toCDSV exMinus) (toCI exMinus.loc) ⟨0, 16, .minus⟩
    = .ok (.blocks [⟨16, 18, .minus⟩] .minus) := by decide

end BioCantor.Props.C05Ties3
