/-
  C06 — Genome, transcript and CDS coordinate systems of a transcript commute.

  Property theorems only (helper lemmas live in BioCantor/Proofs/Tx*.lean).

  `t : Model.Transcript` is what `TranscriptInterval.__init__` keeps: the exon location `E = t.exons`
  (`chromosome_location`, always a CompoundInterval), the optional CDS location `D = t.cds`, and the
  length of the chromosome it sits on.  `WFT t` = what the modelled constructor establishes
  (`constructor_establishes_wf`): both block lists as `CompoundInterval.__init__` leaves them, same strand.
  `specOf t` is the same data seen by `Spec/Transcript.lean`, whose predicates speak only about
  `Spec.bases`.  `ans` turns a result into the observable answer (`some v` / `none` = raised).

  Hypotheses used below, and only where needed:
    `t.exons.NonOverlap`     the exons do not overlap each other (0-bp gaps, zero-length exons allowed)
    `Coding t d`             `t.cds = some d`, directional strand, `NonOverlap E`, and `Sub D E`:
                             `bases D = (bases E)[k : k + len D]`, `D` non-empty  (`Spec.isSub`)
-/
import BioCantor.Proofs.TxMain
import BioCantor.Proofs.TxInterval
import BioCantor.Proofs.TxIntrons
import BioCantor.Proofs.TxChunkUtr
set_option autoImplicit false   -- an unresolved name in a statement must be an error, never a bound variable
namespace BioCantor.Props.C06
open BioCantor BioCantor.Spec BioCantor.Model BioCantor.Model.Transcript BioCantor.Proofs

/-! ### the constructor -/

/-- Every transcript the modelled constructor returns is well formed, on the requested strand. -/
theorem constructor_establishes_wf (exons : List Blk) (st : Strand) (cds : Option (List Blk)) (plen : Option Nat)
    (t : Transcript) (h : mkTranscript exons st cds plen = .ok t) : WFT t ∧ t.exons.strand = st :=
  mkTranscript_wf exons st cds plen t h

/-- The reading frames handed to the constructor (`cds_frames`, one per CDS block: any of 0/1/2, consistent or
    frameshifted, 5'-partial or not) do not influence the transcript the coordinate API works on: whenever the
    constructor accepts two frame vectors it returns the same `Transcript`, hence the same answer to every
    conversion — in particular the amino-acid index is CDS position / 3 (`amino_acid_index_spec`) whatever the
    frames are. -/
theorem frames_do_not_enter_coordinates (exons : List Blk) (st : Strand) (cds : Option (List Blk))
    (fs fs' : List CDSFrame) (plen : Option Nat) (t t' : Transcript)
    (h : mkTranscriptF exons st cds fs plen = .ok t) (h' : mkTranscriptF exons st cds fs' plen = .ok t') :
    t = t' ∧ mkTranscript exons st cds plen = .ok t ∧
      ∀ p, t.sequencePosToAminoAcid p = t'.sequencePosToAminoAcid p ∧ t.sequencePosToCds p = t'.sequencePosToCds p := by
  have e1 : mkTranscript exons st cds plen = .ok t := by
    unfold mkTranscriptF at h
    cases cds with
    | none => exact h
    | some cb => simp only at h; split at h; · cases h
                 · exact h
  have e2 : mkTranscript exons st cds plen = .ok t' := by
    unfold mkTranscriptF at h'
    cases cds with
    | none => exact h'
    | some cb => simp only at h'; split at h'; · cases h'
                 · exact h'
  rw [e1] at e2
  have := Except.ok.inj e2
  subst this
  exact ⟨rfl, e1, fun _ => ⟨rfl, rfl⟩⟩

/-- the same for a transcript built on a chunk -/
theorem frames_do_not_enter_chunk_coordinates (exons : List Blk) (st : Strand) (cds : Option (List Blk))
    (fs fs' : List CDSFrame) (w : Blk) (wst : Strand) (c c' : ChunkTranscript)
    (h : mkChunkTranscriptF exons st cds fs w wst = .ok c) (h' : mkChunkTranscriptF exons st cds fs' w wst = .ok c') :
    c = c' ∧ mkChunkTranscript exons st cds w wst = .ok c := by
  have e1 : mkChunkTranscript exons st cds w wst = .ok c := by
    unfold mkChunkTranscriptF at h
    cases cds with
    | none => exact h
    | some cb => simp only at h; split at h; · cases h
                 · exact h
  have e2 : mkChunkTranscript exons st cds w wst = .ok c' := by
    unfold mkChunkTranscriptF at h'
    cases cds with
    | none => exact h'
    | some cb => simp only at h'; split at h'; · cases h'
                 · exact h'
  rw [e1] at e2
  exact ⟨Except.ok.inj e2, e1⟩

/-! ### position conversions: each method is the lookup the spec prescribes
    (index in / element of `bases E`, `bases D`); everything outside the source system is refused -/

/-- chromosome → transcript = index of `p` in `bases E`; positions not on an exon are refused. -/
theorem chrom_to_transcript_spec (t : Transcript) (h : WFT t) (p : Int) :
    okC2T (specOf t) p (ans (t.sequencePosToTranscript p)) = true := by
  unfold okC2T; rw [ans_c2t t h]; simp

/-- transcript → chromosome = `(bases E)[r]`; `r < 0` and `r ≥ len` are refused. -/
theorem transcript_to_chrom_spec (t : Transcript) (r : Int) :
    okT2C (specOf t) r (ans (t.transcriptPosToSequence r)) = true := by
  unfold okT2C; rw [ans_t2c t]; simp

/-- chromosome → CDS = index of `p` in `bases D`; non-coding positions / non-coding transcripts refused. -/
theorem chrom_to_cds_spec (t : Transcript) (h : WFT t) (p : Int) :
    okC2D (specOf t) p (ans (t.sequencePosToCds p)) = true := by
  unfold okC2D; rw [ans_c2d t h]; simp

/-- CDS → chromosome = `(bases D)[c]`. -/
theorem cds_to_chrom_spec (t : Transcript) (c : Int) :
    okD2C (specOf t) c (ans (t.cdsPosToSequence c)) = true := by
  unfold okD2C; rw [ans_d2c t]; simp

/-- CDS → transcript = transcript index of the `c`-th CDS base. -/
theorem cds_to_transcript_spec (t : Transcript) (h : WFT t) (c : Int) :
    okD2T (specOf t) c (ans (t.cdsPosToTranscript c)) = true := by
  unfold okD2T; rw [ans_d2t t h]; simp

/-- transcript → CDS = CDS index of the `r`-th transcript base (refused in the UTRs). -/
theorem transcript_to_cds_spec (t : Transcript) (h : WFT t) (r : Int) :
    okT2D (specOf t) r (ans (t.transcriptPosToCds r)) = true := by
  unfold okT2D; rw [ans_t2d t h]; simp

/-- amino-acid index = CDS position divided by three. -/
theorem amino_acid_index_spec (t : Transcript) (h : WFT t) (p : Int) :
    okAA (specOf t) p (ans (t.sequencePosToAminoAcid p)) = true := by
  unfold okAA; rw [ans_aa t h]; simp

/-- …stated directly on the two calls: the amino-acid index is the CDS position `/ 3`. -/
theorem amino_acid_is_cds_pos_div_3 (t : Transcript) (p c : Int) (h : t.sequencePosToCds p = .ok c) :
    t.sequencePosToAminoAcid p = .ok (c / 3) := by
  unfold sequencePosToAminoAcid; rw [h]; rfl

/-! ### paths agree -/

/-- chromosome→CDS equals chromosome→transcript→CDS at EVERY position (same value, or both refused). -/
theorem chrom_to_cds_via_transcript (t : Transcript) (h : WFT t) (d : Loc) (hc : Coding t d) (p : Int) :
    ans (t.sequencePosToCds p) = ans (t.sequencePosToTranscript p >>= t.transcriptPosToCds) :=
  path_model t h d hc p

/-- the same clause in the form the harness evaluates on the real library's composed calls -/
theorem chrom_to_cds_via_transcript_checked (t : Transcript) (h : WFT t) (d : Loc) (hc : Coding t d) (p : Int) :
    okPath (expC2D (specOf t) p) (ans (t.sequencePosToTranscript p >>= t.transcriptPosToCds)) = true := by
  unfold okPath; rw [← path_model t h d hc p, ans_c2d t h]; simp

/-! ### each conversion is inverted by its counterpart -/

/-- transcript→chromosome inverts chromosome→transcript (all layouts). -/
theorem transcript_to_chrom_inverts (t : Transcript) (h : WFT t) (p r : Int)
    (hp : t.sequencePosToTranscript p = .ok r) : t.transcriptPosToSequence r = .ok p :=
  t2c_of_c2t t h p r hp

/-- chromosome→transcript inverts transcript→chromosome (needs `NonOverlap E`: otherwise a position
    occurs twice in the transcript and no inverse exists). -/
theorem chrom_to_transcript_inverts (t : Transcript) (h : WFT t) (hno : t.exons.NonOverlap) (r p : Int)
    (hr : t.transcriptPosToSequence r = .ok p) : t.sequencePosToTranscript p = .ok r :=
  c2t_of_t2c t h hno r p hr

/-- CDS→chromosome inverts chromosome→CDS. -/
theorem cds_to_chrom_inverts (t : Transcript) (h : WFT t) (p c : Int)
    (hp : t.sequencePosToCds p = .ok c) : t.cdsPosToSequence c = .ok p :=
  d2c_of_c2d t h p c hp

/-- chromosome→CDS inverts CDS→chromosome. -/
theorem chrom_to_cds_inverts (t : Transcript) (h : WFT t) (d : Loc) (hc : Coding t d) (c p : Int)
    (hq : t.cdsPosToSequence c = .ok p) : t.sequencePosToCds p = .ok c :=
  c2d_of_d2c t h d hc c p hq

/-- transcript→CDS inverts CDS→transcript. -/
theorem transcript_to_cds_inverts (t : Transcript) (h : WFT t) (d : Loc) (hc : Coding t d) (c r : Int)
    (hq : t.cdsPosToTranscript c = .ok r) : t.transcriptPosToCds r = .ok c :=
  t2d_of_d2t t h d hc c r hq

/-- CDS→transcript inverts transcript→CDS. -/
theorem cds_to_transcript_inverts (t : Transcript) (h : WFT t) (hno : t.exons.NonOverlap) (r c : Int)
    (hq : t.transcriptPosToCds r = .ok c) : t.cdsPosToTranscript c = .ok r :=
  d2t_of_t2d t h hno r c hq

/-! ### round trips, in the form the harness evaluates them (identity inside the source system,
    refusal outside — this is also the "positions outside the source system are rejected" clause) -/

theorem roundtrip_transcript (t : Transcript) (h : WFT t) (hd : t.exons.strand ≠ .unstranded)
    (hno : t.exons.NonOverlap) (r : Int) :
    okRoundTrip (inTx (specOf t) r) r (ans (t.transcriptPosToSequence r >>= t.sequencePosToTranscript)) = true :=
  rt_t_model t h hd hno r

theorem roundtrip_chrom (t : Transcript) (h : WFT t) (hd : t.exons.strand ≠ .unstranded) (p : Int) :
    okRoundTrip (inExons (specOf t) p) p (ans (t.sequencePosToTranscript p >>= t.transcriptPosToSequence)) = true :=
  rt_c_model t h hd p

theorem roundtrip_cds_via_transcript (t : Transcript) (h : WFT t) (d : Loc) (hc : Coding t d) (c : Int) :
    okRoundTrip (inCds (specOf t) c) c (ans (t.cdsPosToTranscript c >>= t.transcriptPosToCds)) = true :=
  rt_d_model t h d hc c

theorem roundtrip_cds_via_chrom (t : Transcript) (h : WFT t) (d : Loc) (hc : Coding t d) (c : Int) :
    okRoundTrip (inCds (specOf t) c) c (ans (t.cdsPosToSequence c >>= t.sequencePosToCds)) = true :=
  rt_dc_model t h d hc c

theorem roundtrip_transcript_via_cds (t : Transcript) (h : WFT t) (d : Loc) (hc : Coding t d) (r : Int) :
    okRoundTrip (match expT2C (specOf t) r with | some p => inCdsChrom (specOf t) p | none => false) r
      (ans (t.transcriptPosToCds r >>= t.cdsPosToTranscript)) = true :=
  rt_td_model t h d hc r

/-! ### UTR / CDS / UTR -/

/-- `get_5p_interval`: the transcript bases before the CDS, in order; a location without bases (never an
    error) when there are none; refused on a non-coding transcript. -/
theorem utr5_spec (t : Transcript) (h : WFT t) : okUtr5 (specOf t) (ans t.get5pInterval) = true :=
  utr5_ok t h

/-- `get_3p_interval`: the transcript bases after the CDS. -/
theorem utr3_spec (t : Transcript) (h : WFT t) : okUtr3 (specOf t) (ans t.get3pInterval) = true :=
  utr3_ok t h

/-- 5' UTR, CDS and 3' UTR are both returned, are disjoint, come in that order along the transcript
    and together are exactly the exons: their base lists concatenate to `bases E`, which has no repeats. -/
theorem utr_cds_utr_tile_the_transcript (t : Transcript) (h : WFT t) (d : Loc) (hc : Coding t d) :
    ∃ u5 u3, t.get5pInterval = .ok u5 ∧ t.get3pInterval = .ok u3 ∧
      locationBases u5 ++ bases d ++ locationBases u3 = bases t.exons ∧
      (locationBases u5 ++ bases d ++ locationBases u3).Nodup :=
  utrs_tile_model t h d hc

/-- the 5' UTR has no base exactly when the CDS starts on the first transcript base -/
theorem utr5_empty_iff_cds_at_5p_end (t : Transcript) (h : WFT t) (d : Loc) (hc : Coding t d) (u5 : Location)
    (h5 : t.get5pInterval = .ok u5) :
    locationBases u5 = [] ↔ t.cdsPosToTranscript 0 = .ok 0 :=
  utr5_empty_iff t h d hc u5 h5

/-- the 3' UTR has no base exactly when the CDS ends on the last transcript base -/
theorem utr3_empty_iff_cds_at_3p_end (t : Transcript) (h : WFT t) (d : Loc) (hc : Coding t d) (u3 : Location)
    (h3 : t.get3pInterval = .ok u3) :
    locationBases u3 = [] ↔ t.cdsPosToTranscript ((d.len : Int) - 1) = .ok ((t.exons.len : Int) - 1) :=
  utr3_empty_iff t h d hc u3 h3

/-! ### span and introns -/

/-- `chromosome_span` = [smallest exon start, largest exon end) on the transcript's strand. -/
theorem span_spec (t : Transcript) (h : WFT t) : okSpan (specOf t) (ans t.chromosomeSpan) = true :=
  span_ok t h

/-- introns = span − exons as position sets; the empty location when there is none.
    FULL statement (no `hne`): `∀ t, WFT t → okIntrons (specOf t) (ans t.chromosomeGapsLocation) = true`.
    It is FALSE for the code as it is (finding F-C06a): a zero-length first or last exon stretches
    `chromosome_span` but `gap_list` drops empty blocks before pairing neighbours, so the stretch between
    that exon and its neighbour is part of the span, covered by no exon, and not reported as intron
    (exons `[0,0) [3,5)`: span `[0,5)`, introns = none).  Proved here on the complement: no exon is empty. -/
theorem introns_spec_partial (t : Transcript) (h : WFT t) (hne : noEmptyBlock t.exons.blocks = true) :
    okIntrons (specOf t) (ans t.chromosomeGapsLocation) = true :=
  introns_ok t h hne

/-- F-C06a witness: for exons `[0,0) [3,5)` (accepted by the constructor) the modelled current code answers
    "no introns" although positions 0, 1, 2 lie in the span `[0,5)` and on no exon. -/
theorem introns_zero_length_terminal_exon_deviates :
    WFT ⟨⟨[(0, 0), (3, 5)], .plus⟩, none, none⟩ ∧
    okIntrons (specOf ⟨⟨[(0, 0), (3, 5)], .plus⟩, none, none⟩)
      (ans (Transcript.chromosomeGapsLocation ⟨⟨[(0, 0), (3, 5)], .plus⟩, none, none⟩)) = false := by
  refine ⟨⟨by decide, by simp⟩, ?_⟩
  unfold Transcript.chromosomeGapsLocation
  rw [gaps_zero_length_first_exon]; decide

/-! ### interval conversions -/

/-- transcript interval → chromosome: the bases `(bases E)[rs:re]`, composed strand (C01 interval clause on `E`). -/
theorem transcript_interval_to_chrom_spec (t : Transcript) (h : WFT t) (rs re : Int) (rst : Strand) :
    okTI2C (specOf t) rs re rst (ans (t.transcriptIntervalToSequence rs re rst)) = true :=
  ti2c_ok t h rs re rst

/-- CDS interval → chromosome. -/
theorem cds_interval_to_chrom_spec (t : Transcript) (h : WFT t) (rs re : Int) (rst : Strand) :
    okDI2C (specOf t) rs re rst (ans (t.cdsIntervalToSequence rs re rst)) = true :=
  di2c_ok t h rs re rst

/-- chromosome interval → transcript: exactly the transcript indices of the exonic positions of the
    interval; refused when it shares no position with the exons or is not an interval of the chromosome. -/
theorem chrom_interval_to_transcript_spec (t : Transcript) (h : WFT t) (s e : Int) (st : Strand) :
    okCI2T (specOf t) s e st (ans (t.sequenceIntervalToTranscript s e st)) = true :=
  ci2t_ok t h s e st

/-- chromosome interval → CDS. -/
theorem chrom_interval_to_cds_spec (t : Transcript) (h : WFT t) (s e : Int) (st : Strand) :
    okCI2D (specOf t) s e st (ans (t.sequenceIntervalToCds s e st)) = true :=
  ci2d_ok t h s e st

/-- introns ∪ exons = span, position by position, and no position is both (same hypotheses as
    `introns_spec_partial`; directional strand, non-overlapping exons). -/
theorem introns_and_exons_partition_the_span (t : Transcript) (h : WFT t)
    (hne : noEmptyBlock t.exons.blocks = true) (hsc : txScope (specOf t) = true) :
    ∃ g, t.chromosomeGapsLocation = .ok g ∧
      (∀ p, (p ∈ locationBases g ∨ covers t.exons p = true) ↔
        (minStart t.exons.blocks ≤ p ∧ p < maxEndS t.exons.blocks)) ∧
      (∀ p, ¬ (p ∈ locationBases g ∧ covers t.exons p = true)) :=
  introns_exons_partition t h hne hsc

/-! ## transcripts built on a sequence chunk

  `c : Model.ChunkTranscript` = the same constructor arguments with a chunk parent (`seq_chunk_to_parent`):
  `c.base` are the chromosome-level members, `c.location` / `c.cdsLocation` the two `_location`s, `(c.w, c.wst)`
  the chunk window.  `WFC c` = what the modelled constructor establishes (`chunk_constructor_establishes_wf`). -/

/-- The constructor on a chunk: well-formed, and its chromosome-level members are exactly what the constructor
    builds without a chunk. -/
theorem chunk_constructor_establishes_wf (exons : List Blk) (st : Strand) (cds : Option (List Blk)) (w : Blk)
    (wst : Strand) (hW : winOk ⟨w, wst⟩ = true) (c : ChunkTranscript)
    (h : mkChunkTranscript exons st cds w wst = .ok c) :
    WFC c ∧ mkTranscript exons st cds none = .ok c.base ∧ c.w = w ∧ c.wst = wst :=
  mkChunkTranscript_spec exons st cds w wst hW c h

/-- **chunk twin (C07-T1 for conversions)**: a transcript built on ANY chunk and the same transcript built on the
    chromosome (with or without sequence) answer every chromosome-level position conversion identically. -/
theorem chunk_built_chromosome_conversions_unchanged (exons : List Blk) (st : Strand) (cds : Option (List Blk))
    (w : Blk) (wst : Strand) (plen : Option Nat) (hW : winOk ⟨w, wst⟩ = true) (c : ChunkTranscript) (t : Transcript)
    (hc : mkChunkTranscript exons st cds w wst = .ok c) (ht : mkTranscript exons st cds plen = .ok t) :
    c.base.exons = t.exons ∧ c.base.cds = t.cds ∧
    ∀ x : Int,
      c.base.sequencePosToTranscript x = t.sequencePosToTranscript x ∧
      c.base.transcriptPosToSequence x = t.transcriptPosToSequence x ∧
      c.base.sequencePosToCds x = t.sequencePosToCds x ∧
      c.base.cdsPosToSequence x = t.cdsPosToSequence x ∧
      c.base.cdsPosToTranscript x = t.cdsPosToTranscript x ∧
      c.base.transcriptPosToCds x = t.transcriptPosToCds x ∧
      c.base.sequencePosToAminoAcid x = t.sequencePosToAminoAcid x := by
  have := twin_members exons st cds w wst plen hW c t hc ht
  subst this
  exact ⟨rfl, rfl, fun _ => ⟨rfl, rfl, rfl, rfl, rfl, rfl, rfl⟩⟩

/-- `chunk_relative_location` is the restriction to the chunk: it satisfies C04's chunk clause for the interval's
    initial location, and its bases are the in-chunk transcript bases, in transcript order, in chunk coordinates. -/
theorem chunk_location_is_restriction (c : ChunkTranscript) (h : WFC c) (hd : c.base.exons.strand ≠ .unstranded)
    (hno : c.base.exons.NonOverlap) :
    okChunkLoc (specOf c.base) (winOf c) (some c.location) = true ∧
    okChunkDown (initOf c.base.exons) c.w c.wst (some c.location) = true ∧
    locationBases c.location = chunkBases c.base.exons (winOf c) := by
  refine ⟨by unfold okChunkLoc; rw [h.loc]; simp [specOf], ?_, ?_⟩
  · have := Lift.chunkDown_spec (initOf c.base.exons) (initOf_wf _ h.base.exons) c.w c.wst
    rw [chunkDown_explicit _ (initOf_wf _ h.base.exons) (initOf_ne_empty _) (winOf c) h.win] at this
    rw [h.loc]; exact this
  · rw [h.loc]; exact (chunk_location_facts _ h.base.exons hd hno (winOf c) h.win).2.1

/-- chunk position → transcript: index among the in-chunk transcript bases; positions off the transcript refused. -/
theorem chunk_pos_to_transcript_spec (c : ChunkTranscript) (h : WFC c) (hd : c.base.exons.strand ≠ .unstranded)
    (hno : c.base.exons.NonOverlap) (q : Int) :
    okCR2T (specOf c.base) (winOf c) q (ans (c.chunkRelativePosToTranscript q)) = true :=
  cr2t_ok c h hd hno q

/-- transcript → chunk position: chunk coordinate of the `r`-th in-chunk transcript base. -/
theorem transcript_pos_to_chunk_spec (c : ChunkTranscript) (h : WFC c) (hd : c.base.exons.strand ≠ .unstranded)
    (hno : c.base.exons.NonOverlap) (r : Int) :
    okT2CR (specOf c.base) (winOf c) r (ans (c.transcriptPosToChunkRelative r)) = true :=
  t2cr_ok c h hd hno r

/-- chunk position → CDS. -/
theorem chunk_pos_to_cds_spec (c : ChunkTranscript) (h : WFC c) (hd : c.base.exons.strand ≠ .unstranded)
    (hnoD : ∀ d, c.base.cds = some d → d.NonOverlap) (q : Int) :
    okCR2D (specOf c.base) (winOf c) q (ans (c.chunkRelativePosToCds q)) = true :=
  cr2d_ok c h hd hnoD q

/-- CDS → chunk position. -/
theorem cds_pos_to_chunk_spec (c : ChunkTranscript) (h : WFC c) (hd : c.base.exons.strand ≠ .unstranded)
    (hnoD : ∀ d, c.base.cds = some d → d.NonOverlap) (r : Int) :
    okD2CR (specOf c.base) (winOf c) r (ans (c.cdsPosToChunkRelative r)) = true :=
  d2cr_ok c h hd hnoD r

/-- chunk-relative position = chromosome position mapped through the chunk window: when the chunk contains the
    transcript, `chunk_relative_pos_to_transcript(chunk coordinate of p)` is `sequence_pos_to_transcript(p)` for
    every chromosome position `p` of the chunk (same value, or both refused). -/
theorem chunk_pos_is_chrom_pos_through_window (c : ChunkTranscript) (h : WFC c)
    (hd : c.base.exons.strand ≠ .unstranded) (hno : c.base.exons.NonOverlap)
    (hall : ∀ x ∈ bases c.base.exons, inWin c.w x = true) (p : Nat) (hp : inWin c.w p = true) :
    ans (c.chunkRelativePosToTranscript (chunkOf (winOf c) p : Nat)) = ans (c.base.sequencePosToTranscript p) := by
  have h1 := cr2t_ok c h hd hno (chunkOf (winOf c) p : Nat)
  unfold okCR2T at h1
  rw [beq_iff_eq] at h1
  rw [h1, ans_c2t c.base h.base, cr2t_through_window (specOf c.base) (winOf c) hall p hp]

/-- …and `transcript_pos_to_chunk_relative(r)` is the chunk coordinate of `transcript_pos_to_sequence(r)`. -/
theorem transcript_pos_to_chunk_is_chrom_through_window (c : ChunkTranscript) (h : WFC c)
    (hd : c.base.exons.strand ≠ .unstranded) (hno : c.base.exons.NonOverlap)
    (hall : ∀ x ∈ bases c.base.exons, inWin c.w x = true) (r : Int) :
    ans (c.transcriptPosToChunkRelative r) =
      (ans (c.base.transcriptPosToSequence r)).map (fun p => ((chunkOf (winOf c) p.toNat : Nat) : Int)) := by
  have h1 := t2cr_ok c h hd hno r
  unfold okT2CR at h1
  rw [beq_iff_eq] at h1
  rw [h1, ans_t2c c.base, t2cr_through_window (specOf c.base) (winOf c) hall r]

/-- (in-chunk) transcript interval → chunk-relative location: the C01 interval clause on the chunk-relative location. -/
theorem transcript_interval_to_chunk_spec (c : ChunkTranscript) (h : WFC c) (hd : c.base.exons.strand ≠ .unstranded)
    (hno : c.base.exons.NonOverlap) (rs re : Int) (rst : Strand) :
    okTI2CR (specOf c.base) (winOf c) rs re rst (ans (c.transcriptIntervalToChunkRelative rs re rst)) = true :=
  ti2cr_ok c h hd hno rs re rst

/-- chunk interval → transcript-relative location; intervals that are not intervals of the chunk are refused. -/
theorem chunk_interval_to_transcript_spec (c : ChunkTranscript) (h : WFC c) (hd : c.base.exons.strand ≠ .unstranded)
    (hno : c.base.exons.NonOverlap) (s e : Int) (st : Strand) :
    okCRI2T (specOf c.base) (winOf c) s e st (ans (c.chunkRelativeIntervalToTranscript s e st)) = true :=
  cri2t_ok c h hd hno s e st

theorem cds_interval_to_chunk_spec (c : ChunkTranscript) (h : WFC c) (hd : c.base.exons.strand ≠ .unstranded)
    (hnoD : ∀ d, c.base.cds = some d → d.NonOverlap) (rs re : Int) (rst : Strand) :
    okDI2CR (specOf c.base) (winOf c) rs re rst (ans (c.cdsIntervalToChunkRelative rs re rst)) = true :=
  di2cr_ok c h hd hnoD rs re rst

theorem chunk_interval_to_cds_spec (c : ChunkTranscript) (h : WFC c) (hd : c.base.exons.strand ≠ .unstranded)
    (hnoD : ∀ d, c.base.cds = some d → d.NonOverlap) (s e : Int) (st : Strand) :
    okCRI2D (specOf c.base) (winOf c) s e st (ans (c.chunkRelativeIntervalToCds s e st)) = true :=
  cri2d_ok c h hd hnoD s e st

/-- `get_5p_interval` of a chunk-built transcript ("the result is chunk-relative") = the 5' UTR's in-chunk bases,
    in transcript order, in chunk coordinates — for EVERY chunk (containing, cutting or missing the transcript);
    a location without bases, never an error, when no UTR base lies on the chunk.
    (Code after the repair of F-C06b, /repo 9fec3b5: the whole-transcript index of the CDS start is reduced by
    `_chunk_relative_transcript_start` and clamped to the in-chunk part.) -/
theorem utr5_on_chunk_spec (c : ChunkTranscript) (h : WFC c) (d : Loc) (hc : Coding c.base d)
    (hnoD : d.NonOverlap) :
    okKUtr (specOf c.base) (winOf c) true (ans c.get5pInterval) = true :=
  kutr5_ok c h d hc hnoD

/-- `get_3p_interval` of a chunk-built transcript, likewise for every chunk. -/
theorem utr3_on_chunk_spec (c : ChunkTranscript) (h : WFC c) (d : Loc) (hc : Coding c.base d)
    (hnoD : d.NonOverlap) :
    okKUtr (specOf c.base) (winOf c) false (ans c.get3pInterval) = true :=
  kutr3_ok c h d hc hnoD

/-- exons `[0,10)` +, CDS `[4,8)`, built on the chunk `[2,20)` (which cuts the first two bases) -/
def exCut : ChunkTranscript :=
  ⟨⟨⟨[(0, 10)], .plus⟩, some ⟨[(4, 8)], .plus⟩, none⟩, (2, 20), .plus, .single (0, 8) .plus, some (.single (2, 6) .plus)⟩

/-! ### non-vacuity: a minus-strand transcript with a 0-bp gap, CDS starting at an exon boundary and
    ending inside the last (5'-most on the chromosome) exon satisfies every hypothesis used above -/

def exTx : Transcript :=
  ⟨⟨[(0, 6), (8, 10), (10, 12)], .minus⟩, some ⟨[(5, 6), (8, 10)], .minus⟩, some 14⟩

example : WFT exTx :=
  ⟨by decide, fun d hd => by
    have : d = ⟨[(5, 6), (8, 10)], .minus⟩ := by simp [exTx] at hd; exact hd.symm
    subst this; exact ⟨by decide, rfl⟩⟩
example : exTx.exons.NonOverlap := by decide
example : noEmptyBlock exTx.exons.blocks = true := by decide
example : exTx.exons.strand ≠ .unstranded := by decide
example : Coding exTx ⟨[(5, 6), (8, 10)], .minus⟩ := ⟨rfl, by decide, by decide⟩
example : exTx.sequencePosToTranscript 9 = .ok 2 := by rfl
example : exTx.transcriptPosToCds 2 = .ok 0 := by rfl
example : exTx.cdsPosToTranscript 0 = .ok 2 := by rfl
example : exTx.sequencePosToCds 5 = .ok 2 := by rfl
example : exTx.sequencePosToAminoAcid 5 = .ok 0 := by rfl
example : exTx.transcriptPosToSequence 2 = .ok 9 := by rfl
example : exTx.cdsPosToSequence 2 = .ok 5 := by rfl
-- the hypotheses `get5pInterval = .ok u5` / `get3pInterval = .ok u3` of the two emptiness theorems are met:
example : ∃ u5 u3, exTx.get5pInterval = .ok u5 ∧ exTx.get3pInterval = .ok u3 := by
  have hw : WFT exTx := ⟨by decide, fun d hd => by
    have : d = ⟨[(5, 6), (8, 10)], .minus⟩ := by simp [exTx] at hd; exact hd.symm
    subst this; exact ⟨by decide, rfl⟩⟩
  obtain ⟨u5, u3, h5, h3, _⟩ := utr_cds_utr_tile_the_transcript exTx hw _ ⟨rfl, by decide, by decide⟩
  exact ⟨u5, u3, h5, h3⟩
-- a 5'-partial CDS (start frame ONE) and a frame-ZERO one give the same transcript:
example : mkTranscriptF [(2, 9)] .plus (some [(3, 8)]) [.ONE] none = mkTranscriptF [(2, 9)] .plus (some [(3, 8)]) [.ZERO] none := by
  rfl
example : mkTranscriptF [(2, 9)] .plus (some [(3, 8)]) [.TWO] none = .ok ⟨⟨[(2, 9)], .plus⟩, some ⟨[(3, 8)], .plus⟩, none⟩ := by
  simp [mkTranscriptF, mkTranscript, initializeLocation, Model.chromosomeLocation, mkSingle, mkCompoundLoc, sortBlocks,
    blocksValid, Loc.len, blocksLen, Blk.len, bind, Except.bind, pure, Except.pure]
-- the modelled constructor returns a transcript (single exon, coding):
example : mkTranscript [(2, 9)] .plus (some [(3, 8)]) none = .ok ⟨⟨[(2, 9)], .plus⟩, some ⟨[(3, 8)], .plus⟩, none⟩ := by
  simp [mkTranscript, initializeLocation, Model.chromosomeLocation, mkSingle, mkCompoundLoc, sortBlocks,
    blocksValid, Loc.len, blocksLen, Blk.len, bind, Except.bind, pure, Except.pure]
example : exTx.transcriptPosToCds 0 = .error .InvalidPosition := by rfl      -- a 5' UTR base has no CDS position
-- the CDS reaching the 3' end of a multi-exon transcript: an empty (zero-length) UTR, not an error
example : (⟨⟨[(0, 10), (20, 30)], .plus⟩, some ⟨[(5, 10), (20, 30)], .plus⟩, none⟩ : Transcript).get3pInterval
    = .ok (.single (30, 30) .plus) := by rfl
-- (values of `get_5p_interval`, `chromosome_gaps_location`, … on concrete transcripts go through the
--  constructor's merge sort, which the kernel does not unfold; they are exercised by the correspondence run)

-- chunk-built: `exCut` is what the constructor builds (single-exon lists stay clear of the merge sort), is
-- well formed, directional, non-overlapping, coding with a CDS that is a stretch of the transcript
example : mkChunkTranscript [(0, 10)] .plus (some [(4, 8)]) (2, 20) .plus = .ok exCut := by
  simp [mkChunkTranscript, initializeLocationOnChunk, initializeLocation, Model.chromosomeLocation, mkSingle,
    mkCompoundLoc, sortBlocks, blocksValid, Loc.len, blocksLen, Blk.len, chunkDown, relativeToSingle,
    overlapKernel, singleRelativeToSingle, singleP2R, strandRelativeTo, bind, Except.bind, pure, Except.pure, exCut]
  rfl
example : WFC exCut :=
  ⟨⟨by decide, fun d hd => by
      have : d = ⟨[(4, 8)], .plus⟩ := by simp [exCut] at hd; exact hd.symm
      subst this; exact ⟨by decide, rfl⟩⟩, by decide, by decide, by decide⟩
example : exCut.base.exons.strand ≠ .unstranded := by decide
example : exCut.base.exons.NonOverlap := by decide
example : Coding exCut.base ⟨[(4, 8)], .plus⟩ := ⟨rfl, by decide, by decide⟩
-- regression for F-C06b (repaired): on the cutting chunk the 5' UTR is chromosome [2,4) = chunk [0,2) (was [0,4)),
-- the 3' UTR chromosome [8,10) = chunk [6,8) (was the zero-length [8,8))
example : exCut.get5pInterval = .ok (.single (0, 2) .plus) := by rfl
example : exCut.get3pInterval = .ok (.single (6, 8) .plus) := by rfl
example : exCut.chunkRelativePosToTranscript 0 = .ok 0 := by rfl          -- chunk 0 = chromosome 2 = in-chunk base 0
example : exCut.base.sequencePosToTranscript 2 = .ok 2 := by rfl          -- …which is transcript position 2
-- a chunk that contains the transcript (`hall`), on the minus strand of the chromosome
def exWhole : ChunkTranscript :=
  ⟨⟨⟨[(2, 10)], .plus⟩, some ⟨[(4, 8)], .plus⟩, none⟩, (0, 12), .minus, .single (2, 10) .minus, some (.single (4, 8) .minus)⟩
example : WFC exWhole :=
  ⟨⟨by decide, fun d hd => by
      have : d = ⟨[(4, 8)], .plus⟩ := by simp [exWhole] at hd; exact hd.symm
      subst this; exact ⟨by decide, rfl⟩⟩, by decide, by decide, by decide⟩
example : ∀ x ∈ bases exWhole.base.exons, inWin exWhole.w x = true := by decide
example : Coding exWhole.base ⟨[(4, 8)], .plus⟩ := ⟨rfl, by decide, by decide⟩
example : exWhole.get5pInterval = .ok (.single (8, 10) .minus) := by rfl  -- chromosome [2,4) on the minus chunk
example : exWhole.get3pInterval = .ok (.single (2, 4) .minus) := by rfl   -- chromosome [8,10)

end BioCantor.Props.C06
