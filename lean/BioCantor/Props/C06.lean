import BioCantor.Spec.Transcript
import BioCantor.Model.Transcript
namespace BioCantor.Props.C06
theorem placeholder : True := trivial
end BioCantor.Props.C06
