import BioCantor.Spec.Query
import BioCantor.Model.Query
import BioCantor.Props.C16
namespace BioCantor.Props.C09
theorem placeholder : True := trivial
end BioCantor.Props.C09
