/-
  C09 — collection queries return exactly the specified members, self-consistently.

  Model    : Model/Query.lean   (mirror of gene/collections.py 455-974 + gene.py / feature.py / variants.py
             `query_by_guids`; executes the GENERATED `Gen.bins` and `Gen.SingleInterval_parent_to_relative_pos`)
  Spec     : Spec/Query.lean    (membership clause `keepSpec`, documented bounds, sequence restriction, set-builder
             specs of the id queries; no bins)
  Lemmas   : Proofs/QueryKept, QueryResult, QueryBounds, QueryMain, QueryPos, QueryFindings, QueryIds,
             QueryIntervals, QueryIntervals2, QueryTies

  T1  position queries keep exactly `specFilter` — the bin pre-filter never changes the answer (this is where the
      C16 theorems `never_hides_bed`, `bins_one_bed`, `bins_all_is_set` about the generated kernel are used);
      rejected ranges = exactly the documented ones.
  T2  result bounds = documented bounds; `_subset_parent` yields the chromosome stretch [start,end) of the source
      sequence (whole-chromosome and already-chunked sources); members keep coordinates / identifiers / guids and
      their sequence is the source's restricted to the new bounds.
  T3  GUID / identifier / interval-GUID queries = set-builder specs; kept children keep only requested grandchildren.
  F   the modelled CURRENT code deviates on the finding inputs (F-C09b, F-C09c, F-C19f): witnesses below; the `meets`
      theorems are stated on the complement (their hypotheses say exactly which inputs are excluded).
      F-C09a is repaired in /repo (88921fc): its witness became the positive theorem `coding_only_skips_variants`.
  R   repairs behind constants: `Model.Query.repairedC09b`, `repairedC09c` (both `false` = the code as it is) and
      `variantFromDictDropsParent` (`true`).  `subsetParentG fixB fixC` models `_subset_parent` as coded and with the
      candidate patch (findings/C09.candidate_patches.diff); every theorem below is proved for the constants AS
      SYMBOLS (never unfolded), the witnesses are stated about `subsetParentG false false` / `… true true`
      explicitly — so flipping a constant after applying the patch keeps this file compiling, admits sequence-less
      parents (`ParWF`) and out-of-chunk members of id queries (`IdDomain`), and nothing else changes.
-/
import BioCantor.Proofs.QueryFindings
import BioCantor.Proofs.QueryIds
import BioCantor.Proofs.QueryIntervals2
import BioCantor.Proofs.QueryTies
import BioCantor.Props.C16
namespace BioCantor.Props.C09
open BioCantor BioCantor.Spec BioCantor.Spec.Query BioCantor.Model.Query BioCantor.Proofs.Query

/-! ## T1 — membership -/

/-- T1a: for ALL collections whose children contain their grandchildren (`ChildWF`: true by construction, a gene's
    span is the min/max of its transcripts), ALL valid non-negative ranges and ALL flags, `_query_by_position` keeps
    exactly `specFilter` of the children in iteration order — with or without the bin pre-filter
    (`completely_within and start and end`), whatever `Gen.bins` assigns.  (A variant collection is never coding:
    `Child.isCoding`; F-C09a repaired, no exclusion left.) -/
theorem query_kept_is_specFilter (src : Source) (s e : Int) (cw co : Bool) (hs : 0 ≤ s) (hse : s < e)
    (hwf : ∀ c ∈ src.children, ChildWF c) :
    queryKept src s e cw co = .ok (specFilter (iterChildren src) co cw s e) :=
  queryKept_eq src s e cw co hs hse hwf

/-- T1a': the iteration order is a permutation of the children, so as a SET the kept members are
    `specFilter src.children`. -/
theorem query_kept_perm (src : Source) (s e : Int) (cw co : Bool) :
    (specFilter (iterChildren src) co cw s e).Perm (specFilter src.children co cw s e) :=
  specFilter_perm (iterChildren_perm src) co cw s e

/-- T1b: the bin pre-filter is sound on its own: whenever the span test would keep a child, one of its
    grandchildren's bins is in the query's bin set (C16 `never_hides_bed` on the generated `bins`). -/
theorem prefilter_never_hides_kept (s e : Int) (S : GenP.RangeSet) (c : Child) (hc : ChildWF c) (hs : 0 ≤ s)
    (hS : Gen.bins s e .bed false = .ok (.many S)) (hin : s ≤ c.start ∧ c.stop ≤ e) :
    anyBinIn S c.gcs = .ok true := by
  rw [anyBinIn_eq, prefilter_never_hides s e S c hc hs hS hin]

/-- T1c: rejected ranges = exactly the documented ones (incl. `start == end`), in the coded order of the cascade. -/
theorem rejected_ranges_exact (src : Source) (qs qe : Option Int) (bs be : Int)
    (hb : selfBounds src = some (bs, be)) :
    validate src qs qe =
      if validRange bs be (optOr qs bs) (optOr qe be) = true then .ok (optOr qs bs, optOr qe be)
      else .error (.doc .InvalidQuery) :=
  validate_eq src qs qe bs be hb

/-- the span kernels are the textbook predicates on valid intervals -/
theorem overlap_kernel (s e a b : Int) (h1 : s ≤ e) (h2 : a ≤ b) :
    overlapInt (s, e) (a, b) = decide (a < e ∧ s < b ∧ a < b ∧ s < e) := overlapInt_iff s e a b h1 h2
theorem contains_kernel (s e a b : Int) (h : s < e) (h2 : a ≤ b) :
    containsInt (s, e) (a, b) = decide (s ≤ a ∧ b ≤ e ∧ a < b) := containsInt_iff s e a b h h2

/-- the span kernel used here is the shared model of `SingleInterval._has_overlap_single_interval` (Model/Location,
    C01/C02) on valid blocks -/
theorem overlap_kernel_is_location_kernel (a b : Blk) (ha : a.1 ≤ a.2) (hb : b.1 ≤ b.2) :
    overlapInt ((a.1 : Int), (a.2 : Int)) ((b.1 : Int), (b.2 : Int)) = Model.overlapKernel a b :=
  overlapInt_eq_overlapKernel a b ha hb

/-! ## T2 — bounds, the re-chunked parent, member sequences -/

/-- T2a: whole-chromosome source: `_subset_parent(start, end)` = the stretch `[start,end)` of the sequence. -/
theorem subset_parent_whole (src : Source) (seq : List Char) (hp : src.par = .whole seq) (hb : src.bounds = none)
    (start stop : Int) (h : 0 ≤ start ∧ start < stop ∧ stop ≤ seq.length) :
    subsetParent src start stop =
      .ok (if start = 0 ∧ stop = seq.length then .whole seq else .chunk start stop (slice seq start stop)) :=
  subsetParent_whole src seq hp hb start stop h

/-- T2b: already-chunked source `[cs, cs+len)`: the stretch `[start,end)`, read at `start - cs` of the chunk. -/
theorem subset_parent_chunk (src : Source) (cs : Int) (seq : List Char) (hp : src.par = .chunk cs seq)
    (hb : src.bounds = none) (hcs : 0 ≤ cs) (start stop : Int)
    (h : cs ≤ start ∧ start < stop ∧ stop ≤ cs + seq.length) :
    subsetParent src start stop =
      .ok (if start = cs ∧ stop = cs + seq.length then .chunk cs (cs + seq.length) seq
           else .chunk start stop (slice seq (start - cs) (stop - cs))) :=
  subsetParent_chunk src cs seq hp hb hcs start stop h

/-- T2b': declaratively — the sequence cut for `[start, stop)` holds, at every chromosome position `p` of the new
    range, the source's base at `p` (`lo` = chromosome position of the source sequence's first base). -/
theorem new_chunk_base_at (lo : Int) (seq : List Char) (start stop p : Int) (h0 : lo ≤ start)
    (hp : start ≤ p ∧ p < stop) :
    (stretch lo seq start stop)[(p - start).toNat]? = seq[(p - lo).toNat]? :=
  stretch_base lo seq start stop p h0 hp

/-- T2c: a member's sequence computed the model's way (lift onto the new chunk, slice the chunk's sequence) is the
    spec's (bases of the member ∩ new range read at chromosome coordinates). -/
theorem member_sequence (rp : RPar) (g : GChild) (hg : g.start ≤ g.stop)
    (hrp : match rp with
           | .whole seq => 0 ≤ g.start ∧ g.stop ≤ seq.length
           | .chunk cs ce _ => cs ≤ ce
           | _ => True) :
    (memberSeq rp g).norm = (expectMSeq rp g).norm := memberSeq_norm_eq_expect rp g hg hrp

/-- T1 + T2 (the full clause for position queries): for EVERY well-formed source that has bounds, EVERY range
    (incl. None, negative, inverted, empty, out of bounds) and EVERY flag combination, the answer of the modelled
    `query_by_position` is accepted by the specification: rejected iff the range is not a non-empty sub-range of the
    bounds (or the expansion leaves the sequence), else exactly the `specFilter` members with unchanged
    coordinates / identifiers / guids, the documented bounds, the source's sequence restricted to them, and member
    sequences restricted likewise.
    Excluded (findings, witnesses below): F-C09b (until `repairedC09b`) / F-C08a (`SrcWF.par`), F-C19f (`hb`). -/
theorem query_by_position_meets_spec (src : Source) (q : PosQ) (wf : SrcWF src) (b : Int × Int)
    (hb : selfBounds src = some b) :
    okQueryByPosition src q (toAns (queryByPosition src q)) = true :=
  queryByPosition_meets src q wf b hb

/-- T2d (corollary): an accepted answer carries the documented bounds. -/
theorem result_bounds_documented (src : Source) (q : PosQ) (wf : SrcWF src) (bs be : Int)
    (hb : selfBounds src = some (bs, be))
    (r : Result) (hr : queryByPosition src q = .ok r) :
    (r.start, r.stop) = resultBounds q (optOr q.s bs) (optOr q.e be)
      (specFilter src.children q.codingOnly q.cw (optOr q.s bs) (optOr q.e be)) := by
  have h := queryByPosition_meets src q wf (bs, be) hb
  rw [hr] at h
  unfold okQueryByPosition expectQueryByPosition at h
  rw [specBounds_eq_self hb] at h
  simp only [toAns] at h
  split at h
  · simp [meets] at h
  · split at h
    · simp [meets] at h
    · simp only [meets, beq_iff_eq] at h
      have h1 := congrArg Result.start h
      have h2 := congrArg Result.stop h
      simp only [Result.norm, expectResult] at h1 h2
      rw [h1, h2]

/-! ## hypotheses are satisfiable (non-vacuity) -/

def exG1 : GChild := ⟨2, 5, .plus, 1000⟩
def exG2 : GChild := ⟨3, 8, .minus, 1001⟩
def exGene : Child := ⟨.gene, 2, 8, true, 1, [['a'], ['b']], [exG1, exG2]⟩
def exFeat : Child := ⟨.feat, 6, 10, false, 2, [['a']], [⟨6, 10, .minus, 1100⟩]⟩
def exSeq : List Char := ['A','C','G','T','T','G','C','A','A','G','C','T']
def exW : Source := ⟨.whole exSeq, none, [exGene, exFeat]⟩
def exK : Source := ⟨.chunk 3 ['T','T','G','C','A','A'], none, [exGene, exFeat]⟩

example : ChildWF exGene := ⟨by decide, by decide⟩
example : ChildHull exGene := ⟨by decide, by decide⟩

theorem exW_wf : SrcWF exW := by
  refine ⟨?_, by decide, ?_⟩
  · intro c hc
    simp only [exW, List.mem_cons, List.not_mem_nil, or_false] at hc
    rcases hc with rfl | rfl <;> exact ⟨by decide, by decide⟩
  · simp only [ParWF, exW, true_and]
    intro c hc
    simp only [List.mem_cons, List.not_mem_nil, or_false] at hc
    rcases hc with rfl | rfl <;> exact ⟨by decide, by decide⟩

example : selfBounds exW = some (0, 12) := rfl
example : okQueryByPosition exW ⟨some 4, some 7, false, false, false⟩
    (toAns (queryByPosition exW ⟨some 4, some 7, false, false, false⟩)) = true :=
  query_by_position_meets_spec exW _ exW_wf (0, 12) rfl

/-! ## T3 — GUID / identifier queries are their set-builder specifications -/

/-- T3a: `query_by_guids(ids)` (ids a set) returns exactly { c | c.guid ∈ ids }: unchanged members, bounds = the
    source bounds widened to the kept members, the source's sequence.  `hin` (`IdDomain`): the members lie inside
    the bounds — this excludes only F-C09c (a member reaching beyond the sequence chunk) and is dropped for chunks
    once `repairedC09c` is flipped (second disjunct); for whole-chromosome sources it holds by construction. -/
theorem query_by_guids_meets_spec (src : Source) (wf : SrcWF src) (ids : List Nat) (hids : ids.Nodup) (bs be : Int)
    (hb : selfBounds src = some (bs, be)) (hne : src.par.hasSeq = true → bs < be)
    (hin : src.par.hasSeq = true → IdDomain src bs be src.children) :
    okQueryByGuids src ids (toAns (queryByGuids src ids)) = true :=
  queryByGuids_meets src wf ids hids bs be hb hne hin

/-- T3b: `query_by_feature_identifiers(ids)` returns exactly { c | c.identifiers ∩ ids ≠ ∅ }. -/
theorem query_by_identifiers_meets_spec (src : Source) (wf : SrcWF src) (ids : List (List Char)) (bs be : Int)
    (hb : selfBounds src = some (bs, be)) (hne : src.par.hasSeq = true → bs < be)
    (hin : src.par.hasSeq = true → IdDomain src bs be src.children) :
    okQueryByIdentifiers src ids (toAns (queryByIdentifiers src ids)) = true :=
  queryByIdentifiers_meets src wf ids bs be hb hne hin

example : okQueryByGuids exW [2, 999] (toAns (queryByGuids exW [2, 999])) = true :=
  query_by_guids_meets_spec exW exW_wf [2, 999] (by decide) 0 12 rfl (by intro _; decide) (by
    intro _
    refine Or.inl (fun c hc => ?_)
    simp only [exW, List.mem_cons, List.not_mem_nil, or_false] at hc
    rcases hc with rfl | rfl <;> decide)

/-- T3c: `query_by_interval_guids` (kinds = all), `query_by_transcript_interval_guids` (kinds = [gene]),
    `query_by_feature_interval_guids` (kinds = [feat]) return exactly the children of a requested kind owning a
    requested grandchild, each keeping ONLY its requested grandchildren (span = their hull, same guid and
    identifiers).  `GcWF`: grandchild guids are distinct and owned by one child.  Stated for genes and feature
    collections (`hnv`); variant collections (sorted / overlap check of `VariantIntervalCollection.__init__`) rest on
    the correspondence run — full statement: the same without `hnv`, for sources whose variant lists are
    start-sorted and non-overlapping. -/
theorem query_by_interval_guids_meets_spec_partial (src : Source) (wf : SrcWF src) (gw : GcWF src) (kinds : List Kind)
    (ids : List Nat) (hids : ids.Nodup) (hnv : ∀ c ∈ src.children, c.kind ≠ .var) (bs be : Int)
    (hb : selfBounds src = some (bs, be)) (hne : src.par.hasSeq = true → bs < be)
    (hin : src.par.hasSeq = true → IdDomain src bs be src.children) :
    okQueryByIntervalGuids src kinds ids (toAns (queryByIntervalGuids src kinds ids)) = true :=
  queryByIntervalGuids_meets src wf gw kinds ids hids hnv bs be hb hne hin

/-- T3d: `GeneInterval.query_by_guids` / `FeatureIntervalCollection.query_by_guids`: `None` iff nothing is
    requested, else the same child reduced to the requested grandchildren on the unchanged parent. -/
theorem child_query_by_guids_meets_spec (src : Source) (wf : SrcWF src) (gw : GcWF src) (c : Child)
    (hc : c ∈ src.children) (hk : c.kind ≠ .var) (ids : List Nat) (hids : ids.Nodup) :
    okChildQueryByGuids src c ids (toCAns (childQueryResult src c ids)) = true :=
  childQuery_meets src wf gw c hc hk ids hids

theorem exW_gcwf : GcWF exW := by
  refine ⟨?_, ?_⟩
  · intro c hc
    simp only [exW, List.mem_cons, List.not_mem_nil, or_false] at hc
    rcases hc with rfl | rfl <;> decide
  · intro c hc c2 hc2 x hx x2 hx2 hg
    simp only [exW, List.mem_cons, List.not_mem_nil, or_false] at hc hc2
    rcases hc with rfl | rfl <;> rcases hc2 with rfl | rfl
    · rfl
    · simp only [exGene, exFeat, exG1, exG2, List.mem_cons, List.not_mem_nil, or_false] at hx hx2
      rcases hx with rfl | rfl <;> subst hx2 <;> simp at hg
    · simp only [exGene, exFeat, exG1, exG2, List.mem_cons, List.not_mem_nil, or_false] at hx hx2
      rcases hx2 with rfl | rfl <;> subst hx <;> simp at hg
    · rfl

example : okQueryByIntervalGuids exW [.gene, .feat, .var] [1001, 1100]
    (toAns (queryByIntervalGuids exW [.gene, .feat, .var] [1001, 1100])) = true :=
  query_by_interval_guids_meets_spec_partial exW exW_wf exW_gcwf _ [1001, 1100] (by decide)
    (by
      intro c hc
      simp only [exW, List.mem_cons, List.not_mem_nil, or_false] at hc
      rcases hc with rfl | rfl <;> decide)
    0 12 rfl (by intro _; decide) (by
      intro _
      refine Or.inl (fun c hc => ?_)
      simp only [exW, List.mem_cons, List.not_mem_nil, or_false] at hc
      rcases hc with rfl | rfl <;> decide)

/-! ## F — the modelled current code deviates on the finding inputs -/

/-- F-C09a, REPAIRED in /repo (88921fc; before the repair this loop ended in AttributeError for every collection
    holding a VariantIntervalCollection — regression line in corpus/C09/regress.ops): a coding-only query succeeds
    and keeps no variant collection, only coding genes. -/
theorem coding_only_skips_variants (src : Source) (s e : Int) (cw : Bool) (hs : 0 ≤ s) (hse : s < e)
    (hwf : ∀ c ∈ src.children, ChildWF c) :
    ∃ kept, queryKept src s e cw true = .ok kept ∧ ∀ c ∈ kept, c.kind ≠ .var ∧ c.coding = true :=
  queryKept_codingOnly_variant src s e cw hs hse hwf

/-- F-C19f: an empty collection without a located parent has no bounds: AttributeError, not InvalidQueryError. -/
theorem F_C19f_empty_collection :
    queryByPosition ⟨.none, none, []⟩ ⟨some 0, some 1, false, true, false⟩ = .error .attributeError
    ∧ okQueryByPosition ⟨.none, none, []⟩ ⟨some 0, some 1, false, true, false⟩ .raised = false := ⟨rfl, rfl⟩

/-- F-C09b, as coded (`fixB = false`): on a sequence-less parent `_subset_parent` runs into `extract_sequence()`;
    with the candidate repair (`fixB = true`) the parent is handed on unchanged. -/
theorem F_C09b_sequence_less_parent :
    subsetParentG false false ⟨.noseq, some (2, 8), [⟨.gene, 2, 8, false, 1, [], [⟨2, 8, .plus, 1000⟩]⟩]⟩ 3 8
      = .error (.doc .NullSequence)
    ∧ subsetParentG true false ⟨.noseq, some (2, 8), [⟨.gene, 2, 8, false, 1, [], [⟨2, 8, .plus, 1000⟩]⟩]⟩ 3 8
      = .ok .noseq := ⟨rfl, rfl⟩

/-- F-C09c, as coded (`fixC = false`): id query on a chunk `[3,9)` keeping a member that ends at 10: the clamp
    `end = chromosome_location.end - 1` yields the chunk `[3,8)` — one base short of the specified `[3,9)`;
    with the candidate repair (`fixC = true`) the specified chunk comes out. -/
theorem F_C09c_end_clamp :
    subsetParentG false false exK 2 10 = .ok (.chunk 3 8 ['T','T','G','C','A'])
    ∧ expectPar exK.par 2 10 = .chunk 3 9 ['T','T','G','C','A','A']
    ∧ subsetParentG false true exK 2 10 = .ok (.chunk 3 9 ['T','T','G','C','A','A']) := ⟨rfl, by decide, rfl⟩

/-! ## R — the candidate repairs of F-C09b / F-C09c, proved in general -/

/-- repaired F-C09c: a range overlapping the chunk is clamped to it — the new parent is the stretch
    `[max start cs, min stop ce)`, i.e. exactly `expectPar`; no base is lost at the chunk end. -/
theorem subset_parent_chunk_clamped_repaired (fixB : Bool) (src : Source) (cs : Int) (seq : List Char)
    (hp : src.par = .chunk cs seq) (hb : src.bounds = none) (hcs : 0 ≤ cs) (start stop : Int)
    (h : max start cs < min stop (cs + seq.length)) (hnid : ¬ (start = cs ∧ stop = cs + seq.length)) :
    subsetParentG fixB true src start stop = .ok (expectPar src.par start stop) := by
  rw [subsetParentG_chunk_clamped fixB src cs seq hp hb hcs start stop h hnid, hp]
  rfl

/-- repaired F-C09b: a sequence-less parent is handed on unchanged -/
theorem subset_parent_noseq_repaired (fixC : Bool) (src : Source) (hp : src.par = .noseq) (start stop : Int)
    (hne : start ≠ stop) : subsetParentG true fixC src start stop = .ok .noseq :=
  subsetParentG_noseq fixC src hp start stop hne

/-- the repairs do not touch what already was right: inside the chunk every version agrees -/
theorem subset_parent_versions_agree_inside (fixB fixC : Bool) (src : Source) (cs : Int) (seq : List Char)
    (hp : src.par = .chunk cs seq) (hb : src.bounds = none) (hcs : 0 ≤ cs) (start stop : Int)
    (h : cs ≤ start ∧ start < stop ∧ stop ≤ cs + seq.length) :
    subsetParentG fixB fixC src start stop = subsetParentG false false src start stop := by
  rw [subsetParentG_chunk fixB fixC src cs seq hp hb hcs start stop h,
    subsetParentG_chunk false false src cs seq hp hb hcs start stop h]

example : subsetParentG false true exK 2 10 = .ok (expectPar exK.par 2 10) :=
  subset_parent_chunk_clamped_repaired false exK 3 _ rfl rfl (by decide) 2 10 (by decide) (by decide)

/-! ## more non-vacuity: the theorems above instantiated on concrete non-trivial inputs -/

theorem exW_childwf : ∀ c ∈ exW.children, ChildWF c := fun c hc => (exW_wf.hull c hc).wf

example : queryKept exW 3 9 true false = .ok (specFilter (iterChildren exW) false true 3 9) :=
  query_kept_is_specFilter exW 3 9 true false (by decide) (by decide) exW_childwf

example : ∃ S, Gen.bins 2 9 .bed false = .ok (.many S) ∧ anyBinIn S exGene.gcs = .ok true := by
  obtain ⟨S, hS⟩ := Props.C16.bins_all_is_set 2 9 .bed
  exact ⟨S, hS, prefilter_never_hides_kept 2 9 S exGene (exW_childwf exGene (by decide)) (by decide) hS (by decide)⟩

example : validate exW (some 12) (some 12) = .error (.doc .InvalidQuery) := by
  rw [rejected_ranges_exact exW (some 12) (some 12) 0 12 rfl]; rfl

example : subsetParent exW 4 7 = .ok (.chunk 4 7 ['T','G','C']) :=
  subset_parent_whole exW exSeq rfl rfl 4 7 (by decide)

example : subsetParent exK 4 7 = .ok (.chunk 4 7 ['T','G','C']) :=
  subset_parent_chunk exK 3 _ rfl rfl (by decide) 4 7 (by decide)

example : (memberSeq (.chunk 4 7 ['T','G','C']) exG2).norm = (expectMSeq (.chunk 4 7 ['T','G','C']) exG2).norm :=
  member_sequence _ exG2 (by decide) (by decide)

example : (stretch 3 ['T','T','G','C','A','A'] 4 7)[(5 - 4 : Int).toNat]? = ['T','T','G','C','A','A'][(5 - 3 : Int).toNat]? :=
  new_chunk_base_at 3 _ 4 7 5 (by decide) (by decide)

example : okQueryByIdentifiers exW [['b'], ['z']] (toAns (queryByIdentifiers exW [['b'], ['z']])) = true :=
  query_by_identifiers_meets_spec exW exW_wf _ 0 12 rfl (by intro _; decide) (by
    intro _
    refine Or.inl (fun c hc => ?_)
    simp only [exW, List.mem_cons, List.not_mem_nil, or_false] at hc
    rcases hc with rfl | rfl <;> decide)

example : okChildQueryByGuids exW exGene [1001] (toCAns (childQueryResult exW exGene [1001])) = true :=
  child_query_by_guids_meets_spec exW exW_wf exW_gcwf exGene (by decide) (by decide) [1001] (by decide)

def exVar : Child := ⟨.var, 9, 10, false, 3, [], [⟨9, 10, .plus, 1200⟩]⟩
def exN : Source := ⟨.none, some (0, 12), [exGene, exVar]⟩

example : ∃ kept, queryKept exN 1 12 true true = .ok kept ∧ ∀ c ∈ kept, c.kind ≠ .var ∧ c.coding = true :=
  coding_only_skips_variants exN 1 12 true (by decide) (by decide)
    (by
      intro c hc
      simp only [exN, List.mem_cons, List.not_mem_nil, or_false] at hc
      rcases hc with rfl | rfl <;> exact ⟨by decide, by decide⟩)

example : overlapInt ((2 : Nat), (8 : Nat)) ((6 : Nat), (10 : Nat)) = Model.overlapKernel (2, 8) (6, 10) :=
  overlap_kernel_is_location_kernel (2, 8) (6, 10) (by decide) (by decide)

end BioCantor.Props.C09
